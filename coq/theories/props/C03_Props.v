(* C03 -- JSON and TOML output decode back to the value that was output (both proved end to end: mapping layer + text
   layer; TOML re-models the third-party serializer toml-rs 0.5.11 byte for byte; YAML: the writer (converter + serde_yaml + libyaml emitter) is re-modelled byte for byte and partly proved, see the end). *)
From Ucg Require Import data.Val data.Json data.MapJson data.Json_Lemmas data.MapJson_Lemmas.

(* text layer: the pretty printer's output is read back by an independent RFC 8259 parser *)
Theorem json_text_roundtrip : forall j, json_wf j = true -> json_parse (json_print j) = Some j.
Proof. exact Json_Lemmas.json_text_roundtrip. Qed.

(* mapping layer: the tree built from a value denotes exactly that value
   (same nesting, list order, key set, strings, booleans, nulls, numerically equal numbers) *)
Theorem to_json_lossless : forall v j, to_json v = Ok j -> json_abs j = Some (canon v).
Proof. exact MapJson_Lemmas.to_json_lossless. Qed.

(* end to end: whatever bytes the converter writes, they parse, and to the value output *)
Theorem json_output_decodes : forall v t,
    json_output v = Ok t -> exists j, json_parse t = Some j /\ json_abs j = Some (canon v).
Proof. exact MapJson_Lemmas.json_output_decodes. Qed.

(* unrepresentable values are errors, and only they are *)
Theorem to_json_error_iff : forall v, to_json v = Err <-> unrepresentable_json v = true.
Proof. exact MapJson_Lemmas.to_json_error_iff. Qed.

(* integers are written as numbers of the same value *)
Theorem int_text_value : forall z, num_value (dec_of_Z z ++ b ".0") = Some (z * 10, -1)%Z.
Proof. exact MapJson_Lemmas.num_value_int. Qed.

(* ------------------------------------------------------------------ TOML ------------------------------------------------
   data/Toml.v: the converter (src/convert/toml.rs), the pretty serializer of toml-rs 0.5.11 as reached from a Value
   (value.rs + ser.rs), an independent TOML reader, and the data the property says must come back. *)
From Ucg Require Import data.Toml data.Toml_Err data.Toml_Doc data.Toml_Lemmas.

(* every byte string is written as a string token (literal, multi-line literal, basic or multi-line basic) that reads back as itself *)
Theorem toml_string_roundtrip : forall s rest, follow_ok rest = true -> parse_string (emit_value_str s ++ rest) = Some (s, rest).
Proof. exact Toml_Lemmas.toml_string_roundtrip. Qed.

(* every key (empty included), bare or quoted *)
Theorem toml_key_roundtrip : forall k rest, key_follow_ok rest -> parse_key (escape_key k ++ rest) = Some (k, rest).
Proof. exact Toml_Lemmas.toml_key_roundtrip. Qed.

(* every i64 is written as an integer token of the same value *)
Theorem toml_int_roundtrip : forall z rest, in_i64 z = true -> tok_follow_ok rest ->
    parse_scalar (dec_of_Z z ++ rest) = Some (DInt z, rest).
Proof. exact Toml_Lemmas.toml_int_roundtrip. Qed.

(* a finite float (given by Rust's Display text) is written as a FLOAT token -- never an integer, date or boolean token --
   denoting the same decimal *)
Theorem toml_float_text : forall t neg i fd rest,
    rust_float_parts t = Some (neg, i, fd) -> tok_follow_ok rest ->
    let d := mk_fin neg (digits_val (i ++ fd)) (- Z.of_nat (List.length fd))%Z in
    parse_scalar (float_text (TFin t) ++ rest) = Some (DFloat d, rest) /\ spec_float (FFin t) = Some d.
Proof. exact Toml_Lemmas.toml_float_text. Qed.

(* conversion fails exactly for the values TOML cannot hold (NULL or a constraint anywhere, a root that is not a tuple, and the
   serializer's own ValueAfterTable cases); no assertion of the serializer can fire *)
Theorem to_toml_error_iff : forall v, (exists e, toml_output v = TErr e) <-> unrepresentable_toml v = true.
Proof. exact Toml_Lemmas.to_toml_error_iff. Qed.

Theorem toml_output_no_panic : forall v, toml_output v <> TErr EPanic.
Proof. exact Toml_Err.toml_output_no_panic. Qed.

(* end to end: for every value whose arrays are either table-free or arrays of tables directly under a key (nested tables and
   arrays of tables included), the text written parses, and to the data of the value (first binding of duplicate keys) *)
Theorem toml_doc_roundtrip : forall v t out,
    val_wf v = true -> to_toml v = TOk t -> good t = true -> toml_emit t = TOk out ->
    exists d, toml_parse out = Some d /\ spec_data v = Some (doc_canon d).
Proof. exact Toml_Lemmas.toml_doc_roundtrip. Qed.

Theorem toml_good_total : forall v t,
    val_wf v = true -> to_toml v = TOk t -> is_table t = true -> good t = true ->
    exists out d, toml_emit t = TOk out /\ toml_parse out = Some d /\ spec_data v = Some (doc_canon d).
Proof. exact Toml_Doc.toml_good_total. Qed.

(* outside that class the property is FALSE of the code (known finding C03-toml-mixed-array): the witnesses *)
Theorem toml_mixed_array_refuted :
  unrepresentable_toml ex_mixed = false /\
  toml_output ex_mixed
  = TOk (b "a = [" ++ [nl] ++ b "    1" ++ [nl] ++ b "[[a]]" ++ [nl] ++ b "b = 2" ++ [nl] ++ b "," ++ [nl] ++ b "]" ++ [nl]) /\
  (forall o, toml_output ex_mixed = TOk o -> toml_parse o = None) /\
  match to_toml ex_mixed with TOk t => good t | TErr _ => true end = false.
Proof. exact Toml_Lemmas.toml_mixed_array_refuted. Qed.

Theorem toml_nested_table_array_alters :
  unrepresentable_toml ex_altered = false /\
  toml_output ex_altered = TOk (b "[[a]]" ++ [nl] ++ b "b = 1" ++ [nl] ++ b "[[a]]" ++ [nl] ++ b "c = 2" ++ [nl]) /\
  (forall o, toml_output ex_altered = TOk o ->
     toml_parse o = Some (DTab [(b "a", DArr [DTab [(b "b", DInt 1)]; DTab [(b "c", DInt 2)]])])) /\
  spec_data ex_altered = Some (DTab [(b "a", DArr [DTab [(b "b", DInt 1)]; DArr [DTab [(b "c", DInt 2)]]])]).
Proof. exact Toml_Lemmas.toml_nested_table_array_alters. Qed.

(* ------------------------------------------------------------------ YAML ------------------------------------------------
   data/Yaml.v: the converter (src/convert/yaml.rs), serde_yaml 0.9.34's serializer and the libyaml emitter it drives (scalar
   analysis and style selection, the four scalar styles, block mappings / sequences), an independent reader for the block
   subset written from the YAML 1.2 specification (core schema), and the data the property says must come back.
   PARTIAL: scalars and flat documents are proved; nested documents, non-ASCII strings and strings with line feeds are tied
   by the byte correspondence (the model's bytes = the converter's on every generated value) and decided by the independent
   python decoder.  The statements are in Yaml_*.v; the long ones are re-exported here under their own type. *)
From Ucg Require data.Yaml data.Yaml_Err data.Yaml_Scalar data.Yaml_Str data.Yaml_Plain data.Yaml_Quote data.Yaml_Doc data.Yaml_Lemmas.
Module YamlP.
  Import data.Toml.   (* dfloat *)
  Import data.Yaml data.Yaml_Err data.Yaml_Scalar data.Yaml_Str data.Yaml_Plain data.Yaml_Quote data.Yaml_Doc data.Yaml_Lemmas.

  (* conversion fails exactly when a constraint value occurs somewhere; the serializer and the emitter never fail *)
  Theorem to_yaml_error_iff : forall v,
      (to_yaml v = YErr YEConstraint <-> unrepresentable_yaml v = true) /\
      ((exists y, to_yaml v = YOk y) <-> unrepresentable_yaml v = false).
  Proof. exact Yaml_Err.to_yaml_error_iff. Qed.

  Theorem yaml_output_error_iff : forall v,
      (yaml_output v = YErr YEConstraint <-> unrepresentable_yaml v = true) /\
      ((exists out, yaml_output v = YOk out) <-> unrepresentable_yaml v = false).
  Proof. exact Yaml_Err.yaml_output_error_iff. Qed.

  Theorem yaml_emit_total : forall y, exists out, yaml_emit y = YOk out.
  Proof. exact Yaml_Err.yaml_emit_total. Qed.

  (* a string the reader would resolve as null or a boolean is always quoted; so is the text of every i64 *)
  Theorem null_bool_quoted : forall s,
      resolve_plain s = DNull \/ (exists v, resolve_plain s = DBool v) -> needs_quote s = true.
  Proof. exact Yaml_Quote.null_bool_quoted. Qed.

  (* every integer is written plain and read back as that integer (document, any context) *)
  Theorem yaml_int_roundtrip : ltac:(let t := type of Yaml_Scalar.yaml_int_roundtrip in exact t).
  Proof. exact Yaml_Scalar.yaml_int_roundtrip. Qed.
  (* null / true / false, .nan / .inf / -.inf *)
  Theorem yaml_scalar_kinds : ltac:(let t := type of Yaml_Scalar.yaml_scalar_kinds in exact t).
  Proof. exact Yaml_Scalar.yaml_scalar_kinds. Qed.
  Theorem yaml_float_nonfinite : ltac:(let t := type of Yaml_Scalar.yaml_float_nonfinite in exact t).
  Proof. exact Yaml_Scalar.yaml_float_nonfinite. Qed.
  (* an ASCII string without a line feed, as a value or a simple key at any indentation: the style the emitter chooses reads
     back as the string (quoted styles), or as whatever the core schema resolves the plain text to (plain style) *)
  Theorem yaml_string_roundtrip_ascii : ltac:(let t := type of Yaml_Plain.yaml_string_roundtrip_ascii in exact t).
  Proof. exact Yaml_Plain.yaml_string_roundtrip_ascii. Qed.
  (* identifiers are written plain and read back as strings, as values and as keys *)
  Theorem yaml_ident_roundtrip : ltac:(let t := type of Yaml_Plain.yaml_ident_roundtrip in exact t).
  Proof. exact Yaml_Plain.yaml_ident_roundtrip. Qed.

  (* flat documents: a tuple / a list of scalars is written as text that parses to the data of the value *)
  Theorem yaml_doc_roundtrip_partial : forall fs,
      fs <> [] -> NoDup (map fst fs) -> forallb simple_vfield fs = true ->
      exists out d, yaml_output (VTuple fs) = YOk out /\ yaml_parse out = Some d /\ Yaml.spec_data (VTuple fs) = Some d.
  Proof. exact Yaml_Doc.yaml_doc_roundtrip_partial. Qed.

  Theorem yaml_doc_roundtrip_list_partial : forall l,
      l <> [] -> forallb simple_val l = true ->
      exists out d, yaml_output (VList l) = YOk out /\ yaml_parse out = Some d /\ Yaml.spec_data (VList l) = Some d.
  Proof. exact Yaml_Doc.yaml_doc_roundtrip_list_partial. Qed.

  (* where the property is FALSE of the code: a string the core schema reads as a number although serde_yaml's own number
     parser overflows on it is left unquoted (known finding C03-yaml-number-like-string) *)
  Theorem yaml_number_overflow_refuted :
    yaml_output (VStr (b "1e999")) = YOk (b "1e999" ++ [nl])
    /\ yaml_parse (b "1e999" ++ [nl]) = Some (DFloat (Toml.DFin false 1 999))
    /\ ~ yaml_roundtrips (VStr (b "1e999"))
    /\ yaml_output (VStr (b "0x100000000000000000000000000000000")) = YOk (b "0x100000000000000000000000000000000" ++ [nl])
    /\ yaml_parse (b "0x100000000000000000000000000000000" ++ [nl]) = Some (DInt (2 ^ 128))
    /\ ~ yaml_roundtrips (VStr (b "0x100000000000000000000000000000000")).
  Proof. exact Yaml_Lemmas.yaml_number_overflow_refuted. Qed.

  (* U+2028 / U+2029 outside double quotes: libyaml (YAML 1.1) treats them as line breaks and indents what follows; a YAML 1.2
     reader, for which they are ordinary characters, reads extra spaces (known finding C03-yaml-ls-ps) *)
  Theorem yaml_ls_string_refuted :
    let v := VStr (b "a" ++ ls ++ b "b") in
    yaml_output v = YOk (b "'a" ++ ls ++ b "  b'" ++ [nl])
    /\ yaml_parse (b "'a" ++ ls ++ b "  b'" ++ [nl]) = Some (DStr (b "a" ++ ls ++ b "  b"))
    /\ ~ yaml_roundtrips v.
  Proof. exact Yaml_Lemmas.yaml_ls_string_refuted. Qed.
End YamlP.
