(* C18 -- `env` exposes the process environment, nothing else, and cannot be shadowed
   (stated on the definitional semantics; C01 ties it to the compiled form). *)
From Ucg Require Import sem.Sem sem.Env_Lemmas sem.Scope_Lemmas base.Bytes.
From UcgGen Require Import Reserved.

Section C18.
  Variable fo : float_ops.

  (* env.NAME is the variable's value as a string; an unset variable is an error in strict mode and
     NULL otherwise -- the outcome depends on NAME and the environment only *)
  Theorem env_lookup : forall fuel (c : ctx fo) n,
    lookup fo (b "env") (sc fo c) = None ->
    eval fo (S (S fuel)) c (env_sel n) =
    match lookup_env n (envt fo c) with
    | Some v => Ok (VStr fo v)
    | None => if strict fo c then Err else Ok (VNull fo)
    end.
  Proof. exact (eval_env_sel fo). Qed.

  (* the failure of an unset variable carries nothing of the other variables: two environments
     that both lack NAME give the same outcome *)
  Theorem env_unset_no_leak : forall fuel (c1 c2 : ctx fo) n,
    lookup fo (b "env") (sc fo c1) = None -> lookup fo (b "env") (sc fo c2) = None ->
    strict fo c1 = strict fo c2 ->
    lookup_env n (envt fo c1) = None -> lookup_env n (envt fo c2) = None ->
    eval fo (S (S fuel)) c1 (env_sel n) = eval fo (S (S fuel)) c2 (env_sel n).
  Proof.
    intros fuel c1 c2 n H1 H2 Hs E1 E2. rewrite (eval_env_sel fo _ _ _ H1), (eval_env_sel fo _ _ _ H2), E1, E2, Hs.
    reflexivity.
  Qed.

  (* `env` cannot be bound by let (nor as a function parameter) *)
  Theorem env_not_bindable : forall fuel (c : ctx fo) e ss s',
    exec_list fo fuel c (SLet (b "env") e :: ss) <> Ok s'.
  Proof. intros fuel c e ss s'. apply (reserved_is_error_lemma fo). reflexivity. Qed.

  Theorem env_not_a_parameter : forall ps args clo,
    In (b "env") ps -> List.length ps = List.length args -> bind_params fo ps args clo = Err.
  Proof.
    induction ps as [|p ps IH]; intros args clo Hin Hl; [destruct Hin|].
    destruct args as [|a args]; [discriminate|]. cbn [bind_params].
    destruct Hin as [->|Hin]; [reflexivity|].
    destruct (is_reserved p); [reflexivity|]. apply IH; [exact Hin|cbn in Hl; congruence].
  Qed.
End C18.

(* a tuple field or selector named env still refers to that field *)
Example env_field_is_field :
  forall fo : float_ops,
    eval fo 5 {| sc := []; self_v := None; envt := [(b "X", b "secret")]; strict := true; eq_ordered := true |}
         (EBin DOT (ETuple [(b "env", EInt 7)]) (ESym (b "env"))) = Ok (VInt fo 7).
Proof. intros fo. reflexivity. Qed.

(* `env` is one of the words the real VM refuses to bind (gen/Reserved.v is regenerated from `fn reserved_words` of vm.rs) *)
Theorem env_is_reserved_in_the_sources : existsb (bytes_eqb (b "env")) gen_reserved = true.
Proof. vm_compute. reflexivity. Qed.
