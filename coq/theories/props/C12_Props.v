(* C12 -- XML output is well-formed and mirrors the document the program described.
   data/Xml.v models src/convert/xml.rs (document tuple -> writer events), the xml-rs EventWriter (events -> bytes, with its
   indentation and namespace stack) and an independent XML 1.0 reader.  The model's bytes and error messages are compared with
   the real converter on every generated document by props/c12.py. *)
From Ucg Require Import base.Bytes data.Val data.Xml data.Xml_Lemmas data.Xml_Examples.

(* the events the converter hands to the writer are those of the tree the document describes:
   name = last name field, attributes = non-NULL fields of attrs, children in order, NULL attrs/children/text omitted *)
Theorem converter_writes_described_tree : forall d evs, to_xml d = Some evs -> tree_of_events evs = tree_of_doc d.
Proof. exact doc_to_tree_strong. Qed.

(* the conversion is an error exactly for the documents the DSL cannot express (not a tuple, no root, a node that is neither
   tuple nor string, both name and text, a non-string where a string is needed, a character XML cannot contain) *)
Theorem error_iff_inexpressible : forall d, to_xml d = None <-> inexpressible d.
Proof. exact doc_error_iff. Qed.

(* everything written as character data or attribute value consists of characters an XML document may contain *)
Theorem written_characters_are_xml_chars : forall d evs, to_xml d = Some evs -> forallb ev_chars_ok evs = true.
Proof. exact to_xml_chars_ok. Qed.

(* every markup-significant character is escaped so that a reader gets the original string back *)
Theorem escapes_are_inverted : forall s, xml_char_ok s = true ->
  unescape_text (esc_pcdata s) = Some s /\ unescape_attr (esc_attr s) = Some s.
Proof. exact escapes_invert. Qed.

(* a well-formed tree (valid names, distinct attributes, acceptable namespace declaration, no CR in text, no TAB in
   attribute values) is written as a document that the independent reader reads back as exactly the tree written ... *)
Theorem wellformed_tree_reads_back : forall t,
  xml_tree_wf t = true -> xml_parse (xml_emit (events_of_tree t)) = Some (as_written t).
Proof. exact xml_text_roundtrip. Qed.

Theorem document_reads_back : forall d t,
  tree_of_doc d = Some t -> xml_tree_wf t = true -> to_xml d <> None ->
  exists out, xml_output d = Some out /\ xml_parse out = Some (as_written t).
Proof. exact xml_output_roundtrip. Qed.

(* a document that converts has exactly one root element (a text root is an error since fix 02a5024), so for documents the
   well-formedness condition no longer has to ask for it *)
Theorem converted_document_has_one_root_element : forall d t,
  to_xml d <> None -> tree_of_doc d = Some t -> exists name ns attrs kids, x_body t = [XElem name ns attrs kids].
Proof. exact to_xml_body_element. Qed.

Theorem document_reads_back_wf : forall d t,
  tree_of_doc d = Some t -> doc_tree_wf t = true -> to_xml d <> None ->
  exists out, xml_output d = Some out /\ xml_parse out = Some (as_written t).
Proof. exact xml_output_roundtrip_wf. Qed.

(* ... which differs from the described tree only by whitespace-only text nodes put in by the writer's indentation *)
Theorem indentation_adds_only_blank_text : forall n lvl nst,
  node_wf nst n = true -> strip_ws (written_node lvl nst n) = strip_ws n.
Proof. exact strip_written. Qed.

Theorem reads_back_modulo_indentation : forall t,
  xml_tree_wf t = true -> forallb nf (x_body t) = true ->
  exists p, xml_parse (xml_emit (events_of_tree t)) = Some p /\ strip_ws_doc p = strip_ws_doc t.
Proof. exact roundtrip_modulo_indent. Qed.

(* the side conditions are needed (each is a listed known finding, reproduced on the binary):
   CR in text is written raw and read back as LF; TAB in an attribute value is read back as a space;
   a namespace uri is written unescaped *)
Theorem cr_in_text_refuted :
  reread (doc (el "a" [kids [VStr [ "x"%char; cr; "y"%char ]]]))
  = Some (mkdoc dflt [XElem (b "a") [] [] [XText ["x"%char; nl; "y"%char]]]).
Proof. exact Xml_Examples.cr_in_text_refuted. Qed.

Theorem tab_in_attribute_refuted :
  reread (doc (el "a" [attrs [("k", VStr ["x"%char; tab; "y"%char])]; kids [S_ "t"]]))
  = Some (mkdoc dflt [XElem (b "a") [] [(b "k", b "x y")] [T "t"]]).
Proof. exact tab_in_attr_refuted. Qed.

Theorem ns_uri_unescaped_refuted :
  reread (doc (el "a" [(b "ns", S_ "u""&<")])) = None /\ reread (doc (el "a" [(b "ns", S_ "x&y")])) = None.
Proof. destruct Xml_Examples.ns_uri_unescaped_refuted as (_ & H1 & H2). split; assumption. Qed.
