(* C07 -- the static checker never rejects a program that evaluates successfully.
   Proved on a first-order fragment ([fragment_fo] / [fragment_prog], boolean functions in shape/Shape.v: literals, bound names,
   casts, ranges, format, tuple and list literals, comparisons, not, arithmetic with a primitive operand, selection by name and
   index, calls and copies through a tuple field, select with default, filter / map over strings, tuples and candidate sets,
   function literals bound by let).  Direct calls, reduce, map over lists and direct copies are decided by props/c07.py only;
   the remaining known classes are listed findings with witnesses in shape/Shape_Examples.v. *)
From Ucg Require Import base.Bytes sem.Ast sem.Sem shape.Shape shape.Shape_Lemmas shape.Shape_Examples.

Section C07.
  Variable fo : float_ops.

  (* one expression: if it evaluates, the checker derives a shape that is not an error, that the value inhabits,
     and leaves its table as it was *)
  Theorem derivation_sound_on_fragment : forall fuel c e v st,
      strict fo c = true -> st_ok st -> env_ok fo (sc fo c) st -> fragment_fo st e = true ->
      eval fo fuel c e = Ok v ->
      ~ is_type_err (derive st e) /\ inhabits fo v (derive st e) /\ snd (derive_st e st) = st.
  Proof. exact (derive_sound_fo fo). Qed.

  (* a program: when evaluation without the checker runs to completion, the checker accepts the program *)
  Theorem checker_accepts_what_evaluates : forall fuel p c st sc' cs,
      strict fo c = true -> st_ok st -> env_ok fo (sc fo c) st -> fragment_prog st p = true -> cstmts_of p = Some cs ->
      exec_list fo fuel c p = Ok sc' ->
      exists st', check_stmts cs st = Some st' /\ st_ok st' /\ env_ok fo sc' st'.
  Proof. exact (check_sound_prog fo). Qed.

  (* every literal value inhabits the shape derived for it *)
  Theorem literal_inhabits_its_shape : forall v, literal_value fo v = true -> inhabits fo v (shape_of_value fo v).
  Proof. exact (value_inhabits_own_shape fo). Qed.

  (* two primitive shapes of one value are the same shape and narrow to it *)
  Theorem primitive_shapes_compatible : forall v s1 s2 st,
      is_prim s1 = true -> is_prim s2 = true -> inhabits fo v s1 -> inhabits fo v s2 -> narrow_st st s1 s2 = (s1, st) /\ s1 = s2.
  Proof. exact (narrow_compat_prim fo). Qed.

  (* in general two shapes of one value need not narrow: the root of the listed finding C07-list-shapes *)
  Theorem shapes_of_one_value_may_not_narrow_refuted :
      exists v s1 s2, inhabits fo v s1 /\ inhabits fo v s2 /\ is_type_err (narrow [] s1 s2).
  Proof. exact (narrow_compat_refuted_list fo). Qed.
End C07.

(* the witnesses of the listed known classes are recognised by the computable classifier used by the check *)
Theorem list_concat_witness_classified : known_c07 k_list_concat = true.
Proof. exact k_list_concat_classified. Qed.
Theorem and_rhs_witness_classified : known_c07 k_and_rhs = true.
Proof. exact k_and_rhs_classified. Qed.
