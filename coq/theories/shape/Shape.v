(* M-SHAPE: shapes (static types) of ucg, their narrowing, shape derivation for expressions and
   `::` constraints, the let/constraint statement check, and the run-time side of constraints.
     src/ast/mod.rs               enum Shape, Shape::equivalent, Shape::narrow / narrow_cached,
                                  is_tuple_subset_cached, is_list_subset_cached
     src/ast/typecheck/mod.rs     DeriveShape for Value / Expression / FuncDef / SelectDef,
                                  derive_dot_expression, Checker::visit_statement
     src/build/ir.rs              ConstraintVal::check, Val::equal
     src/build/opcode/vm.rs       op_build_constraint, op_check_constraint
     src/build/opcode/translate.rs  Let: value, constraint, CheckConstraint, Bind
   Positions and error texts are dropped.  Executable definitions only; the case ORDER of every
   match of the source is kept.  Non-structural recursion is by fuel. *)
From Ucg Require Export sem.Sem.

(* ------------------------------------------------------------------------------------------ *)
(* Shapes                                                                                      *)
(* ------------------------------------------------------------------------------------------ *)

Inductive errk :=
| EType      (* Shape::TypeErr produced by the checker *)
| EFuel      (* the model ran out of fuel (never happens for the default fuel on ground shapes) *)
| EUnmod.    (* the expression is outside the modelled fragment (modules, imports) *)

(* NarrowedShape { types: Any }        -> SAny / SListAny
   NarrowedShape { types: Narrowed(l) } -> SNarrowed l / SList l *)
Inductive shape :=
| SBool | SInt | SFloat | SStr
| STuple (fs : list (bytes * shape))
| SListAny
| SList (ts : list shape)
| SFunc (order : list bytes) (args : list (bytes * shape)) (ret : shape)   (* args: BTreeMap, sorted by name *)
| SModule (items : list (bytes * shape)) (ret : shape)
| SHole (x : bytes)
| SAny
| SNarrowed (ts : list shape)
| SImportU (path : bytes)
| SImportR (fs : list (bytes * shape))
| SRef (x : bytes)
| SErr (k : errk).

Definition is_err (s : shape) : bool := match s with SErr _ => true | _ => false end.

Fixpoint bytes_list_eqb (a b : list bytes) : bool :=
  match a, b with
  | [], [] => true
  | x :: a', y :: b' => bytes_eqb x y && bytes_list_eqb a' b'
  | _, _ => false
  end.

Definition errk_eqb (a b : errk) : bool :=
  match a, b with EType, EType | EFuel, EFuel | EUnmod, EUnmod => true | _, _ => false end.

(* derived PartialEq (modulo positions): the key comparison of the `seen` memo *)
Fixpoint shape_eqb (a b : shape) : bool :=
  let fields :=
      fix go (x y : list (bytes * shape)) : bool :=
        match x, y with
        | [], [] => true
        | (k, s) :: x', (k', s') :: y' => bytes_eqb k k' && shape_eqb s s' && go x' y'
        | _, _ => false
        end in
  let shapes :=
      fix go (x y : list shape) : bool :=
        match x, y with
        | [], [] => true
        | s :: x', s' :: y' => shape_eqb s s' && go x' y'
        | _, _ => false
        end in
  match a, b with
  | SBool, SBool | SInt, SInt | SFloat, SFloat | SStr, SStr | SListAny, SListAny | SAny, SAny => true
  | STuple x, STuple y => fields x y
  | SList x, SList y => shapes x y
  | SFunc o1 a1 r1, SFunc o2 a2 r2 => bytes_list_eqb o1 o2 && fields a1 a2 && shape_eqb r1 r2
  | SModule i1 r1, SModule i2 r2 => fields i1 i2 && shape_eqb r1 r2
  | SHole x, SHole y => bytes_eqb x y
  | SNarrowed x, SNarrowed y => shapes x y
  | SImportU p, SImportU q => bytes_eqb p q
  | SImportR x, SImportR y => fields x y
  | SRef x, SRef y => bytes_eqb x y
  | SErr j, SErr k => errk_eqb j k
  | _, _ => false
  end.

(* Shape::equivalent (used by NarrowedShape::merge_in_shape, i.e. by select) *)
Fixpoint equivalent (a b : shape) : bool :=
  match a, b with
  | SStr, SStr | SBool, SBool | SInt, SInt | SFloat, SFloat => true
  | SHole _, SHole _ => true
  | SRef x, SRef y => bytes_eqb x y
  | SListAny, SListAny | SAny, SAny => true
  | SList l, SList r | SNarrowed l, SNarrowed r =>
    forallb (fun ls => existsb (fun rs => equivalent ls rs) r) l
  | SListAny, SList _ | SAny, SNarrowed _ => true
  | SList _, SListAny | SNarrowed _, SAny => true
  | STuple l, STuple r =>
    forallb (fun '(lt, ls) => existsb (fun '(rt, rs) => bytes_eqb lt rt && equivalent ls rs) r) l
  | SFunc _ la lr, SFunc _ ra rr =>
    Nat.eqb (List.length la) (List.length ra)
    && (fix go (x : list (bytes * shape)) (y : list (bytes * shape)) : bool :=
          match x, y with
          | (_, s) :: x', (_, s') :: y' => equivalent s s' && go x' y'
          | _, _ => true
          end) la ra
    && equivalent lr rr
  | SModule li lr, SModule ri rr =>
    forallb (fun '(lt, ls) => existsb (fun '(rt, rs) => bytes_eqb lt rt && equivalent ls rs) ri) li
    && equivalent lr rr
  | _, _ => false
  end.

(* ------------------------------------------------------------------------------------------ *)
(* Symbol table and the `seen` memo                                                            *)
(* ------------------------------------------------------------------------------------------ *)

(* BTreeMap<Rc<str>, Shape>: association list, first occurrence wins, insert = cons *)
Definition symtab := list (bytes * shape).

Fixpoint st_get (x : bytes) (st : symtab) : option shape :=
  match st with
  | [] => None
  | (y, s) :: st' => if bytes_eqb x y then Some s else st_get x st'
  end.
Definition st_has (x : bytes) (st : symtab) : bool := match st_get x st with Some _ => true | None => false end.
Definition st_set (x : bytes) (s : shape) (st : symtab) : symtab := (x, s) :: st.

(* Vec<(Rc<str>, Shape, Shape)>, searched front to back, grown at the back *)
Definition seen := list (bytes * shape * shape).

Fixpoint seen_find (x : bytes) (other : shape) (sn : seen) : option shape :=
  match sn with
  | [] => None
  | (n, sh, r) :: sn' => if bytes_eqb n x && shape_eqb sh other then Some r else seen_find x other sn'
  end.

Fixpoint seen_set (idx : nat) (r : shape) (sn : seen) : seen :=
  match sn with
  | [] => []
  | (n, sh, r0) :: sn' => match idx with O => (n, sh, r) :: sn' | S i => (n, sh, r0) :: seen_set i r sn' end
  end.

Record nst := mk_nst { n_st : symtab; n_seen : seen }.

Definition NF := shape -> shape -> nst -> shape * nst.

(* ------------------------------------------------------------------------------------------ *)
(* The loops of narrow_cached, parameterised by the recursive call                             *)
(* ------------------------------------------------------------------------------------------ *)
Section Loops.
  Variable nf : NF.

  (* types.iter().filter(|t| !is_err(t.narrow_cached(other)))  -- every candidate is visited *)
  Fixpoint any_compat_l (ts : list shape) (other : shape) (s : nst) (acc : bool) : bool * nst :=
    match ts with
    | [] => (acc, s)
    | t :: ts' => let '(r, s1) := nf t other s in any_compat_l ts' other s1 (acc || negb (is_err r))
    end.
  (* ... filter(|t| !is_err(other.narrow_cached(t))) *)
  Fixpoint any_compat_r (ts : list shape) (other : shape) (s : nst) (acc : bool) : bool * nst :=
    match ts with
    | [] => (acc, s)
    | t :: ts' => let '(r, s1) := nf other t s in any_compat_r ts' other s1 (acc || negb (is_err r))
    end.

  (* is_tuple_subset_cached: the inner `for` has no break, every same-named right field is narrowed *)
  Fixpoint tuple_field_match (lt : bytes) (ls : shape) (rs : list (bytes * shape)) (s : nst) (m : bool)
    : bool * nst :=
    match rs with
    | [] => (m, s)
    | (rt, rsh) :: rs' =>
      if bytes_eqb rt lt
      then let '(r, s1) := nf ls rsh s in tuple_field_match lt ls rs' s1 (m || negb (is_err r))
      else tuple_field_match lt ls rs' s m
    end.
  Fixpoint tuple_subset (lfs rfs : list (bytes * shape)) (s : nst) : bool * nst :=
    match lfs with
    | [] => (true, s)
    | (lt, ls) :: lfs' =>
      let '(m, s1) := tuple_field_match lt ls rfs s false in
      if m then tuple_subset lfs' rfs s1 else (false, s1)
    end.

  (* is_list_subset_cached(iter over xs, ys) *)
  Fixpoint list_elem_match (x : shape) (ys : list shape) (s : nst) (m : bool) : bool * nst :=
    match ys with
    | [] => (m, s)
    | y :: ys' => let '(r, s1) := nf x y s in list_elem_match x ys' s1 (m || negb (is_err r))
    end.
  Fixpoint list_subset (xs ys : list shape) (s : nst) : bool * nst :=
    match xs with
    | [] => (true, s)
    | x :: xs' =>
      let '(m, s1) := list_elem_match x ys s false in
      if m then list_subset xs' ys s1 else (false, s1)
    end.

  (* Func/Func: zip of the two declaration orders *)
  Fixpoint func_args (lo ro : list bytes) (la ra : list (bytes * shape)) (s : nst) : bool * nst :=
    match lo, ro with
    | ln :: lo', rn :: ro' =>
      match st_get ln la, st_get rn ra with
      | Some ls, Some rs =>
        let '(r, s1) := nf ls rs s in
        if is_err r then (false, s1) else func_args lo' ro' la ra s1
      | _, _ => func_args lo' ro' la ra s
      end
    | _, _ => (true, s)
    end.

  (* Module/Module: first same-named right item only (break) *)
  Fixpoint module_item (lt : bytes) (ls : shape) (ri : list (bytes * shape)) (s : nst) : bool * nst :=
    match ri with
    | [] => (false, s)
    | (rt, rs) :: ri' =>
      if bytes_eqb lt rt then let '(r, s1) := nf ls rs s in (negb (is_err r), s1)
      else module_item lt ls ri' s
    end.
  Fixpoint module_items (li ri : list (bytes * shape)) (s : nst) : bool * nst :=
    match li with
    | [] => (true, s)
    | (lt, ls) :: li' =>
      let '(ok, s1) := module_item lt ls ri s in
      if ok then module_items li' ri s1 else (false, s1)
    end.
End Loops.

Definition ref_name (s : shape) : option bytes := match s with SRef x => Some x | _ => None end.
Definition hole_name (s : shape) : option bytes := match s with SHole x => Some x | _ => None end.
Definition is_any (s : shape) : bool := match s with SAny => true | _ => false end.
Definition is_empty_narrowed (s : shape) : bool := match s with SNarrowed [] => true | _ => false end.
Definition cands (s : shape) : option (list shape) := match s with SNarrowed ts => Some ts | _ => None end.
Definition prim_same (l r : shape) : bool :=
  match l, r with
  | SStr, SStr | SBool, SBool | SInt, SInt | SFloat, SFloat => true
  | _, _ => false
  end.
Definition is_ref_named (x : bytes) (s : shape) : bool :=
  match s with SRef y => bytes_eqb y x | _ => false end.

(* Shape::narrow_cached *)
Fixpoint narrow_f (fuel : nat) (l r : shape) (s : nst) {struct fuel} : shape * nst :=
  match fuel with
  | O => (SErr EFuel, s)
  | S f =>
    let nf := narrow_f f in
    (* ConstraintRef expansion with the memo (the pair is recorded before expanding) *)
    let expand (x : bytes) (other : shape) : shape * nst :=
        match seen_find x other (n_seen s) with
        | Some c => (c, s)
        | None =>
          match st_get x (n_st s) with
          | Some ex =>
            if is_ref_named x ex then (other, s)
            else
              let idx := List.length (n_seen s) in
              let s1 := mk_nst (n_st s) (n_seen s ++ [(x, other, SErr EType)]) in
              let '(res, s2) := nf other ex s1 in
              (res, mk_nst (n_st s2) (seen_set idx res (n_seen s2)))
          | None => (SErr EType, s)
          end
        end in
    let hole (x : bytes) (other : shape) : shape * nst :=
        (other, if st_has x (n_st s) then mk_nst (st_set x other (n_st s)) (n_seen s) else s) in
    if is_err l then (l, s)
    else if is_err r then (r, s)
    else
      match ref_name l, ref_name r with
      | Some x, Some y => if bytes_eqb x y then (l, s) else expand x r
      | Some x, None => expand x r
      | None, Some y => expand y l
      | None, None =>
        if prim_same l r then (l, s)
        else
          match hole_name l, hole_name r with
          | Some x, _ => hole x r
          | None, Some y => hole y l
          | None, None =>
            if is_any l then (r, s)
            else if is_any r then (l, s)
            else if is_empty_narrowed l then (r, s)
            else if is_empty_narrowed r then (l, s)
            else
              match cands l, cands r with
              | Some ts, _ =>
                let '(ok, s1) := any_compat_l nf ts r s false in ((if ok then r else SErr EType), s1)
              | None, Some ts =>
                let '(ok, s1) := any_compat_r nf ts l s false in ((if ok then l else SErr EType), s1)
              | None, None =>
                match l, r with
                | SList lt, SList rt =>
                  let '(a, s1) := list_subset nf lt rt s in
                  if a then (l, s1)
                  else let '(b, s2) := list_subset nf rt lt s1 in
                       if b then (r, s2) else (SErr EType, s2)
                | SList _, SListAny | SListAny, SListAny => (l, s)
                | SListAny, SList _ => (r, s)
                | STuple lf, STuple rf =>
                  let '(a, s1) := tuple_subset nf lf rf s in
                  if a then (l, s1)
                  else let '(b, s2) := tuple_subset nf rf lf s1 in
                       if b then (r, s2) else (SErr EType, s2)
                | SFunc lo la lr, SFunc ro ra rr =>
                  if negb (Nat.eqb (List.length la) (List.length ra)) then (SErr EType, s)
                  else
                    let '(ok, s1) := func_args nf lo ro la ra s in
                    if negb ok then (SErr EType, s1)
                    else let '(rn, s2) := nf lr rr s1 in
                         if is_err rn then (SErr EType, s2) else (l, s2)
                | SModule li lr, SModule ri rr =>
                  let '(ok, s1) := module_items nf li ri s in
                  if negb ok then (SErr EType, s1)
                  else let '(rn, s2) := nf lr rr s1 in
                       if is_err rn then (SErr EType, s2) else (l, s2)
                | _, _ => (SErr EType, s)
                end
              end
          end
      end
  end.

(* size measures for the default fuel *)
Fixpoint shape_size (a : shape) : nat :=
  match a with
  | STuple fs | SImportR fs => S (fold_right (fun '(_, s) n => shape_size s + n) 0 fs)
  | SList ts | SNarrowed ts => S (fold_right (fun s n => shape_size s + n) 0 ts)
  | SFunc _ args ret => S (shape_size ret + fold_right (fun '(_, s) n => shape_size s + n) 0 args)
  | SModule items ret => S (shape_size ret + fold_right (fun '(_, s) n => shape_size s + n) 0 items)
  | _ => 1
  end.
Definition symtab_size (st : symtab) : nat := fold_right (fun '(_, s) n => shape_size s + n) 0 st.

(* Shape::narrow: fresh memo; returns the shape and the (possibly hole-updated) symbol table.
   The fuel bounds the depth of the recursion: each level either descends into a sub-shape of one
   side or expands a constraint reference (at most once per (name, shape) pair that is in progress). *)
Definition narrow_fuel (st : symtab) (l r : shape) : nat :=
  (shape_size l + shape_size r + 2) * (2 + List.length st) + symtab_size st + 8.
Definition narrow_st (st : symtab) (l r : shape) : shape * symtab :=
  let '(res, s) := narrow_f (narrow_fuel st l r) l r (mk_nst st []) in (res, n_st s).
Definition narrow (st : symtab) (l r : shape) : shape := fst (narrow_st st l r).

(* ------------------------------------------------------------------------------------------ *)
(* Shape derivation for expressions (impl DeriveShape for Expression / Value)                 *)
(* ------------------------------------------------------------------------------------------ *)

(* BTreeMap insertion for Func args (sorted by name, later insert replaces) *)
Fixpoint args_insert (k : bytes) (v : shape) (l : list (bytes * shape)) : list (bytes * shape) :=
  match l with
  | [] => [(k, v)]
  | (k', w) :: l' => if bytes_ltb k k' then (k, v) :: l
                     else if bytes_eqb k k' then (k, v) :: l'
                     else (k', w) :: args_insert k v l'
  end.

(* NarrowedShape::merge_in_shape on a Narrowed(types) *)
Definition merge_in_shape (types : list shape) (s : shape) : list shape :=
  if existsb (fun t => equivalent t s) types then types else types ++ [s].

(* derive_not_shape: a candidate (possibly itself a set of candidates) that may be a boolean *)
Fixpoint may_be_boolean (s : shape) : bool :=
  match s with
  | SBool | SHole _ | SAny => true
  | SNarrowed l => existsb may_be_boolean l
  | _ => false
  end.

Definition is_cmp_op (o : op) : bool :=
  match o with
  | Equal | NotEqual | GT | LT | GTEqual | LTEqual | REMatch | NotREMatch | IN | IS => true
  | _ => false
  end.

(* resolve_tuple_field *)
Definition resolve_tuple_field (fs : list (bytes * shape)) (accessor : expr) : shape :=
  match accessor with
  | ESym k | EStr k => match st_get k (rev fs) with Some s => s | None => SErr EType end
  | _ => SAny
  end.

(* Shape::Narrowed(lshape.clone()) for a list shape *)
Definition elem_shape (l : shape) : shape :=
  match l with SList ts => SNarrowed ts | _ => SAny end.

Definition one_or_narrowed (results : list shape) : shape :=
  match results with
  | [] => SErr EType
  | [x] => x
  | _ => SNarrowed results
  end.

(* deriving a list of expressions / of fields left to right, threading the symbol table *)
Section DeriveLoops.
  Variable dv : expr -> symtab -> shape * symtab.
  Fixpoint derive_list (es : list expr) (st : symtab) : list shape * symtab :=
    match es with
    | [] => ([], st)
    | e1 :: es' => let '(s1, st1) := dv e1 st in let '(r, st2) := derive_list es' st1 in (s1 :: r, st2)
    end.
  Fixpoint derive_fields (fs : list (bytes * expr)) (st : symtab) : list (bytes * shape) * symtab :=
    match fs with
    | [] => ([], st)
    | (k, e1) :: fs' =>
      let '(s1, st1) := dv e1 st in let '(r, st2) := derive_fields fs' st1 in ((k, s1) :: r, st2)
    end.
  (* SelectDef::derive_shape: the field values, then the default, merged with merge_in_shape *)
  Variable merge : list shape -> shape -> list shape.
  Fixpoint derive_select (dflt : option expr) (arms : list (bytes * expr)) (types : list shape) (st : symtab)
    : shape * symtab :=
    match arms with
    | [] =>
      match dflt with
      | Some d => let '(s1, st1) := dv d st in (SNarrowed (merge types s1), st1)
      | None => (SNarrowed types, st)
      end
    | (_, ae) :: arms' => let '(s1, st1) := dv ae st in derive_select dflt arms' (merge types s1) st1
    end.
End DeriveLoops.

Fixpoint derive_f (fuel : nat) (e : expr) (st : symtab) {struct fuel} : shape * symtab :=
  match fuel with
  | O => (SErr EFuel, st)
  | S f =>
    let dv := derive_f f in
    let dlist := derive_list dv in
    let dfields := derive_fields dv in
    match e with
    | ENull => (SAny, st)
    | EBool _ => (SBool, st)
    | EInt _ => (SInt, st)
    | EFloat _ => (SFloat, st)
    | EStr _ => (SStr, st)
    | ESym x => (match st_get x st with Some s => s | None => SHole x end, st)
    | ETuple fs => let '(r, st1) := dfields fs st in (STuple r, st1)
    | EList es => let '(r, st1) := dlist es st in (SList r, st1)
    | EFormatL _ _ | EFormatS _ _ => (SStr, st)
    | ENot e1 =>
      let '(s1, st1) := dv e1 st in
      (match s1 with
       | SBool | SHole _ | SAny => SBool
       | SNarrowed ts => if existsb may_be_boolean ts then SBool else SErr EType
       | _ => SErr EType
       end, st1)
    | EGroup e1 => dv e1 st
    | ERange _ _ _ => (SList [SInt], st)
    | ECast CInt _ => (SInt, st)
    | ECast CStr _ => (SStr, st)
    | ECast CFloat _ => (SFloat, st)
    | ECast CBool _ => (SBool, st)
    | EImport p => (SImportU p, st)
    | EBin DOT l r =>
      let '(ls, st1) := dv l st in
      let '(sh, st2) := dot_f f ls r st1 in
      (sh, match l with
           | ESym x =>
             if is_err sh then st2
             else match ls with
                  | SHole _ =>
                    (* `env` is the process environment: no shape is recorded for it (fix a44015f) *)
                    if bytes_eqb x (b "env") then st2 else
                    (* infer_container_shape_from_dot *)
                    let inferred := match r with
                                    | ESym k | EStr k => STuple [(k, SAny)]
                                    | EInt _ => SListAny
                                    | _ => ls
                                    end in
                    st_set x inferred st2
                  | _ => st2
                  end
           | _ => st2
           end)
    | EBin o l r =>
      let '(ls, st1) := dv l st in
      let '(rs, st2) := dv r st1 in
      if is_cmp_op o then (SBool, st2)
      else match o with
           | AND | OR =>
             let '(n, st3) := narrow_st st2 ls rs in
             ((if is_err n then n else SBool), st3)
           | _ => narrow_st st2 ls rs
           end
    | ECopy t fs =>
      let '(base, st1) := dv t st in
      match base with
      | SErr _ => (base, st1)
      | SBool | SInt | SFloat | SStr | SList _ | SListAny | SFunc _ _ _ | SRef _ => (SErr EType, st1)
      | SHole x => (SNarrowed [STuple []; SModule [] (SNarrowed []); SImportU x], st1)
      | SAny => (SNarrowed [STuple []; SModule [] SAny], st1)
      | SNarrowed potentials =>
        let filtered := filter (fun v => match v with
                                         | STuple _ | SModule _ _ | SImportU _ | SImportR _ | SHole _ => true
                                         | _ => false end) potentials in
        (match filtered with [] => SErr EType | _ => SNarrowed filtered end, st1)
      | SModule items ret =>
        let '(arg_fields, st2) := dfields fs st1 in
        (* BTreeMap collect: the last field of a name wins *)
        let get k := st_get k (rev arg_fields) in
        (fix go (items : list (bytes * shape)) (st : symtab) : shape * symtab :=
           match items with
           | [] => (ret, st)
           | (sym, shp) :: items' =>
             match get sym with
             | Some s => let '(n, st') := narrow_st st shp s in
                         if is_err n then (n, st') else go items' st'
             | None => go items' st
             end
           end) items st2
      | STuple base_fields =>
        let '(r, st2) := dfields fs st1 in (STuple (base_fields ++ r), st2)
      | SImportU _ => (SNarrowed [STuple []], st1)
      | SImportR base_fields =>
        let '(r, st2) := dfields fs st1 in (STuple (base_fields ++ r), st2)
      end
    | EInclude _ _ => (SNarrowed [STuple []; SList []], st)
    | ECall fe args =>
      let '(fsh, st1) := dv fe st in
      match fsh with
      | SFunc order fargs ret =>
        if negb (Nat.eqb (List.length fargs) (List.length args)) then (SErr EType, st1)
        else
          (fix go (order : list bytes) (args : list expr) (st : symtab) : shape * symtab :=
             match order, args with
             | an :: order', ae :: args' =>
               let '(actual, st') := dv ae st in
               match st_get an fargs with
               | Some declared =>
                 (* narrowed on a copy of the table (7412af6): the caller's bindings are not touched *)
                 let '(n, _) := narrow_st st' declared actual in
                 if is_err n then (n, st') else go order' args' st'
               | None => go order' args' st'
               end
             | _, _ => (ret, st)
             end) order args st1
      | SHole _ | SAny => let '(_, st2) := dlist args st1 in (SAny, st2)
      | SNarrowed types =>
        let funcs := filter (fun t => match t with SFunc _ _ _ => true | _ => false end) types in
        match funcs with
        | [] => (SErr EType, st1)
        | _ =>
          let '(arg_shapes, st2) := dlist args st1 in
          let rets := fold_right (fun t acc => match t with
                                               | SFunc _ fa fr =>
                                                 if Nat.eqb (List.length fa) (List.length arg_shapes)
                                                 then fr :: acc else acc
                                               | _ => acc end) [] funcs in
          (one_or_narrowed rets, st2)
        end
      | _ => (SErr EType, st1)
      end
    | EFunc ps body =>
      (* the outer table is cloned and each parameter inserted: parameters shadow outer names *)
      let inner := fold_left (fun acc p => st_set p (SHole p) acc) ps st in
      let '(bs, inner') := dv body inner in
      let table := fold_left (fun acc p => match st_get p inner' with
                                           | Some s => args_insert p s acc
                                           | None => acc end) ps [] in
      (SFunc ps table bs, st)
    | ESelect _ dflt arms => derive_select dv merge_in_shape dflt arms [] st
    | EMap fe te =>
      let '(ts, st1) := dv te st in
      let '(fs, st2) := dv fe st1 in
      (match ts with
       | SList _ | SListAny =>
         match fs with SFunc _ _ ret => SList [ret] | _ => SListAny end
       | STuple _ | SStr | SHole _ | SAny | SNarrowed _ => SAny
       | _ => SErr EType
       end, st2)
    | EFilter fe te =>
      let '(ts, st1) := dv te st in
      let '(_, st2) := dv fe st1 in
      (match ts with
       | SList _ | SListAny => ts
       | SHole _ | SAny => SAny
       | SStr => ts
       | STuple _ | SNarrowed _ => SAny
       | _ => SErr EType
       end, st2)
    | EReduce fe ae te =>
      let '(ts, st1) := dv te st in
      let '(acc, st2) := dv ae st1 in
      let '(fs, st3) := dv fe st2 in
      match ts with
      | SList _ | SListAny | SHole _ | SAny | SNarrowed _ | STuple _ | SStr =>
        match fs with
        | SFunc _ _ ret => let '(n, st4) := narrow_st st3 acc ret in ((if is_err n then acc else n), st4)
        | _ => (acc, st3)
        end
      | _ => (SErr EType, st3)
      end
    | EModule _ _ _ => (SErr EUnmod, st)
    | EFail e1 =>
      let '(ms, st1) := dv e1 st in
      (match ms with SStr | SHole _ | SAny => SAny | _ => SErr EType end, st1)
    | ETrace e1 => dv e1 st
    | EConvert _ _ => (SStr, st)
    end
  end
(* derive_dot_expression(pos, left_shape, right_expr) *)
with dot_f (fuel : nat) (ls : shape) (r : expr) (st : symtab) {struct fuel} : shape * symtab :=
  match fuel with
  | O => (SErr EFuel, st)
  | S f =>
    let is_tuple := match ls with STuple _ => true | _ => false end in
    let is_list := match ls with SList _ | SListAny => true | _ => false end in
    let is_narrowed := match ls with SAny | SNarrowed _ => true | _ => false end in
    let is_hole := match ls with SHole _ => true | _ => false end in
    let fallthrough (_ : unit) : shape * symtab :=
        match r with
        | EGroup e1 => dot_f f ls e1 st
        | _ => match ls with
               | SImportR fs => dot_f f (STuple fs) r st
               | SImportU _ => (SAny, st)
               | SErr _ => (ls, st)
               | STuple _ | SHole _ | SAny | SNarrowed _ =>
                 match r with
                 | ECall _ _ | ECopy _ _ => (SAny, st)
                 | _ => (SErr EType, st)
                 end
               | _ => (SErr EType, st)
               end
        end in
    match r with
    | EBin DOT l2 r2 =>
      match ls with
      | STuple fs =>
        let '(_, st1) := derive_f f l2 st in
        let resolved := resolve_tuple_field fs l2 in
        if is_err resolved then (resolved, st1) else dot_f f resolved r2 st1
      | SList _ | SListAny =>
        let '(acc, st1) := derive_f f l2 st in
        match acc with
        | SInt | SHole _ => dot_f f (elem_shape ls) r2 st1
        | _ => (SErr EType, st1)
        end
      | SAny => (SAny, st)
      | SNarrowed types =>
        let '(results, st1) :=
            (fix go (types : list shape) (st : symtab) : list shape * symtab :=
               match types with
               | [] => ([], st)
               | t :: types' =>
                 let '(ir, st1) := dot_f f t r st in
                 let '(rest, st2) := go types' st1 in
                 ((if is_err ir then rest else ir :: rest), st2)
               end) types st in
        (one_or_narrowed results, st1)
      | SHole _ =>
        let '(acc, st1) := derive_f f l2 st in
        match acc with
        | SHole _ | SStr | SInt => dot_f f SAny r2 st1
        | _ => (SAny, st1)
        end
      | _ => fallthrough tt
      end
    | EStr k | ESym k =>
      match ls with
      | STuple fs => (match st_get k (rev fs) with Some s => s | None => SErr EType end, st)
      | SList _ | SListAny => (SErr EType, st)
      | SHole _ => (SAny, st)
      | SAny | SNarrowed [] => (SAny, st)
      | SNarrowed types =>
        let results := flat_map (fun t => match t with
                                          | STuple fs =>
                                            flat_map (fun '(n, s) => if bytes_eqb n k then [s] else []) fs
                                          | SHole _ | SAny | SNarrowed _ => [SAny]
                                          | _ => [] end) types in
        (one_or_narrowed results, st)
      | _ => fallthrough tt
      end
    | EInt _ =>
      match ls with
      | STuple _ => (SErr EType, st)
      | SList _ | SListAny => (elem_shape ls, st)
      | SHole _ => (SAny, st)
      | SAny | SNarrowed [] => (SAny, st)
      | SNarrowed types =>
        let results := flat_map (fun t => match t with
                                          | SList _ | SListAny => [elem_shape t]
                                          | SHole _ | SAny | SNarrowed _ => [SAny]
                                          | _ => [] end) types in
        (one_or_narrowed results, st)
      | _ => fallthrough tt
      end
    | _ => fallthrough tt
    end
  end.

(* expression nesting depth: the fuel derive needs *)
Section DepthLoops.
  Variable d : expr -> nat.
  Fixpoint depth_list (es : list expr) : nat :=
    match es with [] => 0 | e1 :: es' => Nat.max (d e1) (depth_list es') end.
  Fixpoint depth_fields (fs : list (bytes * expr)) : nat :=
    match fs with [] => 0 | (_, e1) :: fs' => Nat.max (d e1) (depth_fields fs') end.
End DepthLoops.
Fixpoint expr_depth (e : expr) : nat :=
  let dl := depth_list (fun e1 => expr_depth e1) in
  let df := depth_fields (fun e1 => expr_depth e1) in
  let dopt := fun o : option expr => match o with Some e1 => expr_depth e1 | None => 0 end in
  S (match e with
     | ETuple fs => df fs
     | EList es => dl es
     | EBin _ l r => Nat.max (expr_depth l) (expr_depth r)
     | ENot e1 | EGroup e1 | ECast _ e1 | EFail e1 | ETrace e1 | EConvert _ e1 => expr_depth e1
     | ECopy t fs => Nat.max (expr_depth t) (df fs)
     | ERange a s z => Nat.max (expr_depth a) (Nat.max (dopt s) (expr_depth z))
     | EFormatL _ args => dl args
     | EFormatS _ a => expr_depth a
     | ECall fe args => Nat.max (expr_depth fe) (dl args)
     | EFunc _ body => expr_depth body
     | ESelect v d arms => Nat.max (expr_depth v) (Nat.max (dopt d) (df arms))
     | EMap a c | EFilter a c => Nat.max (expr_depth a) (expr_depth c)
     | EReduce a c d => Nat.max (expr_depth a) (Nat.max (expr_depth c) (expr_depth d))
     | _ => 0
     end).

(* two levels of fuel per nesting level (derive + dot) *)
Definition derive_st (e : expr) (st : symtab) : shape * symtab := derive_f (2 * expr_depth e + 2) e st.
Definition derive (st : symtab) (e : expr) : shape := fst (derive_st e st).

(* ------------------------------------------------------------------------------------------ *)
(* `::` constraint expressions (parse::constraint_expression, Expression::Constraint)          *)
(* ------------------------------------------------------------------------------------------ *)

Inductive carm :=
| ARange (lo hi : option expr)     (* in lo..hi, at least one bound (parser) *)
| AShape (e : expr).
(* a single shape arm is unwrapped by the parser into the plain expression *)
Inductive cexpr :=
| CPlain (e : expr)
| CArms (arms : list carm).

Fixpoint derive_arms (arms : list carm) (acc : list shape) (st : symtab) : (shape + list shape) * symtab :=
  match arms with
  | [] => (inr acc, st)
  | ARange lo hi :: arms' =>
    match (match lo with Some e => Some e | None => hi end) with
    | None => (inl (SErr EType), st)
    | Some e =>
      let '(bs, st1) := derive_st e st in
      match bs with
      | SInt | SFloat => derive_arms arms' (acc ++ [bs]) st1
      | _ => (inl (SErr EType), st1)
      end
    end
  | AShape e :: arms' => let '(s1, st1) := derive_st e st in derive_arms arms' (acc ++ [s1]) st1
  end.

Definition derive_cexpr (c : cexpr) (st : symtab) : shape * symtab :=
  match c with
  | CPlain e => derive_st e st
  | CArms arms =>
    let '(r, st1) := derive_arms arms [] st in
    (match r with
     | inl err => err
     | inr [x] => x
     | inr shapes => SNarrowed shapes
     end, st1)
  end.
Definition shape_of_constraint (st : symtab) (c : cexpr) : shape := fst (derive_cexpr c st).

(* ------------------------------------------------------------------------------------------ *)
(* Statements (Checker::visit_statement)                                                       *)
(* ------------------------------------------------------------------------------------------ *)

Inductive cstmt :=
| CLet (x : bytes) (c : option cexpr) (e : expr)
| CConstraint (n : bytes) (c : cexpr)
| CExpr (e : expr).

Fixpoint shape_contains_ref (name : bytes) (s : shape) : bool :=
  match s with
  | SRef x => bytes_eqb x name
  | STuple fs => existsb (fun '(_, t) => shape_contains_ref name t) fs
  | SList ts | SNarrowed ts => existsb (shape_contains_ref name) ts
  | _ => false
  end.

(* check_constraint_ref: true = an unguarded self reference was found *)
Fixpoint bad_constraint_ref (name : bytes) (s : shape) (guarded : bool) : bool :=
  match s with
  | SRef x => if bytes_eqb x name then negb guarded else false
  | STuple fs => existsb (fun '(_, t) => bad_constraint_ref name t guarded) fs
  | SList ts => existsb (fun t => bad_constraint_ref name t true) ts
  | SNarrowed ts =>
    let has_base := existsb (fun t => negb (shape_contains_ref name t)) ts in
    existsb (fun t => bad_constraint_ref name t (guarded || has_base)) ts
  | _ => false
  end.

(* None = a type error was recorded (the build stops before code generation) *)
Definition check_stmt (s : cstmt) (st : symtab) : option symtab :=
  match s with
  | CLet x c e =>
    let '(sh, st1) := derive_st e st in
    match sh with
    | SImportU _ => None                         (* import resolution is not modelled *)
    | _ =>
      match c with
      | Some ce =>
        let '(csh, st2) := derive_cexpr ce st1 in
        let '(n, st3) := narrow_st st2 sh csh in
        if is_err n then None else Some (st_set x n st3)
      | None => if is_err sh then None else Some (st_set x sh st1)
      end
    end
  | CConstraint name ce =>
    let st0 := st_set name (SRef name) st in
    let '(sh, st1) := derive_cexpr ce st0 in
    if is_err sh then None
    else if bad_constraint_ref name sh false then None
    else Some (st_set name sh st1)
  | CExpr e => let '(sh, st1) := derive_st e st in if is_err sh then None else Some st1
  end.

Fixpoint check_stmts (ss : list cstmt) (st : symtab) : option symtab :=
  match ss with
  | [] => Some st
  | s :: ss' => match check_stmt s st with Some st1 => check_stmts ss' st1 | None => None end
  end.

(* ------------------------------------------------------------------------------------------ *)
(* Run-time side: ir::Val with constraints, ConstraintVal::check, op_build/check_constraint    *)
(* ------------------------------------------------------------------------------------------ *)
Arguments VNull {fo}. Arguments VBool {fo}. Arguments VInt {fo}. Arguments VFloat {fo}.
Arguments VStr {fo}. Arguments VList {fo}. Arguments VTuple {fo}. Arguments VFunc {fo}. Arguments VModule {fo}.

Section Run.
  Variable fo : float_ops.
  Notation FT := (F fo).
  Notation value := (value fo).

  Inductive rval :=
  | RNull | RBool (v : bool) | RInt (z : Z) | RFloat (x : FT) | RStr (s : bytes)
  | RList (l : list rval)
  | RTuple (fs : list (bytes * rval))
  | RCon (arms : list rarm)
  | ROpaque                          (* a function or a module *)
  with rarm :=
  | RRangeI (lo hi : option Z)
  | RRangeF (lo hi : option FT)
  | RExact (v : rval).

  Definition opt_eqb {A} (eq : A -> A -> bool) (a b : option A) : bool :=
    match a, b with Some x, Some y => eq x y | None, None => true | _, _ => false end.

  (* element-wise loops of Val::equal, parameterised by the recursive call *)
  Section EqLoops.
    Variable eq : rval -> rval -> option bool.
    Fixpoint rv_list_eq (x y : list rval) : option bool :=
      match x, y with
      | v :: x', w :: y' => match eq v w with
                            | Some true => rv_list_eq x' y'
                            | Some false => Some false
                            | None => None end
      | _, _ => Some true
      end.
    Fixpoint rv_fields_eq (x y : list (bytes * rval)) : option bool :=
      match x, y with
      | (k, v) :: x', (k', w) :: y' =>
        if negb (bytes_eqb k k') then Some false
        else match eq v w with
             | Some true => rv_fields_eq x' y'
             | Some false => Some false
             | None => None end
      | _, _ => Some true
      end.
  End EqLoops.

  (* Val::equal; None = Err (type mismatch).  Constraint/Constraint is derived PartialEq. *)
  Fixpoint rv_equal (a b : rval) : option bool :=
    match a, b with
    | RNull, RNull => Some true
    | RInt x, RInt y => Some (Z.eqb x y)
    | RFloat x, RFloat y => Some (feqb fo x y)
    | RBool x, RBool y => Some (Bool.eqb x y)
    | RStr x, RStr y => Some (bytes_eqb x y)
    | RList x, RList y =>
      if negb (Nat.eqb (List.length x) (List.length y)) then Some false
      else rv_list_eq (fun v w => rv_equal v w) x y
    | RTuple x, RTuple y =>
      if negb (Nat.eqb (List.length x) (List.length y)) then Some false
      else rv_fields_eq (fun v w => rv_equal v w) x y
    | RCon x, RCon y =>
      Some ((fix go (x y : list rarm) : bool :=
               match x, y with
               | [], [] => true
               | RRangeI a c :: x', RRangeI a' c' :: y' => opt_eqb Z.eqb a a' && opt_eqb Z.eqb c c' && go x' y'
               | RRangeF a c :: x', RRangeF a' c' :: y' =>
                 opt_eqb (feqb fo) a a' && opt_eqb (feqb fo) c c' && go x' y'
               | RExact v :: x', RExact w :: y' =>
                 (* derived PartialEq on Val: structural; approximated by [rv_equal] = Some true *)
                 match rv_equal v w with Some true => go x' y' | _ => false end
               | _, _ => false
               end) x y)
    | RNull, _ => Some false
    | _, RNull => Some false
    | _, _ => None
    end.

  Fixpoint contains_empty_constraint (v : rval) : bool :=
    match v with
    | RCon arms => match arms with [] => true | _ => false end
    | RList l => existsb contains_empty_constraint l
    | RTuple fs => existsb (fun '(_, x) => contains_empty_constraint x) fs
    | _ => false
    end.
  Definition contains_self_ref (arms : list rarm) : bool :=
    existsb (fun a => match a with RExact v => contains_empty_constraint v | _ => false end) arms.

  Definition le_opt_lo {A} (le : A -> A -> bool) (lo : option A) (v : A) : bool :=
    match lo with None => true | Some l => le l v end.
  Definition le_opt_hi {A} (le : A -> A -> bool) (v : A) (hi : option A) : bool :=
    match hi with None => true | Some h => le v h end.

  (* ConstraintVal::check *)
  Definition cv_check (arms : list rarm) (v : rval) : bool :=
    match arms with
    | [] => true
    | _ =>
      existsb (fun a =>
                 match a with
                 | RRangeI lo hi => match v with
                                    | RInt z => le_opt_lo Z.leb lo z && le_opt_hi Z.leb z hi
                                    | _ => false end
                 | RRangeF lo hi => match v with
                                    | RFloat x => le_opt_lo (fleb fo) lo x && le_opt_hi (fleb fo) x hi
                                    | _ => false end
                 | RExact expected => match rv_equal v expected with Some true => true | _ => false end
                 end) arms
    end.

  (* run-time environment: let-bound values and constraint values *)
  Definition renv := list (bytes * rval).
  Fixpoint re_get (x : bytes) (re : renv) : option rval :=
    match re with [] => None | (y, v) :: re' => if bytes_eqb x y then Some v else re_get x re' end.

  (* VM::conforms_to_exemplar (761a6c7): NULL fits anything; the same primitive kind; tuples agreeing on the
     fields they share (LAST binding of a name) with one field set contained in the other; lists where every
     element of one side has the shape of some element of the other; functions, modules and constraint
     values against a composite are left to the static check *)
  Definition is_some {A} (o : option A) : bool := match o with Some _ => true | None => false end.
  Fixpoint rv_conforms (ex v : rval) : bool :=
    match ex, v with
    | RNull, _ | _, RNull => true
    | RBool _, RBool _ | RInt _, RInt _ | RFloat _, RFloat _ | RStr _, RStr _ => true
    | RBool _, _ | RInt _, _ | RFloat _, _ | RStr _, _ => false
    | _, RBool _ | _, RInt _ | _, RFloat _ | _, RStr _ => false
    | RTuple fe, RTuple fv =>
      (forallb (fun '(k, _) => is_some (re_get k (rev fv))) fe
       || forallb (fun '(k, _) => is_some (re_get k (rev fe))) fv)
      && forallb (fun '(k, x) => match re_get k (rev fv) with
                                 | Some y => rv_conforms x y
                                 | None => true end) fe
    | RList le, RList lv =>
      forallb (fun x => existsb (fun y => rv_conforms x y) lv) le
      || forallb (fun y => existsb (fun x => rv_conforms x y) le) lv
    | RTuple _, RList _ | RList _, RTuple _ => false
    | _, _ => true
    end.

  (* op_check_constraint: the constraint is on top of the stack, the value below it *)
  Definition check_constraint (c v : rval) : bool :=
    match c with
    | RCon arms => if contains_self_ref arms then true else cv_check arms v
    | _ => rv_conforms c v          (* a plain value in constraint position is an exemplar (761a6c7) *)
    end.

  Fixpoint has_key {A} (k : bytes) (l : list (bytes * A)) : bool :=
    match l with [] => false | (k', _) :: l' => bytes_eqb k k' || has_key k l' end.

  (* evaluation of the literal fragment used in constraint position and as bound values:
     literals, names, tuple/list literals (no repeated field), grouping.  Everything else: Unsup. *)
  Section LitLoops.
    Variable ev : expr -> res rval.
    Fixpoint lit_eval_list (es : list expr) : res (list rval) :=
      match es with
      | [] => Ok []
      | e1 :: es' => do v <- ev e1; do r <- lit_eval_list es'; Ok (v :: r)
      end.
    Fixpoint lit_eval_fields (fs : list (bytes * expr)) : res (list (bytes * rval)) :=
      match fs with
      | [] => Ok []
      | (k, e1) :: fs' =>
        do v <- ev e1; do r <- lit_eval_fields fs';
        if has_key k r then Unsup else Ok ((k, v) :: r)
      end.
  End LitLoops.
  Fixpoint lit_eval (re : renv) (e : expr) : res rval :=
    match e with
    | ENull => Ok RNull
    | EBool v => Ok (RBool v)
    | EInt z => Ok (RInt z)
    | EFloat bits => Ok (RFloat (f_of_bits fo bits))
    | EStr s => Ok (RStr s)
    | ESym x => match re_get x re with Some v => Ok v | None => Err end
    | EGroup e1 => lit_eval re e1
    | EList es => do r <- lit_eval_list (fun e1 => lit_eval re e1) es; Ok (RList r)
    | ETuple fs => do r <- lit_eval_fields (fun e1 => lit_eval re e1) fs; Ok (RTuple r)
    | _ => Unsup
    end.

  (* op_build_constraint *)
  Definition build_arm (re : renv) (a : carm) : res rarm :=
    match a with
    | ARange lo hi =>
      do s <- match lo with Some e => lit_eval re e | None => Ok RNull end;
      do t <- match hi with Some e => lit_eval re e | None => Ok RNull end;
      match s, t with
      | RInt x, RInt y => Ok (RRangeI (Some x) (Some y))
      | RInt x, RNull => Ok (RRangeI (Some x) None)
      | RNull, RInt y => Ok (RRangeI None (Some y))
      | RFloat x, RFloat y => Ok (RRangeF (Some x) (Some y))
      | RFloat x, RNull => Ok (RRangeF (Some x) None)
      | RNull, RFloat y => Ok (RRangeF None (Some y))
      | _, _ => Err
      end
    | AShape e => do v <- lit_eval re e; Ok (RExact v)
    end.

  Fixpoint build_arms (re : renv) (arms : list carm) : res (list rarm) :=
    match arms with
    | [] => Ok []
    | a :: arms' => do x <- build_arm re a; do r <- build_arms re arms'; Ok (x :: r)
    end.
  Definition eval_cexpr (re : renv) (c : cexpr) : res rval :=
    match c with
    | CPlain e => lit_eval re e
    | CArms arms => do r <- build_arms re arms; Ok (RCon r)
    end.

  (* translate_stmt + VM: Let pushes the value, then the constraint, CheckConstraint, Bind;
     Constraint pre-binds an empty constraint and rebinds (BindOver) *)
  Definition run_stmt (s : cstmt) (re : renv) : res renv :=
    match s with
    | CLet x c e =>
      do v <- lit_eval re e;
      do _ <- match c with
              | Some ce => do k <- eval_cexpr re ce; if check_constraint k v then Ok tt else Err
              | None => Ok tt
              end;
      if is_reserved x then Err
      else match re_get x re with Some _ => Err | None => Ok ((x, v) :: re) end
    | CConstraint n ce =>
      if is_reserved n then Err
      else match re_get n re with
           | Some _ => Err
           | None => do k <- eval_cexpr ((n, RCon []) :: re) ce; Ok ((n, k) :: re)
           end
    | CExpr e => do _ <- lit_eval re e; Ok re
    end.

  (* the Let statement with an arbitrary evaluator for the bound expression (the constraint expression
     stays in the literal fragment): [run_stmt (CLet x c e) re = run_let_gen lit_eval x c e re] *)
  Definition run_let_gen (ev : renv -> expr -> res rval) (x : bytes) (c : option cexpr) (e : expr) (re : renv)
    : res renv :=
    do v <- ev re e;
    do _ <- match c with
            | Some ce => do k <- eval_cexpr re ce; if check_constraint k v then Ok tt else Err
            | None => Ok tt
            end;
    if is_reserved x then Err
    else match re_get x re with Some _ => Err | None => Ok ((x, v) :: re) end.

  Fixpoint run_stmts (ss : list cstmt) (re : renv) : res renv :=
    match ss with
    | [] => Ok re
    | s :: ss' => do re1 <- run_stmt s re; run_stmts ss' re1
    end.

  (* building a file: the checker first, then the VM *)
  Definition build_prog (ss : list cstmt) : res renv :=
    match check_stmts ss [] with
    | None => Err
    | Some _ => run_stmts ss []
    end.
  Definition builds (ss : list cstmt) : bool := match build_prog ss with Ok _ => true | _ => false end.

  (* ---------------------------------------------------------------------------------------- *)
  (* literal values <-> expressions <-> shapes                                                  *)
  (* ---------------------------------------------------------------------------------------- *)

  Fixpoint shape_of_value (v : value) : shape :=
    match v with
    | VNull => SAny
    | VBool _ => SBool
    | VInt _ => SInt
    | VFloat _ => SFloat
    | VStr _ => SStr
    | VList l => SList (map shape_of_value l)
    | VTuple fs => STuple (map (fun '(k, x) => (k, shape_of_value x)) fs)
    | VFunc _ _ _ | VModule _ _ _ => SErr EUnmod
    end.

  Fixpoint rv_of_value (v : value) : rval :=
    match v with
    | VNull => RNull
    | VBool x => RBool x
    | VInt z => RInt z
    | VFloat x => RFloat x
    | VStr s => RStr s
    | VList l => RList (map rv_of_value l)
    | VTuple fs => RTuple (map (fun '(k, x) => (k, rv_of_value x)) fs)
    | VFunc _ _ _ | VModule _ _ _ => ROpaque
    end.

  (* the literal expression denoting a value (floats through their bit pattern) *)
  Fixpoint lit_expr (v : value) : expr :=
    match v with
    | VNull => ENull
    | VBool x => EBool x
    | VInt z => EInt z
    | VFloat x => EFloat (f_to_bits fo x)
    | VStr s => EStr s
    | VList l => EList (map lit_expr l)
    | VTuple fs => ETuple (map (fun '(k, x) => (k, lit_expr x)) fs)
    | VFunc _ _ _ | VModule _ _ _ => ENull
    end.

  (* ---------------------------------------------------------------------------------------- *)
  (* value-level constraints: the grammar of property C06                                       *)
  (* ---------------------------------------------------------------------------------------- *)
  Inductive varm :=
  | VRange (lo hi : option value)
  | VExact (v : value).
  Inductive vconstraint :=
  | VExemplar (v : value)
  | VAlt (arms : list varm).

  Definition carm_of (a : varm) : carm :=
    match a with
    | VRange lo hi => ARange (option_map lit_expr lo) (option_map lit_expr hi)
    | VExact v => AShape (lit_expr v)
    end.
  Definition cexpr_of (c : vconstraint) : cexpr :=
    match c with
    | VExemplar v => CPlain (lit_expr v)
    | VAlt arms => CArms (map carm_of arms)
    end.

  Definition xname : bytes := b "x".

  (* `let x :: c = v;` *)
  Definition prog_inline (c : vconstraint) (v : value) : list cstmt :=
    [CLet xname (Some (cexpr_of c)) (lit_expr v)].
  (* `constraint n = c; let x :: n = v;` *)
  Definition prog_named (n : bytes) (c : vconstraint) (v : value) : list cstmt :=
    [CConstraint n (cexpr_of c); CLet xname (Some (CPlain (ESym n))) (lit_expr v)].
  (* `let n = e; let x :: n = v;`  (a let-bound exemplar) *)
  Definition prog_let_named (n : bytes) (ex : value) (v : value) : list cstmt :=
    [CLet n None (lit_expr ex); CLet xname (Some (CPlain (ESym n))) (lit_expr v)].

  (* the two halves of a build, directly on values *)
  Definition vshape_of_constraint (c : vconstraint) : shape :=
    match c with
    | VExemplar v => shape_of_value v
    | VAlt arms =>
      let shapes := map (fun a => match a with
                                  | VRange (Some lo) _ => shape_of_value lo
                                  | VRange None (Some hi) => shape_of_value hi
                                  | VRange None None => SErr EType
                                  | VExact v => shape_of_value v end) arms in
      match shapes with [x] => x | _ => SNarrowed shapes end
    end.
  Definition static_ok (c : vconstraint) (v : value) : bool :=
    negb (is_err (narrow [] (shape_of_value v) (vshape_of_constraint c))).

  Definition rarm_of (a : varm) : option rarm :=
    match a with
    | VRange lo hi =>
      match lo, hi with
      | Some (VInt x), Some (VInt y) => Some (RRangeI (Some x) (Some y))
      | Some (VInt x), None => Some (RRangeI (Some x) None)
      | None, Some (VInt y) => Some (RRangeI None (Some y))
      | Some (VFloat x), Some (VFloat y) => Some (RRangeF (Some x) (Some y))
      | Some (VFloat x), None => Some (RRangeF (Some x) None)
      | None, Some (VFloat y) => Some (RRangeF None (Some y))
      | _, _ => None
      end
    | VExact v => Some (RExact (rv_of_value v))
    end.
  Fixpoint rarms_of (arms : list varm) : option (list rarm) :=
    match arms with
    | [] => Some []
    | a :: arms' => match rarm_of a, rarms_of arms' with
                    | Some x, Some r => Some (x :: r)
                    | _, _ => None end
    end.
  Definition runtime_ok (c : vconstraint) (v : value) : bool :=
    match c with
    | VExemplar ex => rv_conforms (rv_of_value ex) (rv_of_value v)
    | VAlt arms => match rarms_of arms with
                   | Some r => check_constraint (RCon r) (rv_of_value v)
                   | None => false end
    end.

  (* build_accepts: static narrowing is not a TypeErr && the run-time check passes *)
  Definition build_accepts (c : vconstraint) (v : value) : bool := static_ok c v && runtime_ok c v.
  (* the same through the statement pipeline (checker, then VM) *)
  Definition build_accepts_prog (c : vconstraint) (v : value) : bool := builds (prog_inline c v).
  Definition build_accepts_named (n : bytes) (c : vconstraint) (v : value) : bool := builds (prog_named n c v).
  Definition build_accepts_let_named (n : bytes) (ex v : value) : bool := builds (prog_let_named n ex v).

  (* ---------------------------------------------------------------------------------------- *)
  (* conforms: written from the property text and reference/typechecking.md only              *)
  (* ---------------------------------------------------------------------------------------- *)

  Definition names {A} (fs : list (bytes * A)) : list bytes := map fst fs.
  Definition subset_names (a c : list bytes) : bool := forallb (fun k => existsb (bytes_eqb k) c) a.

  (* [null_any]: typechecking.md "NULL values are compatible with any constraint (they represent
     any type)".  With [false] NULL is a type of its own (the strict reading of "same primitive type"). *)
  Fixpoint same_shape (null_any : bool) (ex v : value) : bool :=
    match ex, v with
    | VNull, VNull => true
    | VNull, _ | _, VNull => null_any
    | VBool _, VBool _ | VInt _, VInt _ | VFloat _, VFloat _ | VStr _, VStr _ => true
    | VTuple fe, VTuple fv =>
      (* one field set contained in the other, and the shared fields agree *)
      (subset_names (names fe) (names fv) || subset_names (names fv) (names fe))
      && forallb (fun '(k, x) => match lookup fo k fv with
                                 | Some y => same_shape null_any x y
                                 | None => true end) fe
    | VList le, VList lv =>
      (* every element type of one side is admitted by the other *)
      forallb (fun x => existsb (fun y => same_shape null_any x y) lv) le
      || forallb (fun y => existsb (fun x => same_shape null_any x y) le) lv
    | _, _ => false
    end.

  (* "equal": ucg's own deep equality (fields in order), floats by IEEE equality *)
  Section ValEqLoops.
    Variable eq : value -> value -> bool.
    Fixpoint val_list_eqb (x y : list value) : bool :=
      match x, y with
      | [], [] => true
      | v :: x', w :: y' => eq v w && val_list_eqb x' y'
      | _, _ => false
      end.
    Fixpoint val_fields_eqb (x y : list (bytes * value)) : bool :=
      match x, y with
      | [], [] => true
      | (k, v) :: x', (k', w) :: y' => bytes_eqb k k' && eq v w && val_fields_eqb x' y'
      | _, _ => false
      end.
  End ValEqLoops.
  Fixpoint val_eqb (a c : value) : bool :=
    match a, c with
    | VNull, VNull => true
    | VBool x, VBool y => Bool.eqb x y
    | VInt x, VInt y => Z.eqb x y
    | VFloat x, VFloat y => feqb fo x y
    | VStr x, VStr y => bytes_eqb x y
    | VList x, VList y => val_list_eqb (fun v w => val_eqb v w) x y
    | VTuple x, VTuple y => val_fields_eqb (fun v w => val_eqb v w) x y
    | _, _ => false
    end.

  (* a range admits numbers of the bound's type between the inclusive bounds *)
  Definition in_range (lo hi : option value) (v : value) : bool :=
    match v with
    | VInt z =>
      match lo, hi with
      | Some (VInt a), Some (VInt c) => Z.leb a z && Z.leb z c
      | Some (VInt a), None => Z.leb a z
      | None, Some (VInt c) => Z.leb z c
      | _, _ => false
      end
    | VFloat x =>
      match lo, hi with
      | Some (VFloat a), Some (VFloat c) => fleb fo a x && fleb fo x c
      | Some (VFloat a), None => fleb fo a x
      | None, Some (VFloat c) => fleb fo x c
      | _, _ => false
      end
    | _ => false
    end.

  Definition conforms_gen (null_any : bool) (c : vconstraint) (v : value) : bool :=
    match c with
    | VExemplar ex => same_shape null_any ex v
    | VAlt arms => existsb (fun a => match a with
                                     | VRange lo hi => in_range lo hi v
                                     | VExact w => val_eqb v w end) arms
    end.
  Definition conforms := conforms_gen true.
  Definition conforms_strict := conforms_gen false.

  (* ---------------------------------------------------------------------------------------- *)
  (* the grammar of the theorem                                                                 *)
  (* ---------------------------------------------------------------------------------------- *)
  Fixpoint nodup_names (l : list bytes) : bool :=
    match l with [] => true | k :: l' => negb (existsb (bytes_eqb k) l') && nodup_names l' end.

  (* literal values: no functions/modules, no repeated field name *)
  Fixpoint literal_value (v : value) : bool :=
    match v with
    | VNull | VBool _ | VInt _ | VFloat _ | VStr _ => true
    | VList l => forallb literal_value l
    | VTuple fs => nodup_names (names fs) && forallb (fun '(_, x) => literal_value x) fs
    | VFunc _ _ _ | VModule _ _ _ => false
    end.

  Definition is_num (v : value) : bool := match v with VInt _ | VFloat _ => true | _ => false end.
  Definition same_num (a c : value) : bool :=
    match a, c with VInt _, VInt _ | VFloat _, VFloat _ => true | _, _ => false end.
  Definition range_ok (lo hi : option value) : bool :=
    match lo, hi with
    | Some a, Some c => same_num a c
    | Some a, None | None, Some a => is_num a
    | None, None => false
    end.
  Definition arm_grammar (a : varm) : bool :=
    match a with VRange lo hi => range_ok lo hi | VExact v => literal_value v end.
  (* what the parser can produce with literal arms: an exemplar, one range, or two or more arms *)
  Definition constraint_grammar (c : vconstraint) : bool :=
    match c with
    | VExemplar v => literal_value v
    | VAlt arms => forallb arm_grammar arms
                   && match arms with [] => false | [VExact _] => false | _ => true end
    end.

  Fixpoint null_free (v : value) : bool :=
    match v with
    | VNull => false
    | VList l => forallb null_free l
    | VTuple fs => forallb (fun '(_, x) => null_free x) fs
    | _ => true
    end.

  (* ---------------------------------------------------------------------------------------- *)
  (* C07: inhabitation of a shape by a value                                                    *)
  (* ---------------------------------------------------------------------------------------- *)
  (* Hole, Narrowed(Any) and the empty Narrowed are top.  A list value inhabits List(ts) when every
     element inhabits one of ts; a tuple value inhabits Tuple(fs) when each of its fields is declared
     and inhabits the LAST declaration of that name (what field access resolves to since 05372e0). *)
  Fixpoint inhabitsb (v : value) (s : shape) {struct s} : bool :=
    match s with
    | SHole _ | SAny | SNarrowed [] => true
    | SNarrowed ts => existsb (inhabitsb v) ts
    | SBool => match v with VBool _ => true | _ => false end
    | SInt => match v with VInt _ => true | _ => false end
    | SFloat => match v with VFloat _ => true | _ => false end
    | SStr => match v with VStr _ => true | _ => false end
    | SListAny => match v with VList _ => true | _ => false end
    | SList ts => match v with
                  | VList l => forallb (fun x => existsb (inhabitsb x) ts) l
                  | _ => false end
    | STuple fs =>
      match v with
      | VTuple vs =>
        forallb (fun '(k, x) =>
                   (fix last (fs : list (bytes * shape)) (acc : bool) : bool :=
                      match fs with
                      | [] => acc
                      | (k', t) :: fs' => last fs' (if bytes_eqb k k' then inhabitsb x t else acc)
                      end) fs false) vs
      | _ => false end
    | SFunc _ _ _ => match v with VFunc _ _ _ => true | _ => false end
    | SModule _ _ => match v with VModule _ _ _ => true | _ => false end
    | SImportU _ | SImportR _ | SRef _ | SErr _ => false
    end.
  Definition inhabits (v : value) (s : shape) : Prop := inhabitsb v s = true.
End Run.

Arguments VExemplar {fo}. Arguments VAlt {fo}. Arguments VRange {fo}. Arguments VExact {fo}.
Arguments RNull {fo}. Arguments RBool {fo}. Arguments RInt {fo}. Arguments RFloat {fo}. Arguments RStr {fo}.
Arguments RList {fo}. Arguments RTuple {fo}. Arguments RCon {fo}. Arguments ROpaque {fo}.
Arguments RRangeI {fo}. Arguments RRangeF {fo}. Arguments RExact {fo}.

Definition is_type_err (s : shape) : Prop := is_err s = true.

(* ------------------------------------------------------------------------------------------ *)
(* C07: the first-order fragment on which the checker is proved not to invent errors            *)
(* ------------------------------------------------------------------------------------------ *)

(* shapes of data: primitives, NULL, tuples and lists of such *)
Fixpoint groundb (s : shape) : bool :=
  match s with
  | SBool | SInt | SFloat | SStr | SAny => true
  | STuple fs => forallb (fun '(_, t) => groundb t) fs
  | SList ts => forallb groundb ts
  | _ => false
  end.
Definition is_prim (s : shape) : bool :=
  match s with SBool | SInt | SFloat | SStr => true | _ => false end.
Definition is_cmp_fo (o : op) : bool :=
  match o with Equal | NotEqual | GT | LT | GTEqual | LTEqual | IS => true | _ => false end.
Definition is_arith (o : op) : bool :=
  match o with Add | Sub | Mul | Div | Mod => true | _ => false end.

(* hole-free shapes: no Hole, ConstraintRef, Module or Import; a Func shape is opaque *)
Fixpoint hfb (s : shape) : bool :=
  match s with
  | SBool | SInt | SFloat | SStr | SAny | SListAny | SErr _ | SFunc _ _ _ => true
  | STuple fs => forallb (fun '(_, t) => hfb t) fs
  | SList ts | SNarrowed ts => forallb hfb ts
  | _ => false
  end.

(* data shapes: hole-free and without Func *)
Fixpoint dsb (s : shape) : bool :=
  match s with
  | SBool | SInt | SFloat | SStr | SAny | SListAny | SErr _ => true
  | STuple fs => forallb (fun '(_, t) => dsb t) fs
  | SList ts | SNarrowed ts => forallb dsb ts
  | _ => false
  end.
(* [admits p s]: a value of the primitive shape p may have shape s *)
Fixpoint admits (p s : shape) : bool :=
  match s with
  | SHole _ | SAny | SNarrowed [] => true
  | SNarrowed ts => existsb (admits p) ts
  | _ => prim_same p s
  end.
(* arithmetic: one operand's shape is primitive, the other's is a data shape (possibly a candidate set) *)
Definition arith_ok (sl sr : shape) : bool := (is_prim sl && dsb sr) || (dsb sl && is_prim sr).

Definition not_cands (s : shape) : bool := match s with SNarrowed _ => false | _ => true end.
Definition is_tuple_shape (s : shape) : bool := match s with STuple _ => true | _ => false end.
Definition is_func_lit (e : expr) : bool := match e with EFunc _ _ => true | _ => false end.
(* filter: a target whose shape says list, string, tuple or "one of several" *)
Definition filter_target_ok (s : shape) : bool :=
  match s with SList _ | SListAny | SStr | STuple _ | SNarrowed _ | SAny => true | _ => false end.
(* map: a tuple, a string or an undetermined target (the result shape is Narrowed Any) *)
Definition map_target_ok (s : shape) : bool :=
  match s with STuple _ | SStr | SAny | SNarrowed _ => true | _ => false end.

(* select: every arm shape (and the default's) must really be among the candidates after merging:
   merge_in_shape drops a shape that is `equivalent` to an earlier one, which is only harmless when the
   earlier one is the same primitive (Known class N2 otherwise) *)
Definition sel_ok (types : list shape) (s : shape) : bool :=
  negb (existsb (fun t => equivalent t s) types) || existsb (fun t => prim_same t s) types.
Fixpoint sel_ok_all (types : list shape) (ss : list shape) : bool :=
  match ss with
  | [] => true
  | s :: ss' => sel_ok types s && sel_ok_all (merge_in_shape types s) ss'
  end.

Fixpoint nodup_fields (l : list (bytes * expr)) : bool :=
  match l with
  | [] => true
  | (k, _) :: l' => negb (existsb (fun '(k', _) => bytes_eqb k k') l') && nodup_fields l'
  end.

(* fragment_fo, relative to the symbol table the expression is checked in.
     literals; names bound in the table (not self/env); grouping; TRACE;
     not e           when the derived shape of e is not a candidate set (Known class N3);
     == != < > <= >= is;
     + - * / %%      when one operand's derived shape is primitive and the other's is a data shape, e.g. a
                     candidate set as for l.0 or a select (lists: Known classes K1/K1b/K2);
     tuple literals without repeated field; list literals;
     e.name, e."name", e.<int>;
     e.name(args), e.name{...}   (call / copy through a tuple field; args and overrides are arbitrary);
     casts, ranges, both format forms (sub-expressions arbitrary);
     select (v, default) => {...} with every arm and the default in the fragment and sel_ok_all (v arbitrary);
     filter(f, t)    f in the fragment or a func literal, shape of t list / string / tuple / candidates / Any;
     map(f, t)       f likewise, shape of t tuple, string, candidates or Any.
   A func literal itself is allowed as the right side of a let (fragment_prog) and as f above.
   Outside: && || (K10), `in`, =~, direct calls f(args) (N1, N4), direct copy t{..}, map over lists, reduce,
   modules, imports. *)
Definition sym_ok (st : symtab) (x : bytes) : bool :=
  st_has x st && negb (bytes_eqb x (b "self")) && negb (bytes_eqb x (b "env")).
Fixpoint fragment_fo (st : symtab) (e : expr) : bool :=
  match e with
  | ENull | EBool _ | EInt _ | EFloat _ | EStr _ => true
  | ESym x => sym_ok st x
  | EGroup e1 | ETrace e1 => fragment_fo st e1
  | ENot e1 => fragment_fo st e1 && not_cands (derive st e1)
  | ETuple fs => nodup_fields fs && forallb (fun '(_, e1) => fragment_fo st e1) fs
  | EList es => forallb (fragment_fo st) es
  | EBin DOT l (ESym _) | EBin DOT l (EStr _) | EBin DOT l (EInt _) => fragment_fo st l
  | EBin DOT l (ECall (ESym _) _) | EBin DOT l (ECall (EStr _) _)
  | EBin DOT l (ECopy (ESym _) _) | EBin DOT l (ECopy (EStr _) _) => fragment_fo st l
  | EBin o l r =>
    fragment_fo st l && fragment_fo st r
    && (is_cmp_fo o || (is_arith o && arith_ok (derive st l) (derive st r)))
  | ECast _ _ | ERange _ _ _ | EFormatL _ _ | EFormatS _ _ => true
  | ESelect _ dflt arms =>
    forallb (fun '(_, e1) => fragment_fo st e1) arms
    && match dflt with Some d => fragment_fo st d | None => true end
    && sel_ok_all [] (map (fun '(_, e1) => derive st e1) arms
                      ++ match dflt with Some d => [derive st d] | None => [] end)
  | EFilter fe te =>
    (fragment_fo st fe || is_func_lit fe) && fragment_fo st te && filter_target_ok (derive st te)
  | EMap fe te =>
    (fragment_fo st fe || is_func_lit fe) && fragment_fo st te && map_target_ok (derive st te)
  | _ => false
  end.

(* ------------------------------------------------------------------------------------------ *)
(* An executable float instance for the runner / examples: IEEE-754 binary64 comparison on the  *)
(* bit pattern (arithmetic is not needed by this model and is left as the identity).            *)
(* ------------------------------------------------------------------------------------------ *)
Definition bits_sign (x : Z) : bool := Z.leb 9223372036854775808 x.                 (* bit 63 *)
Definition bits_mag (x : Z) : Z := Z.modulo x 9223372036854775808.
Definition bits_nan (x : Z) : bool := Z.ltb 9218868437227405312 (bits_mag x).       (* > 0x7ff0... *)
(* total order key of a non-NaN pattern; both zeros map to 0 *)
Definition bits_key (x : Z) : Z := if bits_sign x then (- bits_mag x)%Z else bits_mag x.
Definition bits_eqb (x y : Z) : bool := negb (bits_nan x) && negb (bits_nan y) && Z.eqb (bits_key x) (bits_key y).
Definition bits_ltb (x y : Z) : bool := negb (bits_nan x) && negb (bits_nan y) && Z.ltb (bits_key x) (bits_key y).
Definition bits_leb (x y : Z) : bool := negb (bits_nan x) && negb (bits_nan y) && Z.leb (bits_key x) (bits_key y).

Definition bits_ops : float_ops := {|
  F := Z;
  f_of_bits := fun z => z;
  f_to_bits := fun z => z;
  fadd := fun x _ => x; fsub := fun x _ => x; fmul := fun x _ => x; fdiv := fun x _ => x;
  feqb := bits_eqb; fltb := bits_ltb; fleb := bits_leb;
  f_of_int := fun z => z;
  f_to_int := fun _ => None;
  f_text := fun _ => None
|}.

(* programs of Ast.v (no constraint annotations) as checker input; assert/out are not modelled *)
Fixpoint cstmts_of (p : list stmt) : option (list cstmt) :=
  match p with
  | [] => Some []
  | SLet x e :: p' => option_map (cons (CLet x None e)) (cstmts_of p')
  | SExpr e :: p' => option_map (cons (CExpr e)) (cstmts_of p')
  | _ => None
  end.

(* every statement is a let / expression statement in the fragment, relative to the symbol table
   the checker has when it reaches it *)
Fixpoint fragment_prog (st : symtab) (p : list stmt) : bool :=
  match p with
  | [] => true
  | SLet x e :: p' => (fragment_fo st e || is_func_lit e) && fragment_prog (st_set x (derive st e) st) p'
  | SExpr e :: p' => fragment_fo st e && fragment_prog st p'
  | _ => false
  end.

(* ------------------------------------------------------------------------------------------ *)
(* The Known classes of C07 that the current checker still has by design (pinned by the suite):   *)
(*   K1/K1b/K2  a `+` whose two operands both derive to List(Narrowed ..) shapes whose candidate    *)
(*              sets differ (as sets, modulo positions);                                            *)
(*   K10        an `&&` / `||` whose right operand derives to a primitive shape other than Boolean. *)
(* [known_expr st e] looks at every sub-expression of e (function bodies under the table extended   *)
(* with their parameters as holes; module bodies and @{..} template expressions are not entered),   *)
(* deriving operand shapes in the symbol table current at the statement.                            *)
(* ------------------------------------------------------------------------------------------ *)
Definition elems_differ (a c : list shape) : bool :=
  negb (forallb (fun x => existsb (shape_eqb x) c) a && forallb (fun y => existsb (shape_eqb y) a) c).
Definition known_add (st : symtab) (l r : expr) : bool :=
  match derive st l, derive st r with
  | SList a, SList c => elems_differ a c
  | _, _ => false
  end.
(* [wide]: also an `&&` / `||` whose right operand derives to a TypeErr (the operand may never be
   evaluated: `false && (not 5)`, class N7) *)
Definition known_andor (wide : bool) (st : symtab) (r : expr) : bool :=
  match derive st r with SInt | SFloat | SStr => true | SErr _ => wide | _ => false end.

Fixpoint known_expr (wide : bool) (st : symtab) (e : expr) : bool :=
  match e with
  | EBin Add l r => known_add st l r || known_expr wide st l || known_expr wide st r
  | EBin AND l r | EBin OR l r => known_andor wide st r || known_expr wide st l || known_expr wide st r
  | EBin _ l r => known_expr wide st l || known_expr wide st r
  | ETuple fs => existsb (fun '(_, e1) => known_expr wide st e1) fs
  | EList es => existsb (known_expr wide st) es
  | ENot e1 | EGroup e1 | ECast _ e1 | EFail e1 | ETrace e1 | EConvert _ e1 => known_expr wide st e1
  | ECopy t fs => known_expr wide st t || existsb (fun '(_, e1) => known_expr wide st e1) fs
  | ERange a s z =>
    known_expr wide st a || match s with Some e1 => known_expr wide st e1 | None => false end || known_expr wide st z
  | EFormatL _ args => existsb (known_expr wide st) args
  | EFormatS _ a => known_expr wide st a
  | ECall fe args => known_expr wide st fe || existsb (known_expr wide st) args
  | EFunc ps body => known_expr wide (fold_left (fun acc p => st_set p (SHole p) acc) ps st) body
  | ESelect v d arms =>
    known_expr wide st v || match d with Some e1 => known_expr wide st e1 | None => false end
    || existsb (fun '(_, e1) => known_expr wide st e1) arms
  | EMap a c | EFilter a c => known_expr wide st a || known_expr wide st c
  | EReduce a c d => known_expr wide st a || known_expr wide st c || known_expr wide st d
  | _ => false
  end.

Fixpoint known_stmts (wide : bool) (st : symtab) (p : list stmt) : bool :=
  match p with
  | [] => false
  | SLet x e :: p' => known_expr wide st e || known_stmts wide (st_set x (derive st e) st) p'
  | SExpr e :: p' | SAssert e :: p' | SOut _ e :: p' => known_expr wide st e || known_stmts wide st p'
  end.
Definition known_c07 (p : list stmt) : bool := known_stmts false [] p.
Definition known_c07_wide (p : list stmt) : bool := known_stmts true [] p.

