(* Examples for the shape model: constraints (C06), narrowing, and the Known classes of C07 (programs
   that evaluate to completion but are rejected by the static checker).  Floats: [bits_ops]. *)
From Ucg Require Import shape.Shape.
Local Open Scope Z_scope.

Notation V := (value bits_ops).
Definition vi (z : Z) : V := VInt z.
Definition vs (s : string) : V := VStr (b s).
Definition vf (bits : Z) : V := @VFloat bits_ops bits.
Definition ba := build_accepts bits_ops.

(* ---- exemplars ---- *)
(* let port :: 0 = 8080;   let port :: 0 = "not a number"; *)
Example ex_int_ok : ba (VExemplar (vi 0)) (vi 8080) = true. Proof. reflexivity. Qed.
Example ex_int_bad : ba (VExemplar (vi 0)) (vs "not a number") = false. Proof. reflexivity. Qed.
(* let x :: {a=0,b=""} = {a=1};  (subset)      let x :: {a=0,b=""} = {a=1,c=2};  (incomparable) *)
Example ex_tuple_subset : ba (VExemplar (VTuple [(b "a", vi 0); (b "b", vs "")])) (VTuple [(b "a", vi 1)]) = true.
Proof. reflexivity. Qed.
Example ex_tuple_incomparable :
  ba (VExemplar (VTuple [(b "a", vi 0); (b "b", vs "")])) (VTuple [(b "a", vi 1); (b "c", vi 2)]) = false.
Proof. reflexivity. Qed.
(* let x :: [1] = [1, "a"];   accepted: every element type of the exemplar is admitted by the value *)
Example ex_list_superset : ba (VExemplar (VList [vi 1])) (VList [vi 1; vs "a"]) = true. Proof. reflexivity. Qed.
Example ex_list_disjoint : ba (VExemplar (VList [vi 1])) (VList [vs "a"]) = false. Proof. reflexivity. Qed.

(* ---- ranges: lo-1, lo, hi, hi+1 ---- *)
Definition r_1_5 : vconstraint bits_ops := VAlt [VRange (Some (vi 1)) (Some (vi 5))].
Example range_below : ba r_1_5 (vi 0) = false. Proof. reflexivity. Qed.
Example range_lo : ba r_1_5 (vi 1) = true. Proof. reflexivity. Qed.
Example range_hi : ba r_1_5 (vi 5) = true. Proof. reflexivity. Qed.
Example range_above : ba r_1_5 (vi 6) = false. Proof. reflexivity. Qed.
Example range_null : ba r_1_5 VNull = false. Proof. reflexivity. Qed.
(* 0.0 .. 1.0 with 0.5 (bit patterns) *)
Example range_float :
  ba (VAlt [VRange (Some (vf 0)) (Some (vf 4607182418800017408))]) (vf 4602678819172646912) = true.
Proof. reflexivity. Qed.
(* mixed bounds  in 1..2.5 : the constraint cannot be built at run time (outside constraint_grammar) *)
Example range_mixed :
  ba (VAlt [VRange (Some (vi 1)) (Some (vf 4612811918334230528))]) (vi 2) = false.
Proof. reflexivity. Qed.

(* ---- alternations ---- *)
Definition alt_ports : vconstraint bits_ops := VAlt [VRange (Some (vi 1)) (Some (vi 1024)); VExact (vi 8080); VExact (vi 8443)].
Example alt_in_range : ba alt_ports (vi 80) = true. Proof. reflexivity. Qed.
Example alt_exact : ba alt_ports (vi 8080) = true. Proof. reflexivity. Qed.
Example alt_miss : ba alt_ports (vi 9999) = false. Proof. reflexivity. Qed.
Example alt_str : ba (VAlt [VExact (vs "active"); VExact (vs "inactive")]) (vs "unknown") = false. Proof. reflexivity. Qed.

(* ---- through the statement pipeline, inline and named ---- *)
Example named_same :
  build_accepts_named bits_ops (b "valid_port") alt_ports (vi 8080) = true
  /\ build_accepts_prog bits_ops alt_ports (vi 8080) = true.
Proof. split; reflexivity. Qed.

(* ---- recursive constraints: the memo of narrow_cached ---- *)
(* constraint xml_node = "" | {name="", children=[xml_node]}; *)
Definition xml_node : cstmt :=
  CConstraint (b "xml_node")
    (CArms [AShape (EStr (b ""));
            AShape (ETuple [(b "name", EStr (b "")); (b "children", EList [ESym (b "xml_node")])])]).
Definition node (name : string) (kids : list expr) : expr :=
  ETuple [(b "name", EStr (b name)); (b "children", EList kids)].
Example rec_ok :
  builds bits_ops [xml_node; CLet (b "t") (Some (CPlain (ESym (b "xml_node"))))
                                  (node "html" [node "body" [EStr (b "text"); node "p" []]])] = true.
Proof. vm_compute. reflexivity. Qed.
Example rec_bad_depth2 :
  builds bits_ops [xml_node; CLet (b "t") (Some (CPlain (ESym (b "xml_node"))))
                                  (node "html" [node "body" [EInt 42]])] = false.
Proof. vm_compute. reflexivity. Qed.
(* constraint bad = {child = bad};  unconstructible *)
Example rec_unconstructible :
  builds bits_ops [CConstraint (b "bad") (CPlain (ETuple [(b "child", ESym (b "bad"))]))] = false.
Proof. vm_compute. reflexivity. Qed.
(* constraint a = 1 | a;  let x :: a = "s";   the in-progress self reference counts as no match (commit ba99da1) *)
Example rec_self_alternative :
  builds bits_ops [CConstraint (b "a") (CArms [AShape (EInt 1); AShape (ESym (b "a"))]);
                   CLet (b "x") (Some (CPlain (ESym (b "a")))) (EStr (b "s"))] = false.
Proof. vm_compute. reflexivity. Qed.

(* FINDING (C06): a recursive constraint is not checked at run time, its exact alternatives act as exemplars:
     constraint a = 1 | [a];  let x :: a = 7;        builds, although 7 is neither 1 nor a list *)
Example finding_recursive_alternation_not_exact :
  builds bits_ops [CConstraint (b "a") (CArms [AShape (EInt 1); AShape (EList [ESym (b "a")])]);
                   CLet (b "x") (Some (CPlain (ESym (b "a")))) (EInt 7)] = true.
Proof. vm_compute. reflexivity. Qed.
(* FINDING (C06): a named constraint used as one arm of an alternation is not its inline text:
     constraint t = 1 | 2;  let x :: t | 3 = 1;      is rejected,   let x :: 1 | 2 | 3 = 1;   builds *)
Example finding_named_arm_not_transparent :
  builds bits_ops [CConstraint (b "t") (CArms [AShape (EInt 1); AShape (EInt 2)]);
                   CLet (b "x") (Some (CArms [AShape (ESym (b "t")); AShape (EInt 3)])) (EInt 1)] = false
  /\ builds bits_ops [CLet (b "x") (Some (CArms [AShape (EInt 1); AShape (EInt 2); AShape (EInt 3)])) (EInt 1)] = true.
Proof. split; vm_compute; reflexivity. Qed.

(* ---- narrowing ---- *)
Example narrow_hole_updates_table :
  narrow_st [(b "p", SHole (b "p"))] (SHole (b "p")) SInt = (SInt, [(b "p", SInt); (b "p", SHole (b "p"))]).
Proof. vm_compute. reflexivity. Qed.
Example narrow_candidates : narrow [] (SNarrowed [SInt; SStr]) SStr = SStr. Proof. vm_compute. reflexivity. Qed.
Example narrow_no_candidate : is_err (narrow [] (SNarrowed [SInt; SStr]) SBool) = true. Proof. vm_compute. reflexivity. Qed.
Example narrow_unknown_ref : is_err (narrow [] (SRef (b "n")) SInt) = true. Proof. vm_compute. reflexivity. Qed.

(* ---- C07: Known classes.  Each program evaluates to completion under the definitional semantics
   (and under the real VM without the checker) but is rejected by the static checker. ---- *)
Definition evaluates (p : prog) : bool :=
  match sem_prog bits_ops 60 [] true true p with Ok _ => true | _ => false end.
Definition checker_rejects (p : prog) : bool :=
  match cstmts_of p with
  | Some cs => match check_stmts cs [] with None => true | Some _ => false end
  | None => false
  end.
Local Close Scope Z_scope.

(* `+` on lists whose element shapes differ
     let r = [1] + ["a"]; *)
Definition k_list_concat : prog := [SLet (b "r") (EBin Add (EList [(EInt (1)%Z)]) (EList [(EStr (b "a"))]))].
Example k_list_concat_evaluates : evaluates k_list_concat = true. Proof. vm_compute. reflexivity. Qed.
Example k_list_concat_rejected : checker_rejects k_list_concat = true. Proof. vm_compute. reflexivity. Qed.

(* a concatenation keeps the left list's shape, the element taken from the right part is then mistyped
     let r = ([1] + [2, "a"]).2 + "b"; *)
Definition k_list_concat_index : prog := [SLet (b "r") (EBin Add (EBin DOT (EGroup (EBin Add (EList [(EInt (1)%Z)]) (EList [(EInt (2)%Z); (EStr (b "a"))]))) (EInt (2)%Z)) (EStr (b "b")))].
Example k_list_concat_index_evaluates : evaluates k_list_concat_index = true. Proof. vm_compute. reflexivity. Qed.
Example k_list_concat_index_rejected : checker_rejects k_list_concat_index = true. Proof. vm_compute. reflexivity. Qed.

(* two empty lists that come from lists of different element type
     let r = filter(func(x) => false, [1]) + filter(func(x) => false, ["a"]); *)
Definition k_empty_lists : prog := [SLet (b "r") (EBin Add (EFilter (EFunc [(b "x")] (EBool false)) (EList [(EInt (1)%Z)])) (EFilter (EFunc [(b "x")] (EBool false)) (EList [(EStr (b "a"))])))].
Example k_empty_lists_evaluates : evaluates k_empty_lists = true. Proof. vm_compute. reflexivity. Qed.
Example k_empty_lists_rejected : checker_rejects k_empty_lists = true. Proof. vm_compute. reflexivity. Qed.

(* map over a tuple
     let r = map(func(k,v) => [k,v], {a=1}); *)
Definition k_map_tuple : prog := [SLet (b "r") (EMap (EFunc [(b "k"); (b "v")] (EList [(ESym (b "k")); (ESym (b "v"))])) (ETuple [((b "a"), (EInt (1)%Z))]))].
Example k_map_tuple_evaluates : evaluates k_map_tuple = true. Proof. vm_compute. reflexivity. Qed.
Example k_map_tuple_rejected : checker_rejects k_map_tuple = true. Proof. vm_compute. reflexivity. Qed.

(* map over a string
     let r = map(func(c) => c, "abc"); *)
Definition k_map_str : prog := [SLet (b "r") (EMap (EFunc [(b "c")] (ESym (b "c"))) (EStr (b "abc")))].
Example k_map_str_evaluates : evaluates k_map_str = true. Proof. vm_compute. reflexivity. Qed.
Example k_map_str_rejected : checker_rejects k_map_str = true. Proof. vm_compute. reflexivity. Qed.

(* filter over a string
     let r = filter(func(c) => true, "abc"); *)
Definition k_filter_str : prog := [SLet (b "r") (EFilter (EFunc [(b "c")] (EBool true)) (EStr (b "abc")))].
Example k_filter_str_evaluates : evaluates k_filter_str = true. Proof. vm_compute. reflexivity. Qed.
Example k_filter_str_rejected : checker_rejects k_filter_str = true. Proof. vm_compute. reflexivity. Qed.

(* reduce over a string
     let r = reduce(func(acc, c) => acc + c, "", "abc"); *)
Definition k_reduce_str : prog := [SLet (b "r") (EReduce (EFunc [(b "acc"); (b "c")] (EBin Add (ESym (b "acc")) (ESym (b "c")))) (EStr (b "")) (EStr (b "abc")))].
Example k_reduce_str_evaluates : evaluates k_reduce_str = true. Proof. vm_compute. reflexivity. Qed.
Example k_reduce_str_rejected : checker_rejects k_reduce_str = true. Proof. vm_compute. reflexivity. Qed.

(* reduce over a tuple
     let r = reduce(func(acc, k, v) => acc + v, 0, {a=1}); *)
Definition k_reduce_tuple : prog := [SLet (b "r") (EReduce (EFunc [(b "acc"); (b "k"); (b "v")] (EBin Add (ESym (b "acc")) (ESym (b "v")))) (EInt (0)%Z) (ETuple [((b "a"), (EInt (1)%Z))]))].
Example k_reduce_tuple_evaluates : evaluates k_reduce_tuple = true. Proof. vm_compute. reflexivity. Qed.
Example k_reduce_tuple_rejected : checker_rejects k_reduce_tuple = true. Proof. vm_compute. reflexivity. Qed.

(* map/filter/reduce over a list element or a select result (shape Narrowed)
     let r = map(func(x) => x, [[1]].0); *)
Definition k_map_narrowed : prog := [SLet (b "r") (EMap (EFunc [(b "x")] (ESym (b "x"))) (EBin DOT (EList [(EList [(EInt (1)%Z)])]) (EInt (0)%Z)))].
Example k_map_narrowed_evaluates : evaluates k_map_narrowed = true. Proof. vm_compute. reflexivity. Qed.
Example k_map_narrowed_rejected : checker_rejects k_map_narrowed = true. Proof. vm_compute. reflexivity. Qed.

(* the default of a select is not part of its shape
     let r = (select ("x", 1) => {a = "s"}) + 1; *)
Definition k_select_default : prog := [SLet (b "r") (EBin Add (EGroup (ESelect (EStr (b "x")) (Some (EInt (1)%Z)) [((b "a"), (EStr (b "s")))])) (EInt (1)%Z))].
Example k_select_default_evaluates : evaluates k_select_default = true. Proof. vm_compute. reflexivity. Qed.
Example k_select_default_rejected : checker_rejects k_select_default = true. Proof. vm_compute. reflexivity. Qed.

(* a function parameter is typed as the outer binding of the same name
     let a = 1; let f = func(a) => a + "s"; let r = f("x"); *)
Definition k_param_shadow : prog := [SLet (b "a") (EInt (1)%Z); SLet (b "f") (EFunc [(b "a")] (EBin Add (ESym (b "a")) (EStr (b "s")))); SLet (b "r") (ECall (ESym (b "f")) [(EStr (b "x"))])].
Example k_param_shadow_evaluates : evaluates k_param_shadow = true. Proof. vm_compute. reflexivity. Qed.
Example k_param_shadow_rejected : checker_rejects k_param_shadow = true. Proof. vm_compute. reflexivity. Qed.

(* calling a function through a field selector
     let t = {f = func(x) => x}; let r = t.f(1); *)
Definition k_method_call : prog := [SLet (b "t") (ETuple [((b "f"), (EFunc [(b "x")] (ESym (b "x"))))]); SLet (b "r") (EBin DOT (ESym (b "t")) (ECall (ESym (b "f")) [(EInt (1)%Z)]))].
Example k_method_call_evaluates : evaluates k_method_call = true. Proof. vm_compute. reflexivity. Qed.
Example k_method_call_rejected : checker_rejects k_method_call = true. Proof. vm_compute. reflexivity. Qed.

(* copy keeps the first declaration of an overridden field
     let b0 = {a=1}; let x = b0{a=NULL}; let y = x{a="s"}; let z = y.a + "t"; *)
Definition k_copy_null : prog := [SLet (b "b0") (ETuple [((b "a"), (EInt (1)%Z))]); SLet (b "x") (ECopy (ESym (b "b0")) [((b "a"), ENull)]); SLet (b "y") (ECopy (ESym (b "x")) [((b "a"), (EStr (b "s")))]); SLet (b "z") (EBin Add (EBin DOT (ESym (b "y")) (ESym (b "a"))) (EStr (b "t")))].
Example k_copy_null_evaluates : evaluates k_copy_null = true. Proof. vm_compute. reflexivity. Qed.
Example k_copy_null_rejected : checker_rejects k_copy_null = true. Proof. vm_compute. reflexivity. Qed.

(* field access through an element of a list built from list elements (Narrowed inside Narrowed)
     let l = [{a = 1}]; let m = [l.0]; let r = m.0.a; *)
Definition k_nested_narrowed : prog := [SLet (b "l") (EList [(ETuple [((b "a"), (EInt (1)%Z))])]); SLet (b "m") (EList [(EBin DOT (ESym (b "l")) (EInt (0)%Z))]); SLet (b "r") (EBin DOT (EBin DOT (ESym (b "m")) (EInt (0)%Z)) (ESym (b "a")))].
Example k_nested_narrowed_evaluates : evaluates k_nested_narrowed = true. Proof. vm_compute. reflexivity. Qed.
Example k_nested_narrowed_rejected : checker_rejects k_nested_narrowed = true. Proof. vm_compute. reflexivity. Qed.

(* && / || return their right operand as it is
     let x = true && 5; *)
Definition k_and_rhs : prog := [SLet (b "x") (EBin AND (EBool true) (EInt (5)%Z))].
Example k_and_rhs_evaluates : evaluates k_and_rhs = true. Proof. vm_compute. reflexivity. Qed.
Example k_and_rhs_rejected : checker_rejects k_and_rhs = true. Proof. vm_compute. reflexivity. Qed.


(* ---- C07: a program of the fragment ---- *)
Definition frag_prog : prog :=
  [SLet (b "t") (ETuple [(b "a", EInt 1%Z); (b "s", EStr (b "x"))]);
   SLet (b "n") (EBin Add (EBin DOT (ESym (b "t")) (ESym (b "a"))) (EInt 2%Z));
   SLet (b "ok") (ENot (EBin GT (ESym (b "n")) (EInt 5%Z)));
   SLet (b "l") (EList [ESym (b "n"); ECast CInt (EStr (b "7"))])].
Example frag_prog_in_fragment : fragment_prog [] frag_prog = true. Proof. vm_compute. reflexivity. Qed.
Example frag_prog_evaluates : evaluates frag_prog = true. Proof. vm_compute. reflexivity. Qed.
Example frag_prog_accepted : checker_rejects frag_prog = false. Proof. vm_compute. reflexivity. Qed.
