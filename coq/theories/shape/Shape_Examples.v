(* Examples for the shape model: constraints (C06), narrowing, and the Known classes of C07 (programs
   that evaluate to completion but are rejected by the static checker).  Floats: [bits_ops]. *)
From Ucg Require Import shape.Shape.
Local Open Scope Z_scope.

Notation V := (value bits_ops).
Definition vi (z : Z) : V := VInt z.
Definition vs (s : string) : V := VStr (b s).
Definition vf (bits : Z) : V := @VFloat bits_ops bits.
Definition ba := build_accepts bits_ops.

(* ---- exemplars ---- *)
(* let port :: 0 = 8080;   let port :: 0 = "not a number"; *)
Example ex_int_ok : ba (VExemplar (vi 0)) (vi 8080) = true. Proof. reflexivity. Qed.
Example ex_int_bad : ba (VExemplar (vi 0)) (vs "not a number") = false. Proof. reflexivity. Qed.
(* let x :: {a=0,b=""} = {a=1};  (subset)      let x :: {a=0,b=""} = {a=1,c=2};  (incomparable) *)
Example ex_tuple_subset : ba (VExemplar (VTuple [(b "a", vi 0); (b "b", vs "")])) (VTuple [(b "a", vi 1)]) = true.
Proof. reflexivity. Qed.
Example ex_tuple_incomparable :
  ba (VExemplar (VTuple [(b "a", vi 0); (b "b", vs "")])) (VTuple [(b "a", vi 1); (b "c", vi 2)]) = false.
Proof. reflexivity. Qed.
(* let x :: [1] = [1, "a"];   accepted: every element type of the exemplar is admitted by the value *)
Example ex_list_superset : ba (VExemplar (VList [vi 1])) (VList [vi 1; vs "a"]) = true. Proof. reflexivity. Qed.
Example ex_list_disjoint : ba (VExemplar (VList [vi 1])) (VList [vs "a"]) = false. Proof. reflexivity. Qed.

(* ---- ranges: lo-1, lo, hi, hi+1 ---- *)
Definition r_1_5 : vconstraint bits_ops := VAlt [VRange (Some (vi 1)) (Some (vi 5))].
Example range_below : ba r_1_5 (vi 0) = false. Proof. reflexivity. Qed.
Example range_lo : ba r_1_5 (vi 1) = true. Proof. reflexivity. Qed.
Example range_hi : ba r_1_5 (vi 5) = true. Proof. reflexivity. Qed.
Example range_above : ba r_1_5 (vi 6) = false. Proof. reflexivity. Qed.
Example range_null : ba r_1_5 VNull = false. Proof. reflexivity. Qed.
(* 0.0 .. 1.0 with 0.5 (bit patterns) *)
Example range_float :
  ba (VAlt [VRange (Some (vf 0)) (Some (vf 4607182418800017408))]) (vf 4602678819172646912) = true.
Proof. reflexivity. Qed.
(* mixed bounds  in 1..2.5 : the constraint cannot be built at run time (outside constraint_grammar) *)
Example range_mixed :
  ba (VAlt [VRange (Some (vi 1)) (Some (vf 4612811918334230528))]) (vi 2) = false.
Proof. reflexivity. Qed.

(* ---- alternations ---- *)
Definition alt_ports : vconstraint bits_ops := VAlt [VRange (Some (vi 1)) (Some (vi 1024)); VExact (vi 8080); VExact (vi 8443)].
Example alt_in_range : ba alt_ports (vi 80) = true. Proof. reflexivity. Qed.
Example alt_exact : ba alt_ports (vi 8080) = true. Proof. reflexivity. Qed.
Example alt_miss : ba alt_ports (vi 9999) = false. Proof. reflexivity. Qed.
Example alt_str : ba (VAlt [VExact (vs "active"); VExact (vs "inactive")]) (vs "unknown") = false. Proof. reflexivity. Qed.

(* ---- through the statement pipeline, inline and named ---- *)
Example named_same :
  build_accepts_named bits_ops (b "valid_port") alt_ports (vi 8080) = true
  /\ build_accepts_prog bits_ops alt_ports (vi 8080) = true.
Proof. split; reflexivity. Qed.

(* ---- recursive constraints: the memo of narrow_cached ---- *)
(* constraint xml_node = "" | {name="", children=[xml_node]}; *)
Definition xml_node : cstmt :=
  CConstraint (b "xml_node")
    (CArms [AShape (EStr (b ""));
            AShape (ETuple [(b "name", EStr (b "")); (b "children", EList [ESym (b "xml_node")])])]).
Definition node (name : string) (kids : list expr) : expr :=
  ETuple [(b "name", EStr (b name)); (b "children", EList kids)].
Example rec_ok :
  builds bits_ops [xml_node; CLet (b "t") (Some (CPlain (ESym (b "xml_node"))))
                                  (node "html" [node "body" [EStr (b "text"); node "p" []]])] = true.
Proof. vm_compute. reflexivity. Qed.
Example rec_bad_depth2 :
  builds bits_ops [xml_node; CLet (b "t") (Some (CPlain (ESym (b "xml_node"))))
                                  (node "html" [node "body" [EInt 42]])] = false.
Proof. vm_compute. reflexivity. Qed.
(* constraint bad = {child = bad};  unconstructible *)
Example rec_unconstructible :
  builds bits_ops [CConstraint (b "bad") (CPlain (ETuple [(b "child", ESym (b "bad"))]))] = false.
Proof. vm_compute. reflexivity. Qed.
(* constraint a = 1 | a;  let x :: a = "s";   the in-progress self reference counts as no match (commit ba99da1) *)
Example rec_self_alternative :
  builds bits_ops [CConstraint (b "a") (CArms [AShape (EInt 1); AShape (ESym (b "a"))]);
                   CLet (b "x") (Some (CPlain (ESym (b "a")))) (EStr (b "s"))] = false.
Proof. vm_compute. reflexivity. Qed.

(* FINDING (C06): a recursive constraint is not checked at run time, its exact alternatives act as exemplars:
     constraint a = 1 | [a];  let x :: a = 7;        builds, although 7 is neither 1 nor a list *)
Example finding_recursive_alternation_not_exact :
  builds bits_ops [CConstraint (b "a") (CArms [AShape (EInt 1); AShape (EList [ESym (b "a")])]);
                   CLet (b "x") (Some (CPlain (ESym (b "a")))) (EInt 7)] = true.
Proof. vm_compute. reflexivity. Qed.
(* FINDING (C06): a named constraint used as one arm of an alternation is not its inline text:
     constraint t = 1 | 2;  let x :: t | 3 = 1;      is rejected,   let x :: 1 | 2 | 3 = 1;   builds *)
Example finding_named_arm_not_transparent :
  builds bits_ops [CConstraint (b "t") (CArms [AShape (EInt 1); AShape (EInt 2)]);
                   CLet (b "x") (Some (CArms [AShape (ESym (b "t")); AShape (EInt 3)])) (EInt 1)] = false
  /\ builds bits_ops [CLet (b "x") (Some (CArms [AShape (EInt 1); AShape (EInt 2); AShape (EInt 3)])) (EInt 1)] = true.
Proof. split; vm_compute; reflexivity. Qed.

(* ---- narrowing ---- *)
Example narrow_hole_updates_table :
  narrow_st [(b "p", SHole (b "p"))] (SHole (b "p")) SInt = (SInt, [(b "p", SInt); (b "p", SHole (b "p"))]).
Proof. vm_compute. reflexivity. Qed.
Example narrow_candidates : narrow [] (SNarrowed [SInt; SStr]) SStr = SStr. Proof. vm_compute. reflexivity. Qed.
Example narrow_no_candidate : is_err (narrow [] (SNarrowed [SInt; SStr]) SBool) = true. Proof. vm_compute. reflexivity. Qed.
Example narrow_unknown_ref : is_err (narrow [] (SRef (b "n")) SInt) = true. Proof. vm_compute. reflexivity. Qed.

(* ---- C07 (checker as of 7412af6).  [evaluates]: the definitional semantics runs the program to completion
   (so does the real VM without the checker). ---- *)
Definition evaluates (p : prog) : bool :=
  match sem_prog bits_ops 60 [] true true p with Ok _ => true | _ => false end.
Definition checker_result (p : prog) : option bool :=
  match cstmts_of p with
  | Some cs => Some (match check_stmts cs [] with Some _ => true | None => false end)
  | None => None
  end.
Definition checker_rejects (p : prog) : bool := match checker_result p with Some false => true | _ => false end.
Definition checker_accepts (p : prog) : bool := match checker_result p with Some true => true | _ => false end.
Local Close Scope Z_scope.

(* ---- Known classes of the current checker: evaluates under Sem.v, rejected by the checker ---- *)
(* K1: `+` on lists whose element shapes differ
     let r = [1] + ["a"]; *)
Definition k_list_concat : prog := [SLet (b "r") (EBin Add (EList [(EInt (1)%Z)]) (EList [(EStr (b "a"))]))].
Example k_list_concat_evaluates : evaluates k_list_concat = true. Proof. vm_compute. reflexivity. Qed.
Example k_list_concat_rejected : checker_rejects k_list_concat = true. Proof. vm_compute. reflexivity. Qed.
Example k_list_concat_classified : known_c07 k_list_concat = true. Proof. vm_compute. reflexivity. Qed.

(* K1b: a concatenation keeps the left list's shape, the element taken from the right part is then mistyped
     let r = ([1] + [2, "a"]).2 + "b"; *)
Definition k_list_concat_index : prog := [SLet (b "r") (EBin Add (EBin DOT (EGroup (EBin Add (EList [(EInt (1)%Z)]) (EList [(EInt (2)%Z); (EStr (b "a"))]))) (EInt (2)%Z)) (EStr (b "b")))].
Example k_list_concat_index_evaluates : evaluates k_list_concat_index = true. Proof. vm_compute. reflexivity. Qed.
Example k_list_concat_index_rejected : checker_rejects k_list_concat_index = true. Proof. vm_compute. reflexivity. Qed.
Example k_list_concat_index_classified : known_c07 k_list_concat_index = true. Proof. vm_compute. reflexivity. Qed.

(* K2: two empty lists that come from lists of different element type
     let r = filter(func(x) => false, [1]) + filter(func(x) => false, ["a"]); *)
Definition k_empty_lists : prog := [SLet (b "r") (EBin Add (EFilter (EFunc [(b "x")] (EBool false)) (EList [(EInt (1)%Z)])) (EFilter (EFunc [(b "x")] (EBool false)) (EList [(EStr (b "a"))])))].
Example k_empty_lists_evaluates : evaluates k_empty_lists = true. Proof. vm_compute. reflexivity. Qed.
Example k_empty_lists_rejected : checker_rejects k_empty_lists = true. Proof. vm_compute. reflexivity. Qed.
Example k_empty_lists_classified : known_c07 k_empty_lists = true. Proof. vm_compute. reflexivity. Qed.

(* K10: && / || return their right operand as it is
     let x = true && 5; *)
Definition k_and_rhs : prog := [SLet (b "x") (EBin AND (EBool true) (EInt (5)%Z))].
Example k_and_rhs_evaluates : evaluates k_and_rhs = true. Proof. vm_compute. reflexivity. Qed.
Example k_and_rhs_rejected : checker_rejects k_and_rhs = true. Proof. vm_compute. reflexivity. Qed.
Example k_and_rhs_classified : known_c07 k_and_rhs = true. Proof. vm_compute. reflexivity. Qed.

(* K10
     let x = false || "s"; *)
Definition k_or_rhs : prog := [SLet (b "x") (EBin OR (EBool false) (EStr (b "s")))].
Example k_or_rhs_evaluates : evaluates k_or_rhs = true. Proof. vm_compute. reflexivity. Qed.
Example k_or_rhs_rejected : checker_rejects k_or_rhs = true. Proof. vm_compute. reflexivity. Qed.
Example k_or_rhs_classified : known_c07 k_or_rhs = true. Proof. vm_compute. reflexivity. Qed.

(* N7: the right operand of && / || is checked although it is never evaluated
     let n = false && (not 5); *)
Definition n_shortcircuit : prog := [SLet (b "n") (EBin AND (EBool false) (EGroup (ENot (EInt (5)%Z))))].
Example n_shortcircuit_evaluates : evaluates n_shortcircuit = true. Proof. vm_compute. reflexivity. Qed.
Example n_shortcircuit_rejected : checker_rejects n_shortcircuit = true. Proof. vm_compute. reflexivity. Qed.
Example n_shortcircuit_classified : known_c07 n_shortcircuit = false /\ known_c07_wide n_shortcircuit = true. Proof. split; vm_compute; reflexivity. Qed.

(* N2: select merges its arms with `equivalent`: {a} hides {a, b}
     let r = (select ("y", 0) => {x = {a = 1}, y = {a = 1, b = "s"}}).b; *)
Definition n_select_equivalent : prog := [SLet (b "r") (EBin DOT (EGroup (ESelect (EStr (b "y")) (Some (EInt (0)%Z)) [((b "x"), (ETuple [((b "a"), (EInt (1)%Z))])); ((b "y"), (ETuple [((b "a"), (EInt (1)%Z)); ((b "b"), (EStr (b "s")))]))])) (ESym (b "b")))].
Example n_select_equivalent_evaluates : evaluates n_select_equivalent = true. Proof. vm_compute. reflexivity. Qed.
Example n_select_equivalent_rejected : checker_rejects n_select_equivalent = true. Proof. vm_compute. reflexivity. Qed.
Example n_select_equivalent_not_classified : known_c07_wide n_select_equivalent = false. Proof. vm_compute. reflexivity. Qed.

(* N4: a parameter is narrowed by a branch of the body that this call does not execute
     let f = func(x) => select (x is "int", "s") => {"true" = x + 1}; let r = f("a"); *)
Definition n_param_branch : prog := [SLet (b "f") (EFunc [(b "x")] (ESelect (EBin IS (ESym (b "x")) (EStr (b "int"))) (Some (EStr (b "s"))) [((b "true"), (EBin Add (ESym (b "x")) (EInt (1)%Z)))])); SLet (b "r") (ECall (ESym (b "f")) [(EStr (b "a"))])].
Example n_param_branch_evaluates : evaluates n_param_branch = true. Proof. vm_compute. reflexivity. Qed.
Example n_param_branch_rejected : checker_rejects n_param_branch = true. Proof. vm_compute. reflexivity. Qed.
Example n_param_branch_not_classified : known_c07_wide n_param_branch = false. Proof. vm_compute. reflexivity. Qed.

(* ---- former Known classes: evaluate under Sem.v AND are accepted by the checker now ---- *)
(* K3 (34a8887)
     let r = map(func(k,v) => [k,v], {a=1}); *)
Definition a_map_tuple : prog := [SLet (b "r") (EMap (EFunc [(b "k"); (b "v")] (EList [(ESym (b "k")); (ESym (b "v"))])) (ETuple [((b "a"), (EInt (1)%Z))]))].
Example a_map_tuple_evaluates : evaluates a_map_tuple = true. Proof. vm_compute. reflexivity. Qed.
Example a_map_tuple_accepted : checker_accepts a_map_tuple = true. Proof. vm_compute. reflexivity. Qed.
Example a_map_tuple_unclassified : known_c07_wide a_map_tuple = false. Proof. vm_compute. reflexivity. Qed.

(* K3
     let r = map(func(c) => c, "abc"); *)
Definition a_map_str : prog := [SLet (b "r") (EMap (EFunc [(b "c")] (ESym (b "c"))) (EStr (b "abc")))].
Example a_map_str_evaluates : evaluates a_map_str = true. Proof. vm_compute. reflexivity. Qed.
Example a_map_str_accepted : checker_accepts a_map_str = true. Proof. vm_compute. reflexivity. Qed.
Example a_map_str_unclassified : known_c07_wide a_map_str = false. Proof. vm_compute. reflexivity. Qed.

(* K3
     let r = filter(func(c) => true, "abc"); *)
Definition a_filter_str : prog := [SLet (b "r") (EFilter (EFunc [(b "c")] (EBool true)) (EStr (b "abc")))].
Example a_filter_str_evaluates : evaluates a_filter_str = true. Proof. vm_compute. reflexivity. Qed.
Example a_filter_str_accepted : checker_accepts a_filter_str = true. Proof. vm_compute. reflexivity. Qed.
Example a_filter_str_unclassified : known_c07_wide a_filter_str = false. Proof. vm_compute. reflexivity. Qed.

(* K3
     let r = reduce(func(acc, c) => acc + c, "", "abc"); *)
Definition a_reduce_str : prog := [SLet (b "r") (EReduce (EFunc [(b "acc"); (b "c")] (EBin Add (ESym (b "acc")) (ESym (b "c")))) (EStr (b "")) (EStr (b "abc")))].
Example a_reduce_str_evaluates : evaluates a_reduce_str = true. Proof. vm_compute. reflexivity. Qed.
Example a_reduce_str_accepted : checker_accepts a_reduce_str = true. Proof. vm_compute. reflexivity. Qed.
Example a_reduce_str_unclassified : known_c07_wide a_reduce_str = false. Proof. vm_compute. reflexivity. Qed.

(* K3
     let r = reduce(func(acc, k, v) => acc + v, 0, {a=1}); *)
Definition a_reduce_tuple : prog := [SLet (b "r") (EReduce (EFunc [(b "acc"); (b "k"); (b "v")] (EBin Add (ESym (b "acc")) (ESym (b "v")))) (EInt (0)%Z) (ETuple [((b "a"), (EInt (1)%Z))]))].
Example a_reduce_tuple_evaluates : evaluates a_reduce_tuple = true. Proof. vm_compute. reflexivity. Qed.
Example a_reduce_tuple_accepted : checker_accepts a_reduce_tuple = true. Proof. vm_compute. reflexivity. Qed.
Example a_reduce_tuple_unclassified : known_c07_wide a_reduce_tuple = false. Proof. vm_compute. reflexivity. Qed.

(* K4 (34a8887, bcbae8d)
     let r = map(func(x) => x, [[1]].0); *)
Definition a_map_narrowed : prog := [SLet (b "r") (EMap (EFunc [(b "x")] (ESym (b "x"))) (EBin DOT (EList [(EList [(EInt (1)%Z)])]) (EInt (0)%Z)))].
Example a_map_narrowed_evaluates : evaluates a_map_narrowed = true. Proof. vm_compute. reflexivity. Qed.
Example a_map_narrowed_accepted : checker_accepts a_map_narrowed = true. Proof. vm_compute. reflexivity. Qed.
Example a_map_narrowed_unclassified : known_c07_wide a_map_narrowed = false. Proof. vm_compute. reflexivity. Qed.

(* K4
     let r = filter(func(x) => true, select (true) => {"true" = [1], "false" = []}); *)
Definition a_filter_select : prog := [SLet (b "r") (EFilter (EFunc [(b "x")] (EBool true)) (ESelect (EBool true) None [((b "true"), (EList [(EInt (1)%Z)])); ((b "false"), (EList []))]))].
Example a_filter_select_evaluates : evaluates a_filter_select = true. Proof. vm_compute. reflexivity. Qed.
Example a_filter_select_accepted : checker_accepts a_filter_select = true. Proof. vm_compute. reflexivity. Qed.
Example a_filter_select_unclassified : known_c07_wide a_filter_select = false. Proof. vm_compute. reflexivity. Qed.

(* K5 (1140c06)
     let r = (select ("x", 1) => {a = "s"}) + 1; *)
Definition a_select_default : prog := [SLet (b "r") (EBin Add (EGroup (ESelect (EStr (b "x")) (Some (EInt (1)%Z)) [((b "a"), (EStr (b "s")))])) (EInt (1)%Z))].
Example a_select_default_evaluates : evaluates a_select_default = true. Proof. vm_compute. reflexivity. Qed.
Example a_select_default_accepted : checker_accepts a_select_default = true. Proof. vm_compute. reflexivity. Qed.
Example a_select_default_unclassified : known_c07_wide a_select_default = false. Proof. vm_compute. reflexivity. Qed.

(* K6 (f1505ba)
     let a = 1; let f = func(a) => a + "s"; let r = f("x"); *)
Definition a_param_shadow : prog := [SLet (b "a") (EInt (1)%Z); SLet (b "f") (EFunc [(b "a")] (EBin Add (ESym (b "a")) (EStr (b "s")))); SLet (b "r") (ECall (ESym (b "f")) [(EStr (b "x"))])].
Example a_param_shadow_evaluates : evaluates a_param_shadow = true. Proof. vm_compute. reflexivity. Qed.
Example a_param_shadow_accepted : checker_accepts a_param_shadow = true. Proof. vm_compute. reflexivity. Qed.
Example a_param_shadow_unclassified : known_c07_wide a_param_shadow = false. Proof. vm_compute. reflexivity. Qed.

(* K7 (9d31dcf)
     let t = {f = func(x) => x}; let r = t.f(1); *)
Definition a_method_call : prog := [SLet (b "t") (ETuple [((b "f"), (EFunc [(b "x")] (ESym (b "x"))))]); SLet (b "r") (EBin DOT (ESym (b "t")) (ECall (ESym (b "f")) [(EInt (1)%Z)]))].
Example a_method_call_evaluates : evaluates a_method_call = true. Proof. vm_compute. reflexivity. Qed.
Example a_method_call_accepted : checker_accepts a_method_call = true. Proof. vm_compute. reflexivity. Qed.
Example a_method_call_unclassified : known_c07_wide a_method_call = false. Proof. vm_compute. reflexivity. Qed.

(* K8 (05372e0)
     let b0 = {a=1}; let x = b0{a=NULL}; let y = x{a="s"}; let z = y.a + "t"; *)
Definition a_copy_null : prog := [SLet (b "b0") (ETuple [((b "a"), (EInt (1)%Z))]); SLet (b "x") (ECopy (ESym (b "b0")) [((b "a"), ENull)]); SLet (b "y") (ECopy (ESym (b "x")) [((b "a"), (EStr (b "s")))]); SLet (b "z") (EBin Add (EBin DOT (ESym (b "y")) (ESym (b "a"))) (EStr (b "t")))].
Example a_copy_null_evaluates : evaluates a_copy_null = true. Proof. vm_compute. reflexivity. Qed.
Example a_copy_null_accepted : checker_accepts a_copy_null = true. Proof. vm_compute. reflexivity. Qed.
Example a_copy_null_unclassified : known_c07_wide a_copy_null = false. Proof. vm_compute. reflexivity. Qed.

(* K9 (30b36ca)
     let l = [{a = 1}]; let m = [l.0]; let r = m.0.a; *)
Definition a_nested_narrowed : prog := [SLet (b "l") (EList [(ETuple [((b "a"), (EInt (1)%Z))])]); SLet (b "m") (EList [(EBin DOT (ESym (b "l")) (EInt (0)%Z))]); SLet (b "r") (EBin DOT (EBin DOT (ESym (b "m")) (EInt (0)%Z)) (ESym (b "a")))].
Example a_nested_narrowed_evaluates : evaluates a_nested_narrowed = true. Proof. vm_compute. reflexivity. Qed.
Example a_nested_narrowed_accepted : checker_accepts a_nested_narrowed = true. Proof. vm_compute. reflexivity. Qed.
Example a_nested_narrowed_unclassified : known_c07_wide a_nested_narrowed = false. Proof. vm_compute. reflexivity. Qed.

(* K9
     let l = [[1]]; let m = [l.0]; let n = m.0; let r = n.0; *)
Definition a_nested_narrowed_index : prog := [SLet (b "l") (EList [(EList [(EInt (1)%Z)])]); SLet (b "m") (EList [(EBin DOT (ESym (b "l")) (EInt (0)%Z))]); SLet (b "n") (EBin DOT (ESym (b "m")) (EInt (0)%Z)); SLet (b "r") (EBin DOT (ESym (b "n")) (EInt (0)%Z))].
Example a_nested_narrowed_index_evaluates : evaluates a_nested_narrowed_index = true. Proof. vm_compute. reflexivity. Qed.
Example a_nested_narrowed_index_accepted : checker_accepts a_nested_narrowed_index = true. Proof. vm_compute. reflexivity. Qed.
Example a_nested_narrowed_index_unclassified : known_c07_wide a_nested_narrowed_index = false. Proof. vm_compute. reflexivity. Qed.

(* N1 (7412af6)
     let f = func(x) => x; let x = 1; let r = f("s"); let y = x + 1; *)
Definition a_call_outer_binding : prog := [SLet (b "f") (EFunc [(b "x")] (ESym (b "x"))); SLet (b "x") (EInt (1)%Z); SLet (b "r") (ECall (ESym (b "f")) [(EStr (b "s"))]); SLet (b "y") (EBin Add (ESym (b "x")) (EInt (1)%Z))].
Example a_call_outer_binding_evaluates : evaluates a_call_outer_binding = true. Proof. vm_compute. reflexivity. Qed.
Example a_call_outer_binding_accepted : checker_accepts a_call_outer_binding = true. Proof. vm_compute. reflexivity. Qed.
Example a_call_outer_binding_unclassified : known_c07_wide a_call_outer_binding = false. Proof. vm_compute. reflexivity. Qed.

(* N3 (a3555a1)
     let l = [true]; let r = not ([l.0].0); *)
Definition a_not_nested : prog := [SLet (b "l") (EList [(EBool true)]); SLet (b "r") (ENot (EGroup (EBin DOT (EList [(EBin DOT (ESym (b "l")) (EInt (0)%Z))]) (EInt (0)%Z))))].
Example a_not_nested_evaluates : evaluates a_not_nested = true. Proof. vm_compute. reflexivity. Qed.
Example a_not_nested_accepted : checker_accepts a_not_nested = true. Proof. vm_compute. reflexivity. Qed.
Example a_not_nested_unclassified : known_c07_wide a_not_nested = false. Proof. vm_compute. reflexivity. Qed.

(* N5 (bcbae8d)
     let s = select ("a", "zz") => {a = "abc"}; let r = map(func(c) => c, s); let q = r + "x"; *)
Definition a_map_select_str : prog := [SLet (b "s") (ESelect (EStr (b "a")) (Some (EStr (b "zz"))) [((b "a"), (EStr (b "abc")))]); SLet (b "r") (EMap (EFunc [(b "c")] (ESym (b "c"))) (ESym (b "s"))); SLet (b "q") (EBin Add (ESym (b "r")) (EStr (b "x")))].
Example a_map_select_str_evaluates : evaluates a_map_select_str = true. Proof. vm_compute. reflexivity. Qed.
Example a_map_select_str_accepted : checker_accepts a_map_select_str = true. Proof. vm_compute. reflexivity. Qed.
Example a_map_select_str_unclassified : known_c07_wide a_map_select_str = false. Proof. vm_compute. reflexivity. Qed.

(* N6 (a1564a2, 4c78d26)
     let r = "a" + filter(func(c) => true, map(func(c) => c, "bc")); *)
Definition a_filter_any : prog := [SLet (b "r") (EBin Add (EStr (b "a")) (EFilter (EFunc [(b "c")] (EBool true)) (EMap (EFunc [(b "c")] (ESym (b "c"))) (EStr (b "bc")))))].
Example a_filter_any_evaluates : evaluates a_filter_any = true. Proof. vm_compute. reflexivity. Qed.
Example a_filter_any_accepted : checker_accepts a_filter_any = true. Proof. vm_compute. reflexivity. Qed.
Example a_filter_any_unclassified : known_c07_wide a_filter_any = false. Proof. vm_compute. reflexivity. Qed.

(* ---- programs of fragment_prog (covered by check_sound_prog) ---- *)
(* let id = func(x) => x; let t = {f = id, m = {a = 1}}; let r = t.f(1); let c = t.m{a = 2}; *)
Definition f_method : prog := [SLet (b "id") (EFunc [(b "x")] (ESym (b "x"))); SLet (b "t") (ETuple [((b "f"), (ESym (b "id"))); ((b "m"), (ETuple [((b "a"), (EInt (1)%Z))]))]); SLet (b "r") (EBin DOT (ESym (b "t")) (ECall (ESym (b "f")) [(EInt (1)%Z)])); SLet (b "c") (EBin DOT (ESym (b "t")) (ECopy (ESym (b "m")) [((b "a"), (EInt (2)%Z))]))].
Example f_method_in_fragment : fragment_prog [] f_method = true. Proof. vm_compute. reflexivity. Qed.
Example f_method_evaluates : evaluates f_method = true. Proof. vm_compute. reflexivity. Qed.
Example f_method_accepted : checker_accepts f_method = true. Proof. vm_compute. reflexivity. Qed.

(* let k = "x"; let r = (select (k, 1) => {a = 2, b = 3}) + 1; let s = select (k, {a = 1}) => {y = {b = "s"}}; let q = s.a; *)
Definition f_select : prog := [SLet (b "k") (EStr (b "x")); SLet (b "r") (EBin Add (EGroup (ESelect (ESym (b "k")) (Some (EInt (1)%Z)) [((b "a"), (EInt (2)%Z)); ((b "b"), (EInt (3)%Z))])) (EInt (1)%Z)); SLet (b "s") (ESelect (ESym (b "k")) (Some (ETuple [((b "a"), (EInt (1)%Z))])) [((b "y"), (ETuple [((b "b"), (EStr (b "s")))]))]); SLet (b "q") (EBin DOT (ESym (b "s")) (ESym (b "a")))].
Example f_select_in_fragment : fragment_prog [] f_select = true. Proof. vm_compute. reflexivity. Qed.
Example f_select_evaluates : evaluates f_select = true. Proof. vm_compute. reflexivity. Qed.
Example f_select_accepted : checker_accepts f_select = true. Proof. vm_compute. reflexivity. Qed.

(* let l = [{a = 1}, {a = 2}]; let m = [l.0]; let r = m.0.a; let n = filter(func(x) => true, l); let e = n.0.a; *)
Definition f_lists : prog := [SLet (b "l") (EList [(ETuple [((b "a"), (EInt (1)%Z))]); (ETuple [((b "a"), (EInt (2)%Z))])]); SLet (b "m") (EList [(EBin DOT (ESym (b "l")) (EInt (0)%Z))]); SLet (b "r") (EBin DOT (EBin DOT (ESym (b "m")) (EInt (0)%Z)) (ESym (b "a"))); SLet (b "n") (EFilter (EFunc [(b "x")] (EBool true)) (ESym (b "l"))); SLet (b "e") (EBin DOT (EBin DOT (ESym (b "n")) (EInt (0)%Z)) (ESym (b "a")))].
Example f_lists_in_fragment : fragment_prog [] f_lists = true. Proof. vm_compute. reflexivity. Qed.
Example f_lists_evaluates : evaluates f_lists = true. Proof. vm_compute. reflexivity. Qed.
Example f_lists_accepted : checker_accepts f_lists = true. Proof. vm_compute. reflexivity. Qed.

(* let t = {a = 1}; let r = map(func(k, v) => [k, v], t); let s = filter(func(c) => true, "abc") + "x"; let u = map(func(c) => c, "abc"); *)
Definition f_mapfilter : prog := [SLet (b "t") (ETuple [((b "a"), (EInt (1)%Z))]); SLet (b "r") (EMap (EFunc [(b "k"); (b "v")] (EList [(ESym (b "k")); (ESym (b "v"))])) (ESym (b "t"))); SLet (b "s") (EBin Add (EFilter (EFunc [(b "c")] (EBool true)) (EStr (b "abc"))) (EStr (b "x"))); SLet (b "u") (EMap (EFunc [(b "c")] (ESym (b "c"))) (EStr (b "abc")))].
Example f_mapfilter_in_fragment : fragment_prog [] f_mapfilter = true. Proof. vm_compute. reflexivity. Qed.
Example f_mapfilter_evaluates : evaluates f_mapfilter = true. Proof. vm_compute. reflexivity. Qed.
Example f_mapfilter_accepted : checker_accepts f_mapfilter = true. Proof. vm_compute. reflexivity. Qed.


(* ---- C07: a program of the fragment ---- *)
Definition frag_prog : prog :=
  [SLet (b "t") (ETuple [(b "a", EInt 1%Z); (b "s", EStr (b "x"))]);
   SLet (b "n") (EBin Add (EBin DOT (ESym (b "t")) (ESym (b "a"))) (EInt 2%Z));
   SLet (b "ok") (ENot (EBin GT (ESym (b "n")) (EInt 5%Z)));
   SLet (b "l") (EList [ESym (b "n"); ECast CInt (EStr (b "7"))])].
Example frag_prog_in_fragment : fragment_prog [] frag_prog = true. Proof. vm_compute. reflexivity. Qed.
Example frag_prog_evaluates : evaluates frag_prog = true. Proof. vm_compute. reflexivity. Qed.
Example frag_prog_accepted : checker_accepts frag_prog = true. Proof. vm_compute. reflexivity. Qed.
Example frag_prog_unclassified : known_c07_wide frag_prog = false. Proof. vm_compute. reflexivity. Qed.

(* ---- the run-time exemplar check (761a6c7): whatever was bound to y, `let x :: 0 = y;` binds an int only ---- *)
Definition env_str : renv bits_ops := [(b "y", @RStr bits_ops (b "s"))].
Definition env_int : renv bits_ops := [(b "y", @RInt bits_ops 7%Z)].
Definition let_x_int_y : cstmt := CLet (b "x") (Some (CPlain (EInt 0%Z))) (ESym (b "y")).
Definition stmt_ok (s : cstmt) (re : renv bits_ops) : bool :=
  match run_stmt bits_ops s re with Ok _ => true | _ => false end.
Example runtime_exemplar_rejects : stmt_ok let_x_int_y env_str = false.
Proof. vm_compute. reflexivity. Qed.
Example runtime_exemplar_accepts : stmt_ok let_x_int_y env_int = true.
Proof. vm_compute. reflexivity. Qed.
(* {a = 0, b = ""} against {a = 1}: a field subset conforms; against {a = 1, c = 2}: incomparable field sets *)
Example runtime_exemplar_tuple :
  runtime_ok bits_ops (VExemplar (VTuple [(b "a", vi 0); (b "b", vs "")])) (VTuple [(b "a", vi 1)]) = true
  /\ runtime_ok bits_ops (VExemplar (VTuple [(b "a", vi 0); (b "b", vs "")])) (VTuple [(b "a", vi 1); (b "c", vi 2)]) = false.
Proof. split; vm_compute; reflexivity. Qed.
