(* Proofs about the shape model (Shape.v): C06 (constraints admit exactly the conforming values)
   and the C07 pieces (inhabitation, narrowing of two shapes of one value, soundness of derive). *)
From Ucg Require Import base.Bytes_Lemmas shape.Shape.

(* ------------------------------------------------------------------------------------------ *)
(* 0. small facts                                                                              *)
(* ------------------------------------------------------------------------------------------ *)

Lemma bytes_eqb_sym x y : bytes_eqb x y = bytes_eqb y x.
Proof.
  destruct (bytes_eqb x y) eqn:E.
  - apply bytes_eqb_spec in E. subst. symmetry. apply bytes_eqb_refl.
  - destruct (bytes_eqb y x) eqn:E'; auto. apply bytes_eqb_spec in E'. subst.
    rewrite bytes_eqb_refl in E. discriminate.
Qed.

Lemma forallb_ext_in {A} (f g : A -> bool) l : (forall x, In x l -> f x = g x) -> forallb f l = forallb g l.
Proof. induction l; simpl; intros H; auto. rewrite H by (now left). rewrite IHl by (intros; apply H; now right). reflexivity. Qed.
Lemma existsb_ext_in {A} (f g : A -> bool) l : (forall x, In x l -> f x = g x) -> existsb f l = existsb g l.
Proof. induction l; simpl; intros H; auto. rewrite H by (now left). rewrite IHl by (intros; apply H; now right). reflexivity. Qed.

Lemma bool_eq_iff (a c : bool) : (a = true <-> c = true) -> a = c.
Proof. destruct a, c; intuition congruence. Qed.

(* ------------------------------------------------------------------------------------------ *)
(* 1. the loops of narrow_cached when the recursive call is pure                               *)
(* ------------------------------------------------------------------------------------------ *)

(* the call on (x, y) leaves the state alone and answers "compatible" iff c *)
Definition pure_at (nf : NF) (x y : shape) (c : bool) : Prop :=
  forall s, exists r, nf x y s = (r, s) /\ negb (is_err r) = c.

Section LoopLemmas.
  Variable nf : NF.
  Variable A : Type.
  Variable g : A -> shape.

  Lemma list_elem_match_pure x ys (c : A -> bool) :
    (forall y, In y ys -> pure_at nf x (g y) (c y)) ->
    forall s m, list_elem_match nf x (map g ys) s m = (m || existsb c ys, s).
  Proof.
    induction ys as [|y ys IH]; simpl; intros H s m.
    - now rewrite orb_false_r.
    - destruct (H y (or_introl eq_refl) s) as (r & E & Hc). rewrite E.
      rewrite IH by (intros; apply H; now right). rewrite Hc. now rewrite orb_assoc.
  Qed.

  Lemma list_subset_pure xs ys (c : A -> A -> bool) :
    (forall x y, In x xs -> In y ys -> pure_at nf (g x) (g y) (c x y)) ->
    forall s, list_subset nf (map g xs) (map g ys) s = (forallb (fun x => existsb (c x) ys) xs, s).
  Proof.
    induction xs as [|x xs IH]; simpl; intros H s; auto.
    rewrite (list_elem_match_pure (g x) ys (c x)) by (intros; apply H; auto).
    simpl. destruct (existsb (c x) ys); simpl; auto.
  Qed.

  Lemma any_compat_r_pure other ts (c : A -> bool) :
    (forall t, In t ts -> pure_at nf other (g t) (c t)) ->
    forall s acc, any_compat_r nf (map g ts) other s acc = (acc || existsb c ts, s).
  Proof.
    induction ts as [|t ts IH]; simpl; intros H s acc.
    - now rewrite orb_false_r.
    - destruct (H t (or_introl eq_refl) s) as (r & E & Hc). rewrite E.
      rewrite IH by (intros; apply H; now right). rewrite Hc. now rewrite orb_assoc.
  Qed.

  Definition gf (kv : bytes * A) : bytes * shape := let '(k, x) := kv in (k, g x).

  Lemma tuple_field_match_pure lt ls rs (c : A -> bool) :
    (forall rt y, In (rt, y) rs -> pure_at nf ls (g y) (c y)) ->
    forall s m, tuple_field_match nf lt ls (map gf rs) s m
                = (m || existsb (fun '(rt, y) => bytes_eqb rt lt && c y) rs, s).
  Proof.
    induction rs as [|[rt y] rs IH]; simpl; intros H s m.
    - now rewrite orb_false_r.
    - destruct (bytes_eqb rt lt) eqn:E; simpl.
      + destruct (H rt y (or_introl eq_refl) s) as (r & Er & Hc). rewrite Er.
        rewrite IH by (intros; eapply H; right; eauto). rewrite Hc. now rewrite orb_assoc.
      + apply IH. intros; eapply H; right; eauto.
  Qed.

  Lemma tuple_subset_pure lf rf (c : A -> A -> bool) :
    (forall lt x rt y, In (lt, x) lf -> In (rt, y) rf -> pure_at nf (g x) (g y) (c x y)) ->
    forall s, tuple_subset nf (map gf lf) (map gf rf) s
              = (forallb (fun '(lt, x) => existsb (fun '(rt, y) => bytes_eqb rt lt && c x y) rf) lf, s).
  Proof.
    induction lf as [|[lt x] lf IH]; simpl; intros H s; auto.
    rewrite (tuple_field_match_pure lt (g x) rf (c x)) by (intros; eapply H; eauto).
    simpl. destruct (existsb _ rf); simpl; auto.
    apply IH. intros; eapply H; eauto.
  Qed.
End LoopLemmas.

(* ------------------------------------------------------------------------------------------ *)
(* 2. association lists without repeated keys                                                  *)
(* ------------------------------------------------------------------------------------------ *)
Section Assoc.
  Variable fo : float_ops.
  Notation value := (value fo).
  Notation lookup := (lookup fo).

  Lemma existsb_names_lookup k (fs : list (bytes * value)) :
    existsb (bytes_eqb k) (names fs) = match lookup k fs with Some _ => true | None => false end.
  Proof.
    induction fs as [|[k' x] fs IH]; simpl; auto.
    destruct (bytes_eqb k k'); simpl; auto.
  Qed.

  Lemma nodup_in_lookup (fs : list (bytes * value)) k x :
    nodup_names (names fs) = true -> In (k, x) fs -> lookup k fs = Some x.
  Proof.
    induction fs as [|[k' y] fs IH]; simpl; intros N I; [contradiction|].
    apply andb_true_iff in N. destruct N as [N1 N2].
    destruct I as [I|I].
    - inversion I; subst. now rewrite bytes_eqb_refl.
    - destruct (bytes_eqb k k') eqn:E.
      + apply bytes_eqb_spec in E. subst k'. exfalso.
        apply negb_true_iff in N1.
        assert (existsb (bytes_eqb k) (names fs) = true).
        { apply existsb_exists. exists k. split; [|apply bytes_eqb_refl].
          change k with (fst (k, x)). now apply in_map. }
        congruence.
      + auto.
  Qed.

  Lemma lookup_in (fs : list (bytes * value)) k x : lookup k fs = Some x -> In (k, x) fs.
  Proof.
    induction fs as [|[k' y] fs IH]; simpl; intros H; [discriminate|].
    destruct (bytes_eqb k k') eqn:E.
    - apply bytes_eqb_spec in E. inversion H; subst. now left.
    - right; auto.
  Qed.

  (* with distinct keys "some same-named field satisfies c" is "the looked-up field satisfies c" *)
  Lemma existsb_field_lookup (fs : list (bytes * value)) k (c : value -> bool) :
    nodup_names (names fs) = true ->
    existsb (fun '(rt, y) => bytes_eqb rt k && c y) fs
    = match lookup k fs with Some y => c y | None => false end.
  Proof.
    intros N. apply bool_eq_iff. rewrite existsb_exists. split.
    - intros ([rt y] & I & H). apply andb_true_iff in H. destruct H as [H1 H2].
      apply bytes_eqb_spec in H1. subst rt. now rewrite (nodup_in_lookup _ _ _ N I).
    - destruct (lookup k fs) as [y|] eqn:E; [|discriminate]. intros H.
      exists (k, y). split; [now apply lookup_in|]. now rewrite bytes_eqb_refl.
  Qed.

  (* the two subset tests of narrow_tuple_shapes against the specification wording:
     "agreeing on the fields they share, with one field set contained in the other" *)
  Lemma tuple_subsets_spec (fa fb : list (bytes * value)) (c : value -> value -> bool) :
    nodup_names (names fa) = true -> nodup_names (names fb) = true ->
    forallb (fun '(lt, x) => existsb (fun '(rt, y) => bytes_eqb rt lt && c x y) fb) fa
    || forallb (fun '(rt, y) => existsb (fun '(lt, x) => bytes_eqb lt rt && c x y) fa) fb
    = (subset_names (names fa) (names fb) || subset_names (names fb) (names fa))
      && forallb (fun '(k, x) => match lookup k fb with Some y => c x y | None => true end) fa.
  Proof.
    intros Na Nb.
    set (agree := forallb (fun '(k, x) => match lookup k fb with Some y => c x y | None => true end) fa).
    set (agree' := forallb (fun '(k, y) => match lookup k fa with Some x => c x y | None => true end) fb).
    assert (HA : forallb (fun '(lt, x) => existsb (fun '(rt, y) => bytes_eqb rt lt && c x y) fb) fa
                 = subset_names (names fa) (names fb) && agree).
    { unfold agree, subset_names. clear Na agree'.
      induction fa as [|[k x] fa IH]; simpl; auto.
      rewrite IH. rewrite (existsb_field_lookup fb k (c x) Nb). rewrite existsb_names_lookup.
      destruct (lookup k fb); simpl; auto.
      - destruct (c x v); simpl; auto. now rewrite andb_false_r.
    }
    assert (HB : forallb (fun '(rt, y) => existsb (fun '(lt, x) => bytes_eqb lt rt && c x y) fa) fb
                 = subset_names (names fb) (names fa) && agree').
    { unfold agree', subset_names. clear Nb agree HA.
      induction fb as [|[k y] fb IH]; simpl; auto.
      rewrite IH. rewrite (existsb_field_lookup fa k (fun x => c x y) Na). rewrite existsb_names_lookup.
      destruct (lookup k fa); simpl; auto.
      - destruct (c v y); simpl; auto. now rewrite andb_false_r.
    }
    assert (HG : agree = agree').
    { apply bool_eq_iff. unfold agree, agree'. rewrite !forallb_forall. split.
      - intros H [k y] I. destruct (lookup k fa) as [x|] eqn:E; auto.
        specialize (H (k, x) (lookup_in _ _ _ E)). simpl in H.
        now rewrite (nodup_in_lookup _ _ _ Nb I) in H.
      - intros H [k x] I. destruct (lookup k fb) as [y|] eqn:E; auto.
        specialize (H (k, y) (lookup_in _ _ _ E)). simpl in H.
        now rewrite (nodup_in_lookup _ _ _ Na I) in H. }
    rewrite HA, HB, <- HG.
    destruct (subset_names (names fa) (names fb)), (subset_names (names fb) (names fa)), agree; reflexivity.
  Qed.
End Assoc.

(* ------------------------------------------------------------------------------------------ *)
(* 3. narrowing the shapes of two literal values                                               *)
(* ------------------------------------------------------------------------------------------ *)
Section Ground.
  Variable fo : float_ops.
  Notation value := (value fo).
  Notation sh := (shape_of_value fo).
  Notation same := (same_shape fo true).
  Notation lit := (literal_value fo).

  Lemma shape_size_pos s : 1 <= shape_size s.
  Proof. destruct s; simpl; lia. Qed.

  Lemma in_list_size (l : list value) x :
    In x l -> shape_size (sh x) < shape_size (SList (map sh l)).
  Proof.
    simpl. induction l as [|y l IH]; simpl; intros H; [contradiction|].
    destruct H as [H|H]; [subst; lia|]. specialize (IH H). lia.
  Qed.

  Lemma in_tuple_size (fs : list (bytes * value)) k x :
    In (k, x) fs -> shape_size (sh x) < shape_size (STuple (map (gf value sh) fs)).
  Proof.
    simpl. induction fs as [|[k' y] fs IH]; simpl; intros H; [contradiction|].
    destruct H as [H|H]; [inversion H; subst; lia|]. specialize (IH H). lia.
  Qed.

  Lemma lit_list_in (l : list value) x : lit (VList l) = true -> In x l -> lit x = true.
  Proof. simpl. intros H I. rewrite forallb_forall in H. auto. Qed.
  Lemma lit_tuple_in (fs : list (bytes * value)) k x : lit (VTuple fs) = true -> In (k, x) fs -> lit x = true.
  Proof.
    simpl. intros H I. apply andb_true_iff in H. destruct H as [_ H].
    rewrite forallb_forall in H. apply (H (k, x) I).
  Qed.
  Lemma lit_tuple_nodup (fs : list (bytes * value)) : lit (VTuple fs) = true -> nodup_names (names fs) = true.
  Proof. simpl. intros H. apply andb_true_iff in H. tauto. Qed.

  Lemma sh_tuple (fs : list (bytes * value)) : sh (VTuple fs) = STuple (map (gf value sh) fs).
  Proof. reflexivity. Qed.

  Lemma sh_list (l : list value) : sh (VList l) = SList (map sh l).
  Proof. reflexivity. Qed.

  Ltac prim_case := split; (let st := fresh "st" in intro st); eexists; (split; [reflexivity | reflexivity]).

  (* narrowing two literal shapes, in either order: no state change, and the answer is the
     specification's "same shape" (NULL = any type) *)
  Lemma narrow_lit : forall f (a c : value),
    shape_size (sh a) + shape_size (sh c) <= f ->
    lit a = true -> lit c = true ->
    pure_at (narrow_f f) (sh a) (sh c) (same a c) /\
    pure_at (narrow_f f) (sh c) (sh a) (same a c).
  Proof.
    induction f as [|f IH]; intros a c Hsz La Lc.
    { pose proof (shape_size_pos (sh a)). pose proof (shape_size_pos (sh c)). lia. }
    destruct a as [| | | | |la|fa| |]; try discriminate La;
      destruct c as [| | | | |lc|fc| |]; try discriminate Lc; try prim_case.
    - (* list / list *)
      assert (P1 : forall x y, In x la -> In y lc -> pure_at (narrow_f f) (sh x) (sh y) (same x y)).
      { intros x y Ix Iy. apply IH; eauto using lit_list_in.
        pose proof (in_list_size _ _ Ix). pose proof (in_list_size _ _ Iy).
        rewrite !sh_list in Hsz. lia. }
      assert (P2 : forall y x, In y lc -> In x la -> pure_at (narrow_f f) (sh y) (sh x) (same x y)).
      { intros y x Iy Ix. apply IH; eauto using lit_list_in.
        pose proof (in_list_size _ _ Ix). pose proof (in_list_size _ _ Iy).
        rewrite !sh_list in Hsz. lia. }
      set (A := forallb (fun x => existsb (fun y => same x y) lc) la).
      set (B := forallb (fun y => existsb (fun x => same x y) la) lc).
      assert (E : same (VList la) (VList lc) = A || B) by reflexivity.
      rewrite E. split; intro s; cbn.
      + rewrite (list_subset_pure (narrow_f f) value sh la lc (fun x y => same x y) P1).
        fold A. destruct A; [eexists; split; reflexivity|].
        rewrite (list_subset_pure (narrow_f f) value sh lc la (fun y x => same x y) P2).
        fold B. destruct B; eexists; split; reflexivity.
      + rewrite (list_subset_pure (narrow_f f) value sh lc la (fun y x => same x y) P2).
        fold B. destruct B; [eexists; split; [reflexivity|now rewrite orb_true_r]|].
        rewrite (list_subset_pure (narrow_f f) value sh la lc (fun x y => same x y) P1).
        fold A. destruct A; eexists; split; reflexivity.
    - (* tuple / tuple *)
      assert (P1 : forall lt x rt y, In (lt, x) fa -> In (rt, y) fc ->
                                     pure_at (narrow_f f) (sh x) (sh y) (same x y)).
      { intros lt x rt y Ix Iy. apply IH; eauto using lit_tuple_in.
        pose proof (in_tuple_size _ _ _ Ix). pose proof (in_tuple_size _ _ _ Iy).
        rewrite !sh_tuple in Hsz. lia. }
      assert (P2 : forall rt y lt x, In (rt, y) fc -> In (lt, x) fa ->
                                     pure_at (narrow_f f) (sh y) (sh x) (same x y)).
      { intros rt y lt x Iy Ix. apply IH; eauto using lit_tuple_in.
        pose proof (in_tuple_size _ _ _ Ix). pose proof (in_tuple_size _ _ _ Iy).
        rewrite !sh_tuple in Hsz. lia. }
      set (A := forallb (fun '(lt, x) => existsb (fun '(rt, y) => bytes_eqb rt lt && same x y) fc) fa).
      set (B := forallb (fun '(rt, y) => existsb (fun '(lt, x) => bytes_eqb lt rt && same x y) fa) fc).
      assert (E : same (VTuple fa) (VTuple fc) = A || B).
      { unfold A, B. rewrite (tuple_subsets_spec fo fa fc (fun x y => same x y))
          by eauto using lit_tuple_nodup. reflexivity. }
      rewrite E. rewrite !sh_tuple. split; intro s; cbn.
      + rewrite (tuple_subset_pure (narrow_f f) value sh fa fc (fun x y => same x y) P1).
        fold A. destruct A; [eexists; split; reflexivity|].
        rewrite (tuple_subset_pure (narrow_f f) value sh fc fa (fun y x => same x y) P2).
        fold B. destruct B; eexists; split; reflexivity.
      + rewrite (tuple_subset_pure (narrow_f f) value sh fc fa (fun y x => same x y) P2).
        fold B. destruct B; [eexists; split; [reflexivity|now rewrite orb_true_r]|].
        rewrite (tuple_subset_pure (narrow_f f) value sh fa fc (fun x y => same x y) P1).
        fold A. destruct A; eexists; split; reflexivity.
  Qed.
End Ground.

(* ------------------------------------------------------------------------------------------ *)
(* 4. C06 on values: build_accepts = conforms                                                   *)
(* ------------------------------------------------------------------------------------------ *)
Section C06.
  Variable fo : float_ops.
  Notation value := (value fo).
  Notation sh := (shape_of_value fo).
  Notation rv := (rv_of_value fo).
  Notation same := (same_shape fo true).
  Notation lit := (literal_value fo).

  (* induction on values through the nested lists *)
  Section ValueInd.
    Variable P : value -> Prop.
    Hypothesis Hnull : P VNull.
    Hypothesis Hbool : forall x, P (VBool x).
    Hypothesis Hint : forall z, P (VInt z).
    Hypothesis Hfloat : forall x, P (VFloat x).
    Hypothesis Hstr : forall s, P (VStr s).
    Hypothesis Hlist : forall l, Forall P l -> P (VList l).
    Hypothesis Htuple : forall fs, Forall (fun kv => P (snd kv)) fs -> P (VTuple fs).
    Hypothesis Hfunc : forall ps body clo, P (VFunc ps body clo).
    Hypothesis Hmodule : forall ps out body, P (VModule ps out body).
    Fixpoint value_ind2 (v : value) : P v :=
      match v with
      | VNull => Hnull | VBool x => Hbool x | VInt z => Hint z | VFloat x => Hfloat x | VStr s => Hstr s
      | VList l => Hlist l ((fix go (l : list value) : Forall P l :=
                               match l with
                               | [] => Forall_nil _
                               | x :: l' => Forall_cons _ (value_ind2 x) (go l')
                               end) l)
      | VTuple fs => Htuple fs ((fix go (fs : list (bytes * value)) : Forall (fun kv => P (snd kv)) fs :=
                                   match fs with
                                   | [] => Forall_nil _
                                   | kv :: fs' => Forall_cons _ (value_ind2 (snd kv)) (go fs')
                                   end) fs)
      | VFunc ps body clo => Hfunc ps body clo
      | VModule ps out body => Hmodule ps out body
      end.
  End ValueInd.

  Lemma narrow_fuel_ge st l r : shape_size l + shape_size r <= narrow_fuel st l r.
  Proof. unfold narrow_fuel. nia. Qed.

  (* the static half for an exemplar, under any symbol table *)
  Lemma narrow_st_lit st ex v :
    lit ex = true -> lit v = true ->
    exists r, narrow_st st (sh v) (sh ex) = (r, st) /\ negb (is_err r) = same ex v.
  Proof.
    intros Le Lv. unfold narrow_st.
    destruct (narrow_lit fo (narrow_fuel st (sh v) (sh ex)) ex v) as [_ H]; auto.
    { pose proof (narrow_fuel_ge st (sh v) (sh ex)). lia. }
    destruct (H (mk_nst st [])) as (r & E & C). rewrite E. simpl. eauto.
  Qed.

  Lemma static_ok_exemplar ex v :
    lit ex = true -> lit v = true -> static_ok fo (VExemplar ex) v = same ex v.
  Proof.
    intros Le Lv. unfold static_ok, narrow. simpl vshape_of_constraint.
    destruct (narrow_st_lit [] ex v Le Lv) as (r & E & C). rewrite E. exact C.
  Qed.

  (* ---- alternations: the static half ---- *)
  Definition arm_witness (a : varm fo) : value :=
    match a with
    | VRange (Some lo) _ => lo
    | VRange None (Some hi) => hi
    | VRange None None => VNull
    | VExact v => v
    end.
  Definition is_null (v : value) : bool := match v with VNull => true | _ => false end.

  Lemma num_lit (v : value) : is_num fo v = true -> lit v = true.
  Proof. destruct v; simpl; auto; discriminate. Qed.

  Lemma arm_witness_lit a : arm_grammar fo a = true -> lit (arm_witness a) = true.
  Proof.
    destruct a as [[lo|] [hi|]|v]; simpl; auto.
    - destruct lo, hi; simpl; auto; discriminate.
    - apply num_lit.
    - apply num_lit.
  Qed.

  Lemma arm_shapes arms :
    forallb (arm_grammar fo) arms = true ->
    map (fun a => match a with
                  | VRange (Some lo) _ => sh lo
                  | VRange None (Some hi) => sh hi
                  | VRange None None => SErr EType
                  | VExact v => sh v end) arms
    = map sh (map arm_witness arms).
  Proof.
    intros H. rewrite map_map. apply map_ext_in. intros a I.
    rewrite forallb_forall in H. specialize (H a I).
    destruct a as [[lo|] [hi|]|v]; simpl in *; auto; discriminate.
  Qed.

  Lemma narrow_f_cands_r f l t ts s :
    is_err l = false -> ref_name l = None -> hole_name l = None -> is_any l = false ->
    is_empty_narrowed l = false -> cands l = None ->
    narrow_f (S f) l (SNarrowed (t :: ts)) s
    = let '(ok, s1) := any_compat_r (narrow_f f) (t :: ts) l s false in ((if ok then l else SErr EType), s1).
  Proof.
    intros. destruct l; try discriminate; try (destruct ts0; discriminate); reflexivity.
  Qed.

  Lemma lit_shape_class v :
    lit v = true -> is_null v = false ->
    is_err (sh v) = false /\ ref_name (sh v) = None /\ hole_name (sh v) = None /\ is_any (sh v) = false
    /\ is_empty_narrowed (sh v) = false /\ cands (sh v) = None.
  Proof. destruct v; simpl; intros; try discriminate; repeat split; reflexivity. Qed.

  Lemma in_narrowed_size (l : list value) x :
    In x l -> shape_size (sh x) < shape_size (SNarrowed (map sh l)).
  Proof.
    simpl. induction l as [|y l IH]; simpl; intros H; [contradiction|].
    destruct H as [H|H]; [subst; lia|]. specialize (IH H). lia.
  Qed.

  Lemma narrow_st_narrowed st (ws : list value) v :
    forallb lit ws = true -> lit v = true -> ws <> [] ->
    exists r, narrow_st st (sh v) (SNarrowed (map sh ws)) = (r, st)
              /\ negb (is_err r) = is_null v || existsb (fun w => same w v) ws.
  Proof.
    intros Lw Lv Hne. unfold narrow_st.
    pose proof (narrow_fuel_ge st (sh v) (SNarrowed (map sh ws))) as Hf.
    destruct (narrow_fuel st (sh v) (SNarrowed (map sh ws))) as [|f] eqn:Ef.
    { pose proof (shape_size_pos (sh v)). lia. }
    destruct (is_null v) eqn:Nv.
    { destruct v; try discriminate. eexists. split; reflexivity. }
    destruct ws as [|w ws]; [congruence|].
    destruct (lit_shape_class v Lv Nv) as (C1 & C2 & C3 & C4 & C5 & C6).
    change (map sh (w :: ws)) with (sh w :: map sh ws).
    rewrite narrow_f_cands_r by assumption.
    change (sh w :: map sh ws) with (map sh (w :: ws)).
    rewrite (any_compat_r_pure (narrow_f f) value sh (sh v) (w :: ws) (fun x => same x v)).
    - simpl. eexists. split; [reflexivity|].
      destruct (same w v || existsb (fun x => same x v) ws); simpl; [now rewrite C1|reflexivity].
    - intros t It. apply (narrow_lit fo f t v); auto.
      + pose proof (in_narrowed_size _ _ It). lia.
      + rewrite forallb_forall in Lw. auto.
  Qed.

  Lemma static_narrowed (ws : list value) v :
    forallb lit ws = true -> lit v = true -> ws <> [] ->
    negb (is_err (narrow [] (sh v) (SNarrowed (map sh ws)))) = is_null v || existsb (fun w => same w v) ws.
  Proof.
    intros Lw Lv Hne. unfold narrow.
    destruct (narrow_st_narrowed [] ws v Lw Lv Hne) as (r & E & C). rewrite E. exact C.
  Qed.

  Lemma static_alt arms v :
    forallb (arm_grammar fo) arms = true -> lit v = true -> 2 <= List.length arms ->
    static_ok fo (VAlt arms) v = is_null v || existsb (fun a => same (arm_witness a) v) arms.
  Proof.
    intros G Lv Hlen. unfold static_ok. simpl vshape_of_constraint.
    rewrite (arm_shapes arms G).
    destruct arms as [|a1 [|a2 arms]]; simpl in Hlen; try lia.
    change (match map sh (map arm_witness (a1 :: a2 :: arms)) with
            | [x] => x | _ => SNarrowed (map sh (map arm_witness (a1 :: a2 :: arms))) end)
      with (SNarrowed (map sh (map arm_witness (a1 :: a2 :: arms)))).
    rewrite static_narrowed; auto.
    - f_equal. apply bool_eq_iff. rewrite !existsb_exists. split.
      + intros (w & I & H). apply in_map_iff in I. destruct I as (a & <- & Ia). eauto.
      + intros (a & Ia & H). exists (arm_witness a). split; auto. now apply in_map.
    - rewrite forallb_forall. intros w I. apply in_map_iff in I. destruct I as (a & <- & Ia).
      apply arm_witness_lit. rewrite forallb_forall in G. auto.
    - discriminate.
  Qed.

  Lemma static_single_range lo hi v :
    range_ok fo lo hi = true -> lit v = true ->
    static_ok fo (VAlt [VRange lo hi]) v = same (arm_witness (VRange lo hi)) v.
  Proof.
    intros G Lv.
    assert (Lw : lit (arm_witness (VRange lo hi)) = true) by (apply arm_witness_lit; exact G).
    unfold static_ok, narrow.
    replace (vshape_of_constraint fo (VAlt [VRange lo hi])) with (sh (arm_witness (VRange lo hi))).
    - destruct (narrow_st_lit [] _ v Lw Lv) as (r & E & C). rewrite E. exact C.
    - destruct lo, hi; simpl in *; auto; discriminate.
  Qed.

  (* ---- equality: the VM's Val::equal on literal values is the specification's equality ---- *)
  Definition eqres (o : option bool) : bool := match o with Some true => true | _ => false end.

  Lemma rv_list_eq_spec (x : list value) :
    Forall (fun v => forall w, lit v = true -> lit w = true ->
                               eqres (rv_equal fo (rv v) (rv w)) = val_eqb fo v w) x ->
    forall y,
      eqres (if negb (Nat.eqb (List.length x) (List.length y)) then Some false
             else rv_list_eq fo (fun v w => rv_equal fo v w) (map rv x) (map rv y))
      = val_list_eqb fo (fun v w => val_eqb fo v w) x y
      \/ (forallb lit x && forallb lit y = false).
  Proof.
    induction 1 as [|v x Hv Hx IH]; intros y; destruct y as [|w y]; simpl; auto.
    destruct (lit v) eqn:Lv; simpl; auto. destruct (lit w) eqn:Lw; simpl; auto.
    2:{ right. now rewrite andb_false_r. }
    destruct (IH y) as [E|E]; [|right; exact E]. left.
    rewrite <- E, <- (Hv w eq_refl Lw).
    destruct (negb (Nat.eqb (List.length x) (List.length y))).
    - simpl. now rewrite andb_false_r.
    - destruct (rv_equal fo (rv v) (rv w)) as [[|]|]; reflexivity.
  Qed.

  Lemma rv_fields_eq_spec (x : list (bytes * value)) :
    Forall (fun kv => forall w, lit (snd kv) = true -> lit w = true ->
                                eqres (rv_equal fo (rv (snd kv)) (rv w)) = val_eqb fo (snd kv) w) x ->
    forall y,
      eqres (if negb (Nat.eqb (List.length x) (List.length y)) then Some false
             else rv_fields_eq fo (fun v w => rv_equal fo v w)
                               (map (fun '(k, v) => (k, rv v)) x) (map (fun '(k, v) => (k, rv v)) y))
      = val_fields_eqb fo (fun v w => val_eqb fo v w) x y
      \/ (forallb (fun '(_, v) => lit v) x && forallb (fun '(_, v) => lit v) y = false).
  Proof.
    induction 1 as [|[k v] x Hv Hx IH]; intros y; destruct y as [|[k' w] y]; simpl; auto.
    simpl in Hv.
    destruct (lit v) eqn:Lv; simpl; auto. destruct (lit w) eqn:Lw; simpl; auto.
    2:{ right. now rewrite andb_false_r. }
    destruct (IH y) as [E|E]; [|right; exact E]. left.
    rewrite <- E, <- (Hv w eq_refl Lw).
    destruct (negb (Nat.eqb (List.length x) (List.length y))).
    - simpl. now rewrite !andb_false_r.
    - destruct (bytes_eqb k k'); simpl; auto.
      destruct (rv_equal fo (rv v) (rv w)) as [[|]|]; reflexivity.
  Qed.

  Lemma eqres_some c : eqres (Some c) = c.
  Proof. destruct c; reflexivity. Qed.

  Lemma rv_equal_val_eqb : forall v w, lit v = true -> lit w = true ->
    eqres (rv_equal fo (rv v) (rv w)) = val_eqb fo v w.
  Proof.
    induction v as [| | | | |l IH|fs IH| |] using value_ind2; intros w Lv Lw;
      destruct w as [| | | | |l'|fs'| |]; try discriminate; try reflexivity;
        try (simpl; apply eqres_some).
    - simpl rv_of_value. simpl rv_equal. rewrite !map_length.
      destruct (rv_list_eq_spec l IH l') as [E|E]; [exact E|].
      simpl in Lv, Lw. rewrite Lv, Lw in E. discriminate.
    - simpl rv_of_value. simpl rv_equal. rewrite !map_length.
      destruct (rv_fields_eq_spec fs IH fs') as [E|E]; [exact E|].
      simpl in Lv, Lw. apply andb_true_iff in Lv, Lw. destruct Lv as [_ Lv], Lw as [_ Lw].
      rewrite Lv, Lw in E. discriminate.
  Qed.

  (* ---- equal values have the same shape ---- *)
  Lemma val_list_eqb_same (l : list value) :
    Forall (fun v => forall w, lit v = true -> lit w = true -> val_eqb fo v w = true -> same w v = true) l ->
    forall l0, forallb lit l = true -> forallb lit l0 = true ->
               val_list_eqb fo (fun v w => val_eqb fo v w) l l0 = true ->
               forallb (fun x => existsb (fun y => same x y) l) l0 = true.
  Proof.
    induction 1 as [|v l Hv Hl IH]; intros l0 L1 L2 E; destruct l0 as [|w l0]; simpl in *; try discriminate; auto.
    apply andb_true_iff in L1, L2, E. destruct L1 as [Lv L1], L2 as [Lw L2], E as [E1 E2].
    rewrite (Hv w Lv Lw E1). simpl.
    specialize (IH l0 L1 L2 E2). rewrite forallb_forall in *. intros x I. rewrite (IH x I). apply orb_true_r.
  Qed.

  Lemma val_fields_eqb_names (fs fs0 : list (bytes * value)) :
    val_fields_eqb fo (fun v w => val_eqb fo v w) fs fs0 = true -> names fs = names fs0.
  Proof.
    revert fs0. induction fs as [|[k v] fs IH]; intros [|[k' w] fs0] E; simpl in *; try discriminate; auto.
    apply andb_true_iff in E. destruct E as [E E2]. apply andb_true_iff in E. destruct E as [E0 E1].
    apply bytes_eqb_spec in E0. subst. f_equal. auto.
  Qed.

  Lemma val_fields_eqb_in (fs fs0 : list (bytes * value)) k x :
    val_fields_eqb fo (fun v w => val_eqb fo v w) fs fs0 = true -> In (k, x) fs0 ->
    exists a, In (k, a) fs /\ val_eqb fo a x = true.
  Proof.
    revert fs0. induction fs as [|[k0 v] fs IH]; intros [|[k' w] fs0] E I; simpl in *; try discriminate; try contradiction.
    apply andb_true_iff in E. destruct E as [E E2]. apply andb_true_iff in E. destruct E as [E0 E1].
    apply bytes_eqb_spec in E0. subst. destruct I as [I|I].
    - inversion I; subst. eauto.
    - destruct (IH fs0 E2 I) as (a & Ia & Ea). eauto.
  Qed.

  Lemma subset_names_refl l : subset_names l l = true.
  Proof.
    unfold subset_names. rewrite forallb_forall. intros k I. rewrite existsb_exists.
    exists k. split; auto. apply bytes_eqb_refl.
  Qed.

  Lemma val_eqb_same : forall v w, lit v = true -> lit w = true -> val_eqb fo v w = true -> same w v = true.
  Proof.
    induction v as [| | | | |l IH|fs IH| |] using value_ind2; intros w Lv Lw E;
      destruct w as [| | | | |l'|fs'| |]; try discriminate; try reflexivity.
    - simpl in E. simpl in Lv, Lw.
      change (same (VList l') (VList l))
        with (forallb (fun x => existsb (fun y => same x y) l) l'
              || forallb (fun y => existsb (fun x => same x y) l') l).
      rewrite (val_list_eqb_same l IH l' Lv Lw E). reflexivity.
    - simpl in E.
      change (same (VTuple fs') (VTuple fs))
        with ((subset_names (names fs') (names fs) || subset_names (names fs) (names fs'))
              && forallb (fun '(k, x) => match lookup fo k fs with
                                         | Some y => same x y
                                         | None => true end) fs').
      rewrite (val_fields_eqb_names _ _ E), subset_names_refl. simpl.
      rewrite forallb_forall. intros [k x] I.
      destruct (val_fields_eqb_in _ _ k x E I) as (a & Ia & Ea).
      rewrite (nodup_in_lookup fo fs k a (lit_tuple_nodup fo fs Lv) Ia).
      rewrite Forall_forall in IH. apply (IH (k, a) Ia); auto.
      + apply (lit_tuple_in fo fs k a Lv Ia).
      + apply (lit_tuple_in fo fs' k x Lw I).
  Qed.

  (* ---- one arm ---- *)
  Definition arm_admits (v : value) (a : varm fo) : bool :=
    match a with
    | VRange lo hi => in_range fo lo hi v
    | VExact w => val_eqb fo v w
    end.

  Lemma conforms_alt arms v : conforms fo (VAlt arms) v = existsb (arm_admits v) arms.
  Proof. reflexivity. Qed.

  Lemma arm_admits_same a v :
    arm_grammar fo a = true -> lit v = true -> arm_admits v a = true -> same (arm_witness a) v = true.
  Proof.
    destruct a as [lo hi|w]; simpl; intros G Lv E.
    - destruct v; simpl in E; try discriminate;
        destruct lo as [[]|], hi as [[]|]; try discriminate; reflexivity.
    - apply val_eqb_same; auto.
  Qed.

  Definition rarm_check (v : rval fo) (a : rarm fo) : bool :=
    match a with
    | RRangeI lo hi => match v with
                       | RInt z => le_opt_lo Z.leb lo z && le_opt_hi Z.leb z hi
                       | _ => false end
    | RRangeF lo hi => match v with
                       | RFloat x => le_opt_lo (fleb fo) lo x && le_opt_hi (fleb fo) x hi
                       | _ => false end
    | RExact expected => match rv_equal fo v expected with Some true => true | _ => false end
    end.

  Lemma cv_check_nonempty a arms v : cv_check fo (a :: arms) v = existsb (rarm_check v) (a :: arms).
  Proof. reflexivity. Qed.

  Lemma no_empty_constraint : forall v : value, contains_empty_constraint fo (rv v) = false.
  Proof.
    induction v as [| | | | |l IH|fs IH| |] using value_ind2; try reflexivity.
    - simpl. induction IH as [|x l Hx Hl IHl]; simpl; auto. now rewrite Hx.
    - simpl. induction IH as [|[k x] fs Hx Hf IHf]; simpl in *; auto. now rewrite Hx.
  Qed.

  Lemma rarm_of_spec a :
    arm_grammar fo a = true ->
    exists ra, rarm_of fo a = Some ra
               /\ (match ra with RExact w => contains_empty_constraint fo w | _ => false end) = false
               /\ forall v, lit v = true -> rarm_check (rv v) ra = arm_admits v a.
  Proof.
    destruct a as [lo hi|w]; simpl; intros G.
    - destruct lo as [[]|], hi as [[]|]; try discriminate; eexists; (split; [reflexivity|]); (split; [reflexivity|]);
        intros v Lv; destruct v; simpl; rewrite ?andb_true_r; reflexivity.
    - eexists. split; [reflexivity|]. split; [apply no_empty_constraint|].
      intros v Lv. simpl. apply (rv_equal_val_eqb v w Lv G).
  Qed.

  Lemma rarms_of_spec arms :
    forallb (arm_grammar fo) arms = true ->
    exists rs, rarms_of fo arms = Some rs
               /\ List.length rs = List.length arms
               /\ contains_self_ref fo rs = false
               /\ forall v, lit v = true -> existsb (rarm_check (rv v)) rs = existsb (arm_admits v) arms.
  Proof.
    induction arms as [|a arms IH]; simpl; intros G.
    - exists []. repeat split; auto.
    - apply andb_true_iff in G. destruct G as [Ga G].
      destruct (rarm_of_spec a Ga) as (ra & Ea & Ca & Ha).
      destruct (IH G) as (rs & Es & Ls & Cs & Hs).
      rewrite Ea, Es. exists (ra :: rs). split; [reflexivity|]. split; [simpl; congruence|]. split.
      + unfold contains_self_ref in *. simpl. rewrite Cs. rewrite orb_false_r. exact Ca.
      + intros v Lv. simpl. now rewrite Ha, Hs.
  Qed.

  Lemma runtime_alt arms v :
    forallb (arm_grammar fo) arms = true -> arms <> [] -> lit v = true ->
    runtime_ok fo (VAlt arms) v = conforms fo (VAlt arms) v.
  Proof.
    intros G Hne Lv. rewrite conforms_alt. unfold runtime_ok.
    destruct (rarms_of_spec arms G) as (rs & Es & Ls & Cs & Hs). rewrite Es.
    unfold check_constraint. rewrite Cs.
    destruct rs as [|r rs]; [destruct arms; [congruence|discriminate]|].
    rewrite cv_check_nonempty. apply Hs, Lv.
  Qed.

  Lemma conforms_static_alt arms v :
    constraint_grammar fo (VAlt arms) = true -> lit v = true ->
    conforms fo (VAlt arms) v = true -> static_ok fo (VAlt arms) v = true.
  Proof.
    intros G Lv C. simpl in G. apply andb_true_iff in G. destruct G as [G Gl].
    rewrite conforms_alt in C.
    destruct arms as [|a1 [|a2 arms]]; try discriminate.
    - destruct a1 as [lo hi|w]; try discriminate.
      simpl in G. rewrite andb_true_r in G.
      rewrite static_single_range by auto.
      simpl in C. rewrite orb_false_r in C. apply (arm_admits_same (VRange lo hi) v); auto.
    - rewrite static_alt by (auto; simpl; lia).
      apply orb_true_iff. right. apply existsb_exists in C. destruct C as (a & Ia & Ha).
      apply existsb_exists. exists a. split; auto. apply arm_admits_same; auto.
      rewrite forallb_forall in G. auto.
  Qed.

  (* ---- the run-time exemplar check (761a6c7) is the specification's "same shape" on data values ---- *)
  Lemma forallb_map' {A B} (g : A -> B) (f : B -> bool) l : forallb f (map g l) = forallb (fun a => f (g a)) l.
  Proof. induction l; simpl; auto. now rewrite IHl. Qed.
  Lemma existsb_map' {A B} (g : A -> B) (f : B -> bool) l : existsb f (map g l) = existsb (fun a => f (g a)) l.
  Proof. induction l; simpl; auto. now rewrite IHl. Qed.

  Notation rvf := (fun '(k, x) => (k, rv x)).

  Lemma re_get_none k (l : list (bytes * rval fo)) :
    existsb (bytes_eqb k) (map fst l) = false -> re_get fo k l = None.
  Proof.
    induction l as [|[k' y] l IH]; simpl; auto. intros H. apply orb_false_iff in H. destruct H as [H1 H2].
    rewrite H1. auto.
  Qed.

  Lemma re_get_NoDup (l : list (bytes * rval fo)) k y :
    NoDup (map fst l) -> In (k, y) l -> re_get fo k l = Some y.
  Proof.
    induction l as [|[k' y'] l IH]; simpl; intros N I; [contradiction|].
    inversion N; subst. destruct I as [I|I].
    - inversion I; subst. now rewrite bytes_eqb_refl.
    - destruct (bytes_eqb k k') eqn:E; auto.
      apply bytes_eqb_spec in E. subst k'. exfalso. apply H1. change k with (fst (k, y)). now apply in_map.
  Qed.

  Lemma nodup_names_NoDup' l : nodup_names l = true -> NoDup l.
  Proof.
    induction l as [|k l IH]; simpl; intros H; constructor; apply andb_true_iff in H; destruct H as [H1 H2]; auto.
    intros I. apply negb_true_iff in H1.
    assert (existsb (bytes_eqb k) l = true) by (apply existsb_exists; exists k; split; auto; apply bytes_eqb_refl).
    congruence.
  Qed.

  (* the LAST binding of a name in the VM tuple is the field of the value (names are distinct) *)
  Lemma re_get_rev_map (fv : list (bytes * value)) k :
    nodup_names (names fv) = true ->
    re_get fo k (rev (map rvf fv)) = option_map rv (lookup fo k fv).
  Proof.
    intros N. destruct (lookup fo k fv) as [y|] eqn:L; simpl.
    - apply re_get_NoDup.
      + rewrite map_rev. apply NoDup_rev. rewrite map_map.
        erewrite map_ext; [apply nodup_names_NoDup', N|]. intros [a c]; reflexivity.
      + apply in_rev. rewrite rev_involutive. apply in_map_iff. exists (k, y). split; auto. now apply lookup_in.
    - apply re_get_none. rewrite map_rev.
      destruct (existsb (bytes_eqb k) (rev (map fst (map rvf fv)))) eqn:E; auto.
      apply existsb_exists in E. destruct E as (k' & I & E). apply bytes_eqb_spec in E. subst k'.
      apply in_rev in I. rewrite map_map in I. apply in_map_iff in I. destruct I as ([k2 y] & E & I).
      simpl in E. subst k2.
      pose proof (existsb_names_lookup fo k fv) as X. rewrite L in X.
      assert (existsb (bytes_eqb k) (names fv) = true).
      { apply existsb_exists. exists k. split; [|apply bytes_eqb_refl]. change k with (fst (k, y)). now apply in_map. }
      congruence.
  Qed.

  Theorem runtime_exemplar_conforms : forall ex v,
    lit ex = true -> lit v = true -> rv_conforms fo (rv ex) (rv v) = same ex v.
  Proof.
    induction ex as [| | | | |le IH|fe IH| |] using value_ind2; intros v Le Lv;
      try discriminate Le; destruct v as [| | | | |lv|fv| |]; try discriminate Lv; try reflexivity.
    - (* lists *)
      change (rv (VList le)) with (RList (map rv le)). change (rv (VList lv)) with (RList (map rv lv)).
      change (same (VList le) (VList lv))
        with (forallb (fun x => existsb (fun y => same x y) lv) le
              || forallb (fun y => existsb (fun x => same x y) le) lv).
      simpl rv_conforms. rewrite !forallb_map'.
      rewrite Forall_forall in IH. simpl in Le, Lv. rewrite forallb_forall in Le, Lv.
      f_equal.
      + apply forallb_ext_in. intros x Ix. rewrite existsb_map'. apply existsb_ext_in. intros y Iy. apply IH; auto.
      + apply forallb_ext_in. intros y Iy. rewrite existsb_map'. apply existsb_ext_in. intros x Ix. apply IH; auto.
    - (* tuples *)
      change (rv (VTuple fe)) with (RTuple (map rvf fe)). change (rv (VTuple fv)) with (RTuple (map rvf fv)).
      change (same (VTuple fe) (VTuple fv))
        with ((subset_names (names fe) (names fv) || subset_names (names fv) (names fe))
              && forallb (fun '(k, x) => match lookup fo k fv with
                                         | Some y => same x y | None => true end) fe).
      simpl rv_conforms. rewrite !forallb_map'.
      pose proof (lit_tuple_nodup fo fe Le) as Ne. pose proof (lit_tuple_nodup fo fv Lv) as Nv.
      f_equal; [f_equal|].
      + unfold subset_names. change (names fe) with (map fst fe). rewrite forallb_map'. apply forallb_ext_in. intros [k x] _.
        simpl fst. rewrite (re_get_rev_map fv k Nv). rewrite existsb_names_lookup. destruct (lookup fo k fv); reflexivity.
      + unfold subset_names. change (names fv) with (map fst fv). rewrite forallb_map'. apply forallb_ext_in. intros [k y] _.
        simpl fst. rewrite (re_get_rev_map fe k Ne). rewrite existsb_names_lookup. destruct (lookup fo k fe); reflexivity.
      + rewrite Forall_forall in IH. apply forallb_ext_in. intros [k x] I.
        rewrite (re_get_rev_map fv k Nv). destruct (lookup fo k fv) as [y|] eqn:L; simpl; auto.
        apply (IH (k, x) I).
        * apply (lit_tuple_in fo fe k x Le I).
        * apply (lit_tuple_in fo fv k y Lv). now apply lookup_in.
  Qed.

  (* data values: NULL, booleans, numbers, strings, lists and tuples (distinct field names) of such -
     every value the evaluator can bind except functions and modules *)
  Definition data_value (v : value) : bool := literal_value fo v.

  (* what 761a6c7 buys: the run-time check alone decides conformance to an exemplar *)
  Theorem runtime_exemplar_exact : forall ex v,
    literal_value fo ex = true -> data_value v = true ->
    runtime_ok fo (VExemplar ex) v = same_shape fo true ex v.
  Proof. intros ex v Le Lv. apply runtime_exemplar_conforms; auto. Qed.

  Lemma check_constraint_plain (ex : value) x : check_constraint fo (rv ex) x = rv_conforms fo (rv ex) x.
  Proof. destruct ex; reflexivity. Qed.

  (* ---- C06, the heart: a constraint admits exactly the conforming values ---- *)
  Theorem let_constraint_exact_lit : forall c v,
    constraint_grammar fo c = true -> literal_value fo v = true ->
    build_accepts fo c v = conforms fo c v.
  Proof.
    intros [ex|arms] v G Lv; unfold build_accepts.
    - simpl in G. rewrite (runtime_exemplar_exact ex v G Lv). rewrite (static_ok_exemplar ex v G Lv).
      unfold conforms, conforms_gen. apply andb_diag.
    - assert (Hne : arms <> []).
      { simpl in G. apply andb_true_iff in G. destruct G as [_ G]. destruct arms; [discriminate|discriminate]. }
      assert (Ga : forallb (arm_grammar fo) arms = true).
      { simpl in G. apply andb_true_iff in G. tauto. }
      rewrite (runtime_alt arms v Ga Hne Lv).
      destruct (conforms fo (VAlt arms) v) eqn:C.
      + now rewrite (conforms_static_alt arms v G Lv C).
      + apply andb_false_r.
  Qed.
End C06.

(* ------------------------------------------------------------------------------------------ *)
(* 5. C06 through the statement pipeline: inline, named constraint, let-bound exemplar          *)
(* ------------------------------------------------------------------------------------------ *)
Section Prog.
  Variable fo : float_ops.
  (* a float literal denotes the float it was printed from *)
  Hypothesis float_roundtrip : forall x : F fo, f_of_bits fo (f_to_bits fo x) = x.
  Notation value := (value fo).
  Notation sh := (shape_of_value fo).
  Notation rv := (rv_of_value fo).
  Notation same := (same_shape fo true).
  Notation lit := (literal_value fo).
  Notation lex := (lit_expr fo).

  Lemma depth_list_in (d : expr -> nat) es e : In e es -> d e <= depth_list d es.
  Proof. induction es as [|x es IH]; simpl; intros H; [contradiction|]. destruct H as [->|H]; [lia|]. specialize (IH H). lia. Qed.
  Lemma depth_fields_in (d : expr -> nat) fs k e : In (k, e) fs -> d e <= depth_fields d fs.
  Proof.
    induction fs as [|[k' x] fs IH]; simpl; intros H; [contradiction|].
    destruct H as [H|H]; [inversion H; subst; lia|]. specialize (IH H). lia.
  Qed.

  Lemma derive_list_lit f (l : list value) :
    Forall (fun v => lit v = true -> forall fuel st, expr_depth (lex v) <= fuel -> derive_f fuel (lex v) st = (sh v, st)) l ->
    forallb lit l = true -> (forall x, In x l -> expr_depth (lex x) <= f) ->
    forall st, derive_list (derive_f f) (map lex l) st = (map sh l, st).
  Proof.
    induction 1 as [|v l Hv Hl IH]; simpl; intros L D st; auto.
    apply andb_true_iff in L. destruct L as [Lv L].
    rewrite (Hv Lv f st) by (apply D; now left).
    rewrite IH by (auto; intros; apply D; now right). reflexivity.
  Qed.

  Lemma derive_fields_lit f (fs : list (bytes * value)) :
    Forall (fun kv => lit (snd kv) = true -> forall fuel st, expr_depth (lex (snd kv)) <= fuel ->
                                                          derive_f fuel (lex (snd kv)) st = (sh (snd kv), st)) fs ->
    forallb (fun '(_, x) => lit x) fs = true -> (forall k x, In (k, x) fs -> expr_depth (lex x) <= f) ->
    forall st, derive_fields (derive_f f) (map (fun '(k, x) => (k, lex x)) fs) st
               = (map (fun '(k, x) => (k, sh x)) fs, st).
  Proof.
    induction 1 as [|[k v] fs Hv Hf IH]; simpl; intros L D st; auto.
    apply andb_true_iff in L. destruct L as [Lv L]. simpl in Hv.
    rewrite (Hv Lv f st) by (eapply D; now left).
    rewrite IH by (auto; intros; eapply D; right; eauto). reflexivity.
  Qed.

  Lemma derive_f_lit : forall v, lit v = true ->
    forall fuel st, expr_depth (lex v) <= fuel -> derive_f fuel (lex v) st = (sh v, st).
  Proof.
    induction v as [| | | | |l IH|fs IH| |] using value_ind2; intros L fuel st D;
      try discriminate L; (destruct fuel as [|f]; [simpl in D; lia|]); try reflexivity.
    - simpl lit_expr. simpl lit_expr in D. simpl in D. apply le_S_n in D.
      simpl derive_f. rewrite (derive_list_lit f l IH L); auto.
      intros x I. eapply Nat.le_trans; [|exact D].
      apply (depth_list_in (fun e1 => expr_depth e1) (map lex l) (lex x)). now apply in_map.
    - simpl lit_expr. simpl lit_expr in D. simpl in D. apply le_S_n in D.
      simpl in L. apply andb_true_iff in L. destruct L as [_ L].
      simpl derive_f. rewrite (derive_fields_lit f fs IH L); auto.
      intros k x I. eapply Nat.le_trans; [|exact D].
      apply (depth_fields_in (fun e1 => expr_depth e1) (map (fun '(k, x) => (k, lex x)) fs) k (lex x)).
      apply in_map_iff. exists (k, x). auto.
  Qed.

  Lemma derive_st_lit v st : lit v = true -> derive_st (lex v) st = (sh v, st).
  Proof. intros L. unfold derive_st. apply derive_f_lit; auto. lia. Qed.

  (* ---- run-time evaluation of literal expressions ---- *)
  Lemma has_key_map k (fs : list (bytes * value)) :
    has_key k (map (fun '(k, x) => (k, rv x)) fs) = existsb (bytes_eqb k) (names fs).
  Proof. induction fs as [|[k' x] fs IH]; simpl; auto. now rewrite IH. Qed.

  Lemma lit_eval_lit : forall v, lit v = true -> forall re, lit_eval fo re (lex v) = Ok (rv v).
  Proof.
    induction v as [| | | | |l IH|fs IH| |] using value_ind2; intros L re; try discriminate L; try reflexivity.
    - simpl. now rewrite float_roundtrip.
    - simpl in L. simpl lit_expr. simpl lit_eval.
      assert (E : lit_eval_list fo (fun e1 => lit_eval fo re e1) (map lex l) = Ok (map rv l)).
      { induction IH as [|x l Hx Hl IHl]; simpl in *; auto.
        apply andb_true_iff in L. destruct L as [Lx L]. rewrite (Hx Lx re). simpl. rewrite (IHl L). reflexivity. }
      rewrite E. reflexivity.
    - simpl in L. apply andb_true_iff in L. destruct L as [N L]. simpl lit_expr. simpl lit_eval.
      assert (E : lit_eval_fields fo (fun e1 => lit_eval fo re e1) (map (fun '(k, x) => (k, lex x)) fs)
                  = Ok (map (fun '(k, x) => (k, rv x)) fs)).
      { induction IH as [|[k x] fs Hx Hf IHf]; simpl in *; auto.
        apply andb_true_iff in L, N. destruct L as [Lx L], N as [N1 N]. rewrite (Hx Lx re). simpl.
        rewrite (IHf N L). simpl. rewrite has_key_map.
        apply negb_true_iff in N1. now rewrite N1. }
      rewrite E. reflexivity.
  Qed.

  (* ---- the shape of a grammar constraint ---- *)
  Definition arm_shape (a : varm fo) : shape :=
    match a with
    | VRange (Some lo) _ => sh lo
    | VRange None (Some hi) => sh hi
    | VRange None None => SErr EType
    | VExact v => sh v
    end.

  Lemma derive_arms_grammar arms : forallb (arm_grammar fo) arms = true ->
    forall acc st, derive_arms (map (carm_of fo) arms) acc st = (inr (acc ++ map arm_shape arms), st).
  Proof.
    induction arms as [|a arms IH]; simpl; intros G acc st.
    - now rewrite app_nil_r.
    - apply andb_true_iff in G. destruct G as [Ga G].
      destruct a as [lo hi|w].
      + assert (B : exists bd : value,
                   (match option_map lex lo with Some e => Some e | None => option_map lex hi end) = Some (lex bd)
                   /\ is_num fo bd = true /\ arm_shape (VRange lo hi) = sh bd).
        { destruct lo as [lo|], hi as [hi|]; simpl in Ga; try discriminate.
          - exists lo. repeat split; auto. destruct lo, hi; simpl in *; auto; discriminate.
          - exists lo. repeat split; auto.
          - exists hi. repeat split; auto. }
        destruct B as (bd & B1 & B2 & B3).
        cbn [map]. change (carm_of fo (VRange lo hi)) with (ARange (option_map lex lo) (option_map lex hi)).
        cbn [derive_arms]. rewrite B1. rewrite derive_st_lit by (now apply num_lit).
        rewrite B3. destruct bd; simpl in B2; try discriminate; simpl; rewrite IH by auto; now rewrite <- app_assoc.
      + simpl. rewrite derive_st_lit by auto. rewrite IH by auto. now rewrite <- app_assoc.
  Qed.

  Lemma derive_cexpr_grammar c st :
    constraint_grammar fo c = true -> derive_cexpr (cexpr_of fo c) st = (vshape_of_constraint fo c, st).
  Proof.
    destruct c as [ex|arms]; simpl; intros G.
    - now apply derive_st_lit.
    - apply andb_true_iff in G. destruct G as [G _].
      rewrite (derive_arms_grammar arms G). reflexivity.
  Qed.

  (* ---- the static half does not depend on the symbol table ---- *)
  Lemma narrow_st_grammar st c v :
    constraint_grammar fo c = true -> lit v = true ->
    exists r, narrow_st st (sh v) (vshape_of_constraint fo c) = (r, st) /\ negb (is_err r) = static_ok fo c v.
  Proof.
    intros G Lv. destruct c as [ex|arms].
    - simpl in G. rewrite (static_ok_exemplar fo ex v G Lv).
      apply (narrow_st_lit fo st ex v G Lv).
    - simpl in G. apply andb_true_iff in G. destruct G as [G Gl].
      destruct arms as [|a1 [|a2 arms]]; try discriminate.
      + destruct a1 as [lo hi|w]; try discriminate. simpl in G. rewrite andb_true_r in G.
        rewrite (static_single_range fo lo hi v G Lv).
        replace (vshape_of_constraint fo (VAlt [VRange lo hi])) with (sh (arm_witness fo (VRange lo hi)))
          by (destruct lo, hi; simpl in *; auto; discriminate).
        apply narrow_st_lit; auto. apply arm_witness_lit. exact G.
      + rewrite (static_alt fo (a1 :: a2 :: arms) v G Lv) by (simpl; lia).
        unfold vshape_of_constraint. rewrite (arm_shapes fo _ G).
        change (match map sh (map (arm_witness fo) (a1 :: a2 :: arms)) with
                | [x] => x | _ => SNarrowed (map sh (map (arm_witness fo) (a1 :: a2 :: arms))) end)
          with (SNarrowed (map sh (map (arm_witness fo) (a1 :: a2 :: arms)))).
        destruct (narrow_st_narrowed fo st (map (arm_witness fo) (a1 :: a2 :: arms)) v) as (r & E & C); auto.
        * rewrite forallb_forall. intros w I. apply in_map_iff in I. destruct I as (a & <- & Ia).
          apply arm_witness_lit. rewrite forallb_forall in G. auto.
        * discriminate.
        * exists r. split; auto. rewrite C. f_equal. apply bool_eq_iff. rewrite !existsb_exists. split.
          -- intros (w & I & H). apply in_map_iff in I. destruct I as (a & <- & Ia). eauto.
          -- intros (a & Ia & H). exists (arm_witness fo a). split; auto. now apply in_map.
  Qed.

  Lemma sh_not_import v (X Y : option symtab) :
    match sh v with SImportU _ => Y | _ => X end = X.
  Proof. destruct v; reflexivity. Qed.

  (* ---- the run-time half ---- *)
  Lemma build_arm_grammar re a ra :
    arm_grammar fo a = true -> rarm_of fo a = Some ra -> build_arm fo re (carm_of fo a) = Ok ra.
  Proof.
    destruct a as [lo hi|w]; simpl; intros G E.
    - destruct lo as [[]|], hi as [[]|]; simpl in *; try discriminate; inversion E; subst;
        rewrite ?float_roundtrip; reflexivity.
    - inversion E; subst. now rewrite lit_eval_lit.
  Qed.

  Lemma build_arms_grammar re arms rs :
    forallb (arm_grammar fo) arms = true -> rarms_of fo arms = Some rs ->
    build_arms fo re (map (carm_of fo) arms) = Ok rs.
  Proof.
    revert rs. induction arms as [|a arms IH]; simpl; intros rs G E.
    - now inversion E.
    - apply andb_true_iff in G. destruct G as [Ga G].
      destruct (rarm_of fo a) as [ra|] eqn:Ea; [|discriminate].
      destruct (rarms_of fo arms) as [rs'|] eqn:Es; [|discriminate]. inversion E; subst.
      rewrite (build_arm_grammar re a ra Ga Ea). simpl. rewrite (IH rs' G eq_refl). reflexivity.
  Qed.


  (* the run-time check, for the constraint value [k] that the constraint expression evaluates to *)
  Lemma eval_cexpr_grammar re c v :
    constraint_grammar fo c = true ->
    exists k, eval_cexpr fo re (cexpr_of fo c) = Ok k /\ check_constraint fo k (rv v) = runtime_ok fo c v.
  Proof.
    destruct c as [ex|arms]; simpl; intros G.
    - exists (rv ex). split; [now apply lit_eval_lit|exact (check_constraint_plain fo ex (rv v))].
    - apply andb_true_iff in G. destruct G as [G _].
      destruct (rarms_of_spec fo arms G) as (rs & Es & _).
      rewrite (build_arms_grammar re arms rs G Es). simpl. exists (RCon rs). split; auto. now rewrite Es.
  Qed.

  Lemma xname_not_reserved : is_reserved xname = false.
  Proof. reflexivity. Qed.

  (* ---- `let x :: c = v;` ---- *)
  Theorem build_accepts_prog_eq c v :
    constraint_grammar fo c = true -> lit v = true -> build_accepts_prog fo c v = build_accepts fo c v.
  Proof.
    intros G Lv. unfold build_accepts_prog, builds, build_prog, prog_inline, build_accepts.
    simpl check_stmts. rewrite (derive_st_lit v [] Lv). rewrite sh_not_import.
    rewrite (derive_cexpr_grammar c [] G).
    destruct (narrow_st_grammar [] c v G Lv) as (r & E & C). rewrite E. rewrite <- C.
    destruct (is_err r); simpl; auto.
    rewrite (lit_eval_lit v Lv). simpl.
    destruct (eval_cexpr_grammar [] c v G) as (k & Ek & Ck). rewrite Ek. simpl. rewrite Ck.
    destruct (runtime_ok fo c v); reflexivity.
  Qed.

  Local Opaque bytes_eqb is_reserved xname rv_conforms.

  (* ---- `constraint n = c; let x :: n = v;` ---- *)
  Definition name_ok (n : bytes) : bool := negb (is_reserved n) && negb (bytes_eqb xname n).

  Lemma no_ref_in_value_shape n : forall v : value,
    shape_contains_ref n (sh v) = false /\ forall g, bad_constraint_ref n (sh v) g = false.
  Proof.
    induction v as [| | | | |l IH|fs IH| |] using value_ind2; try (split; [reflexivity|intros; reflexivity]).
    - split; [|intro g]; simpl; induction IH as [|x l Hx Hl IHl]; simpl; auto; destruct Hx as [H1 H2];
        rewrite ?H1, ?H2; auto.
    - split; [|intro g]; simpl; induction IH as [|[k x] fs Hx Hf IHf]; simpl in *; auto; destruct Hx as [H1 H2];
        rewrite ?H1, ?H2; auto.
  Qed.

  Lemma vshape_no_bad_ref n c :
    constraint_grammar fo c = true -> bad_constraint_ref n (vshape_of_constraint fo c) false = false.
  Proof.
    destruct c as [ex|arms]; simpl; intros G.
    - apply no_ref_in_value_shape.
    - apply andb_true_iff in G. destruct G as [G _]. rewrite (arm_shapes fo arms G).
      assert (H : forall g, existsb (fun t => bad_constraint_ref n t g) (map sh (map (arm_witness fo) arms)) = false).
      { intro g. induction (map (arm_witness fo) arms) as [|w ws IHw]; simpl; auto.
        rewrite (proj2 (no_ref_in_value_shape n w)). exact IHw. }
      destruct (map sh (map (arm_witness fo) arms)) as [|x [|y l]] eqn:E.
      + reflexivity.
      + specialize (H false). simpl in H. now rewrite orb_false_r in H.
      + simpl. apply H.
  Qed.

  Lemma vshape_not_err c : constraint_grammar fo c = true -> is_err (vshape_of_constraint fo c) = false.
  Proof.
    destruct c as [ex|arms]; simpl; intros G.
    - destruct ex; simpl in *; auto; discriminate.
    - apply andb_true_iff in G. destruct G as [G Gl]. rewrite (arm_shapes fo arms G).
      destruct arms as [|a1 [|a2 arms]]; try discriminate; simpl.
      + destruct a1 as [lo hi|w]; try discriminate. simpl in G. rewrite andb_true_r in G.
        destruct lo as [[]|], hi as [[]|]; simpl in *; auto; discriminate.
      + reflexivity.
  Qed.

  Theorem named_constraint_transparent : forall n c v,
    name_ok n = true -> constraint_grammar fo c = true -> literal_value fo v = true ->
    build_accepts_named fo n c v = build_accepts fo c v.
  Proof.
    intros n c v Hn G Lv. unfold name_ok in Hn. apply andb_true_iff in Hn. destruct Hn as [Hr Hx].
    apply negb_true_iff in Hr, Hx.
    unfold build_accepts_named, builds, build_prog, prog_named, build_accepts.
    simpl check_stmts. unfold st_set.
    rewrite (derive_cexpr_grammar c _ G). rewrite (vshape_not_err c G), (vshape_no_bad_ref n c G).
    rewrite (derive_st_lit v _ Lv). rewrite sh_not_import.
    unfold derive_cexpr, derive_st. simpl derive_f. cbn [st_get]. rewrite bytes_eqb_refl.
    destruct (narrow_st_grammar ((n, vshape_of_constraint fo c) :: [(n, SRef n)]) c v G Lv) as (r & E & C).
    rewrite E. rewrite <- C.
    destruct (is_err r); simpl; auto.
    rewrite Hr.
    destruct (eval_cexpr_grammar [(n, RCon [])] c v G) as (k & Ek & Ck). rewrite Ek. simpl.
    rewrite (lit_eval_lit v Lv). simpl. rewrite bytes_eqb_refl. simpl. rewrite Ck.
    destruct (runtime_ok fo c v); simpl; auto.
    rewrite xname_not_reserved. simpl. rewrite Hx. reflexivity.
  Qed.

  (* ---- `let n = ex; let x :: n = v;` : a let-bound exemplar is the exemplar ---- *)
  Theorem let_bound_exemplar_transparent : forall n ex v,
    name_ok n = true -> literal_value fo ex = true -> literal_value fo v = true ->
    build_accepts_let_named fo n ex v = build_accepts fo (VExemplar ex) v.
  Proof.
    intros n ex v Hn Le Lv. unfold name_ok in Hn. apply andb_true_iff in Hn. destruct Hn as [Hr Hx].
    apply negb_true_iff in Hr, Hx.
    unfold build_accepts_let_named, builds, build_prog, prog_let_named, build_accepts.
    simpl check_stmts. unfold st_set.
    rewrite (derive_st_lit ex _ Le). rewrite sh_not_import.
    assert (Ne : is_err (sh ex) = false) by (destruct ex; simpl in *; auto; discriminate).
    rewrite Ne.
    rewrite (derive_st_lit v _ Lv). rewrite sh_not_import.
    unfold derive_cexpr, derive_st. simpl derive_f. cbn [st_get]. rewrite bytes_eqb_refl.
    destruct (narrow_st_grammar [(n, sh ex)] (VExemplar ex) v Le Lv) as (r & E & C).
    simpl vshape_of_constraint in E. rewrite E. rewrite <- C.
    destruct (is_err r); simpl; auto.
    rewrite (lit_eval_lit ex Le). simpl. rewrite Hr. simpl.
    rewrite (lit_eval_lit v Lv). simpl. rewrite bytes_eqb_refl. simpl.
    rewrite (check_constraint_plain fo ex).
    change (runtime_ok fo (VExemplar ex) v) with (rv_conforms fo (rv ex) (rv v)).
    destruct (rv_conforms fo (rv ex) (rv v)); simpl; auto.
    rewrite xname_not_reserved. simpl. rewrite Hx. reflexivity.
  Qed.

  (* ---- what the run-time exemplar check (761a6c7) buys at the statement level ---- *)
  Lemma run_stmt_let_gen x c e re : run_stmt fo (CLet x c e) re = run_let_gen fo (lit_eval fo) x c e re.
  Proof. reflexivity. Qed.

  (* whatever evaluates the bound expression: `let x :: ex = e` binds x only to a value that passes
     conforms_to_exemplar against ex *)
  Theorem let_exemplar_binds_conforming : forall (ev : renv fo -> expr -> res (rval fo)) x ex e re re',
    literal_value fo ex = true ->
    run_let_gen fo ev x (Some (CPlain (lex ex))) e re = Ok re' ->
    exists w, ev re e = Ok w /\ re' = (x, w) :: re /\ rv_conforms fo (rv ex) w = true.
  Proof.
    intros ev x ex e re re' Le H. unfold run_let_gen in H.
    destruct (ev re e) as [w| | |] eqn:E; simpl in H; try discriminate.
    simpl eval_cexpr in H. rewrite (lit_eval_lit ex Le) in H. simpl in H.
    rewrite (check_constraint_plain fo ex) in H.
    destruct (rv_conforms fo (rv ex) w) eqn:C; simpl in H; try discriminate.
    destruct (is_reserved x); try discriminate. destruct (re_get fo x re); try discriminate.
    inversion H; subst. eauto.
  Qed.

  (* ... and for a data value that is exactly the specification's "same shape" *)
  Theorem let_exemplar_binds_same_shape : forall (ev : renv fo -> expr -> res (rval fo)) x ex e re re' v,
    literal_value fo ex = true -> data_value fo v = true ->
    ev re e = Ok (rv v) ->
    run_let_gen fo ev x (Some (CPlain (lex ex))) e re = Ok re' ->
    same_shape fo true ex v = true /\ re' = (x, rv v) :: re.
  Proof.
    intros ev x ex e re re' v Le Dv E H.
    destruct (let_exemplar_binds_conforming ev x ex e re re' Le H) as (w & Ew & R & C).
    rewrite E in Ew. inversion Ew; subst w. split; auto.
    now rewrite <- (runtime_exemplar_conforms fo ex v Le Dv).
  Qed.

  (* conversely a conforming data value is bound (fresh, non-reserved name) *)
  Theorem let_exemplar_accepts_same_shape : forall (ev : renv fo -> expr -> res (rval fo)) x ex e re v,
    literal_value fo ex = true -> data_value fo v = true ->
    ev re e = Ok (rv v) -> is_reserved x = false -> re_get fo x re = None ->
    same_shape fo true ex v = true ->
    run_let_gen fo ev x (Some (CPlain (lex ex))) e re = Ok ((x, rv v) :: re).
  Proof.
    intros ev x ex e re v Le Dv E Hr Hx S. unfold run_let_gen. rewrite E. simpl.
    rewrite (lit_eval_lit ex Le). simpl. rewrite (check_constraint_plain fo ex).
    rewrite (runtime_exemplar_conforms fo ex v Le Dv), S. simpl. now rewrite Hr, Hx.
  Qed.

  (* on run_stmt: the bound expression may be any name of the environment, whatever was bound to it *)
  Corollary run_stmt_exemplar_name : forall x ex y re re' v,
    literal_value fo ex = true -> data_value fo v = true -> re_get fo y re = Some (rv v) ->
    run_stmt fo (CLet x (Some (CPlain (lex ex))) (ESym y)) re = Ok re' ->
    same_shape fo true ex v = true.
  Proof.
    intros x ex y re re' v Le Dv G H. rewrite run_stmt_let_gen in H.
    apply (let_exemplar_binds_same_shape (lit_eval fo) x ex (ESym y) re re' v Le Dv); auto.
    simpl. now rewrite G.
  Qed.

  Lemma run_stmts_app ss1 ss2 re :
    run_stmts fo (ss1 ++ ss2) re = (do re1 <- run_stmts fo ss1 re; run_stmts fo ss2 re1).
  Proof.
    revert re. induction ss1 as [|s ss1 IH]; simpl; intros re; auto.
    destruct (run_stmt fo s re); simpl; auto.
  Qed.

  (* on build_prog: a file that ends with `let x :: ex = e;` and builds has bound x to a conforming value *)
  Theorem build_prog_exemplar_last : forall ss x ex e re',
    literal_value fo ex = true ->
    build_prog fo (ss ++ [CLet x (Some (CPlain (lex ex))) e]) = Ok re' ->
    exists w re1, re' = (x, w) :: re1 /\ rv_conforms fo (rv ex) w = true.
  Proof.
    intros ss x ex e re' Le H. unfold build_prog in H.
    destruct (check_stmts _ []); try discriminate.
    rewrite run_stmts_app in H. destruct (run_stmts fo ss []) as [re1| | |]; try discriminate H.
    change (run_stmts fo [CLet x (Some (CPlain (lex ex))) e] re1 = Ok re') in H.
    change (run_stmts fo [CLet x (Some (CPlain (lex ex))) e] re1)
      with (do r <- run_stmt fo (CLet x (Some (CPlain (lex ex))) e) re1; Ok r) in H.
    rewrite run_stmt_let_gen in H.
    destruct (run_let_gen fo (lit_eval fo) x (Some (CPlain (lex ex))) e re1) as [re2| | |] eqn:R; try discriminate H.
    inversion H; subst.
    destruct (let_exemplar_binds_conforming (lit_eval fo) x ex e re1 re' Le R) as (w & _ & E & C). eauto.
  Qed.
End Prog.

(* ------------------------------------------------------------------------------------------ *)
(* 6. C06: refutations of the unrestricted statements, and sanity lemmas                        *)
(* ------------------------------------------------------------------------------------------ *)
Section C06More.
  Variable fo : float_ops.
  Notation value := (value fo).
  Notation sh := (shape_of_value fo).
  Notation same := (same_shape fo true).
  Notation lit := (literal_value fo).

  (* Under the strict reading "NULL is a type of its own" the statement is false:
       let x :: 0 = NULL;          builds, although NULL is not an integer. *)
  Lemma let_constraint_exact_strict_refuted :
    exists c v, constraint_grammar fo c = true /\ literal_value fo v = true
                /\ build_accepts fo c v = true /\ conforms_strict fo c v = false.
  Proof. exists (VExemplar (VInt 0)), VNull. repeat split; reflexivity. Qed.
  (*   let x :: {a = 0} = {a = NULL};   likewise for a NULL inside a tuple *)
  Lemma let_constraint_exact_strict_refuted_nested :
    build_accepts fo (VExemplar (VTuple [(b "a", VInt 0)])) (VTuple [(b "a", VNull)]) = true
    /\ conforms_strict fo (VExemplar (VTuple [(b "a", VInt 0)])) (VTuple [(b "a", VNull)]) = false.
  Proof. split; reflexivity. Qed.

  (* ... and it is exact again once no NULL occurs in the exemplar or in the value *)
  Lemma same_shape_null_free : forall ex v nb,
    null_free fo ex = true -> null_free fo v = true -> same_shape fo nb ex v = same ex v.
  Proof.
    induction ex as [| | | | |l IH|fs IH| |] using (value_ind2 fo); intros v nb Ne Nv;
      destruct v as [| | | | |l'|fs'| |]; try discriminate; try reflexivity.
    - simpl in Ne, Nv.
      change (same_shape fo nb (VList l) (VList l'))
        with (forallb (fun x => existsb (fun y => same_shape fo nb x y) l') l
              || forallb (fun y => existsb (fun x => same_shape fo nb x y) l) l').
      change (same (VList l) (VList l'))
        with (forallb (fun x => existsb (fun y => same x y) l') l
              || forallb (fun y => existsb (fun x => same x y) l) l').
      rewrite Forall_forall in IH. rewrite forallb_forall in Ne, Nv.
      f_equal.
      + apply forallb_ext_in. intros x Ix. apply existsb_ext_in. intros y Iy. apply IH; auto.
      + apply forallb_ext_in. intros y Iy. apply existsb_ext_in. intros x Ix. apply IH; auto.
    - simpl in Ne, Nv.
      change (same_shape fo nb (VTuple fs) (VTuple fs'))
        with ((subset_names (names fs) (names fs') || subset_names (names fs') (names fs))
              && forallb (fun '(k, x) => match lookup fo k fs' with
                                         | Some y => same_shape fo nb x y | None => true end) fs).
      change (same (VTuple fs) (VTuple fs'))
        with ((subset_names (names fs) (names fs') || subset_names (names fs') (names fs))
              && forallb (fun '(k, x) => match lookup fo k fs' with
                                         | Some y => same x y | None => true end) fs).
      f_equal. rewrite Forall_forall in IH. rewrite forallb_forall in Ne, Nv.
      apply forallb_ext_in. intros [k x] I. destruct (lookup fo k fs') as [y|] eqn:E; auto.
      apply (IH (k, x) I); auto.
      + apply (Ne (k, x) I).
      + apply (Nv (k, y)). now apply lookup_in.
  Qed.

  Theorem let_constraint_exact_strict_null_free : forall c v,
    constraint_grammar fo c = true -> literal_value fo v = true ->
    (match c with VExemplar ex => null_free fo ex | VAlt _ => true end) = true -> null_free fo v = true ->
    build_accepts fo c v = conforms_strict fo c v.
  Proof.
    intros c v G Lv Nc Nv. rewrite (let_constraint_exact_lit fo c v G Lv).
    destruct c as [ex|arms]; [|reflexivity].
    unfold conforms, conforms_strict, conforms_gen. symmetry. now apply same_shape_null_free.
  Qed.

  (* Outside constraint_grammar: a range whose bounds have different numeric types cannot be built at run
     time and takes the whole alternation with it:
       let x :: in 0..2.5 | "x" = "x";      is rejected although the value equals an alternative. *)
  Lemma let_constraint_mixed_range_refuted :
    let c := VAlt [VRange (Some (VInt 0)) (Some (VFloat (f_of_bits fo 4612811918334230528))); VExact (VStr (b "x"))] in
    constraint_grammar fo c = false /\ build_accepts fo c (VStr (b "x")) = false /\ conforms fo c (VStr (b "x")) = true.
  Proof. repeat split; reflexivity. Qed.

  (* The name of a constraint must be a legal new binding: with n = "x"
       constraint x = 0; let x :: x = 1;       fails (x is already bound) while  let x :: 0 = 1;  builds. *)
  Lemma named_constraint_transparent_refuted :
    build_accepts_named fo (b "x") (VExemplar (VInt 0)) (VInt 1) = false
    /\ build_accepts fo (VExemplar (VInt 0)) (VInt 1) = true.
  Proof. split; reflexivity. Qed.

  (* ---- sanity: narrowing literal shapes ---- *)
  Lemma same_refl : forall v, lit v = true -> same v v = true.
  Proof.
    induction v as [| | | | |l IH|fs IH| |] using (value_ind2 fo); intros L; try discriminate; try reflexivity.
    - change (same (VList l) (VList l))
        with (forallb (fun x => existsb (fun y => same x y) l) l
              || forallb (fun y => existsb (fun x => same x y) l) l).
      apply orb_true_iff. left. rewrite Forall_forall in IH. rewrite forallb_forall. intros x I.
      rewrite existsb_exists. exists x. split; auto. apply IH; auto. eapply lit_list_in; eauto.
    - change (same (VTuple fs) (VTuple fs))
        with ((subset_names (names fs) (names fs) || subset_names (names fs) (names fs))
              && forallb (fun '(k, x) => match lookup fo k fs with
                                         | Some y => same x y | None => true end) fs).
      rewrite subset_names_refl. simpl. rewrite Forall_forall in IH. rewrite forallb_forall. intros [k x] I.
      rewrite (nodup_in_lookup fo fs k x (lit_tuple_nodup fo fs L) I).
      apply (IH (k, x) I). eapply lit_tuple_in; eauto.
  Qed.

  (* narrow_refl: a literal shape narrows against itself *)
  Theorem narrow_refl_lit st v : lit v = true -> ~ is_type_err (narrow st (sh v) (sh v)).
  Proof.
    intros L. unfold is_type_err, narrow.
    destruct (narrow_st_lit fo st v v L L) as (r & E & C). rewrite E. simpl.
    rewrite (same_refl v L) in C. destruct (is_err r); [discriminate|congruence].
  Qed.

  (* compatibility of literal shapes is symmetric *)
  Theorem narrow_sym_lit st a c : lit a = true -> lit c = true ->
    is_err (narrow st (sh a) (sh c)) = is_err (narrow st (sh c) (sh a)).
  Proof.
    intros La Lc. unfold narrow, narrow_st.
    destruct (narrow_lit fo (narrow_fuel st (sh a) (sh c)) a c) as [H1 _]; auto.
    { apply narrow_fuel_ge. }
    destruct (narrow_lit fo (narrow_fuel st (sh c) (sh a)) a c) as [_ H2]; auto.
    { pose proof (narrow_fuel_ge st (sh c) (sh a)). lia. }
    destruct (H1 (mk_nst st [])) as (r1 & E1 & C1). destruct (H2 (mk_nst st [])) as (r2 & E2 & C2).
    rewrite E1, E2. simpl. destruct (is_err r1), (is_err r2); simpl in *; congruence.
  Qed.

  (* narrowing a literal shape never touches the symbol table *)
  Theorem narrow_lit_pure st a c : lit a = true -> lit c = true -> snd (narrow_st st (sh a) (sh c)) = st.
  Proof.
    intros La Lc. destruct (narrow_st_lit fo st c a Lc La) as (r & E & _). now rewrite E.
  Qed.

  (* TypeErr propagates, NULL (Narrowed Any) and a hole not in the table give the other side *)
  Lemma narrow_err_l st k r : narrow st (SErr k) r = SErr k.
  Proof. unfold narrow, narrow_st, narrow_fuel. rewrite Nat.add_comm. reflexivity. Qed.
  Lemma narrow_any_l st r : is_err r = false -> ref_name r = None -> hole_name r = None -> narrow st SAny r = r.
  Proof.
    intros H1 H2 H3. unfold narrow, narrow_st, narrow_fuel. rewrite Nat.add_comm. simpl.
    rewrite H1, H2. destruct r; try discriminate; reflexivity.
  Qed.
End C06More.

(* ------------------------------------------------------------------------------------------ *)
(* 7. C07: inhabitation, narrowing two shapes of one value, soundness of derive                 *)
(*    (checker as of 05372e0: last field wins, select default, parameters shadow, ...)          *)
(* ------------------------------------------------------------------------------------------ *)
Section C07.
  Variable fo : float_ops.
  Notation value := (value fo).
  Notation inh := (inhabitsb fo).
  Notation sh := (shape_of_value fo).
  Notation lit := (literal_value fo).

  (* Hole, Narrowed(Any) and the empty Narrowed are top *)
  Lemma inhabits_hole (v : value) x : inhabits fo v (SHole x).
  Proof. reflexivity. Qed.
  Lemma inhabits_any (v : value) : inhabits fo v SAny.
  Proof. reflexivity. Qed.
  Lemma inhabits_empty_narrowed (v : value) : inhabits fo v (SNarrowed []).
  Proof. reflexivity. Qed.

  (* ---- association lists of shapes ---- *)
  Lemma st_get_app k (a c : list (bytes * shape)) :
    st_get k (a ++ c) = match st_get k a with Some x => Some x | None => st_get k c end.
  Proof. induction a as [|[k' t] a IH]; simpl; auto. destruct (bytes_eqb k k'); auto. Qed.

  Lemma st_get_in k (l : list (bytes * shape)) t : st_get k l = Some t -> In (k, t) l.
  Proof.
    induction l as [|[k' t'] l IH]; simpl; intros H; [discriminate|].
    destruct (bytes_eqb k k') eqn:E; [apply bytes_eqb_spec in E; inversion H; subst; now left|right; auto].
  Qed.

  Lemma nodup_names_NoDup l : nodup_names l = true -> NoDup l.
  Proof.
    induction l as [|k l IH]; simpl; intros H; constructor; apply andb_true_iff in H; destruct H as [H1 H2]; auto.
    intros I. apply negb_true_iff in H1.
    assert (existsb (bytes_eqb k) l = true) by (apply existsb_exists; exists k; split; auto; apply bytes_eqb_refl).
    congruence.
  Qed.

  Lemma st_get_NoDup (l : list (bytes * shape)) k t :
    NoDup (map fst l) -> In (k, t) l -> st_get k l = Some t.
  Proof.
    induction l as [|[k' t'] l IH]; simpl; intros N I; [contradiction|].
    inversion N; subst. destruct I as [I|I].
    - inversion I; subst. now rewrite bytes_eqb_refl.
    - destruct (bytes_eqb k k') eqn:E; auto.
      apply bytes_eqb_spec in E. subst k'. exfalso. apply H1. change k with (fst (k, t)). now apply in_map.
  Qed.

  Lemma st_get_rev_NoDup (l : list (bytes * shape)) k t :
    NoDup (map fst l) -> In (k, t) l -> st_get k (rev l) = Some t.
  Proof.
    intros N I. apply st_get_NoDup.
    - rewrite map_rev. now apply NoDup_rev.
    - now apply in_rev in I.
  Qed.

  (* the "last declaration" loop of inhabitsb *)
  Lemma last_st_get (ss : list (bytes * shape)) k (P : shape -> bool) : forall acc,
    (fix last (fs : list (bytes * shape)) (acc : bool) : bool :=
       match fs with
       | [] => acc
       | (k', t) :: fs' => last fs' (if bytes_eqb k k' then P t else acc)
       end) ss acc
    = match st_get k (rev ss) with Some t => P t | None => acc end.
  Proof.
    induction ss as [|[k' t] ss IH]; intros acc; simpl; auto.
    rewrite IH. rewrite st_get_app. destruct (st_get k (rev ss)); auto.
    simpl. destruct (bytes_eqb k k'); auto.
  Qed.

  Lemma inh_tuple_unfold (vs : list (bytes * value)) ss :
    inh (VTuple vs) (STuple ss)
    = forallb (fun '(k, x) => match st_get k (rev ss) with Some t => inh x t | None => false end) vs.
  Proof. simpl. apply forallb_ext_in. intros [k x] _. apply last_st_get. Qed.

  Lemma value_inhabits_own_shape : forall v, lit v = true -> inhabits fo v (sh v).
  Proof.
    unfold inhabits.
    induction v as [| | | | |l IH|fs IH| |] using (value_ind2 fo); intros L; try discriminate; try reflexivity.
    - simpl. rewrite Forall_forall in IH. rewrite forallb_forall. intros x I.
      rewrite existsb_exists. exists (sh x). split; [now apply in_map|].
      apply IH; auto. eapply lit_list_in; eauto.
    - change (sh (VTuple fs)) with (STuple (map (fun '(k, y) => (k, sh y)) fs)).
      rewrite inh_tuple_unfold. rewrite Forall_forall in IH. rewrite forallb_forall. intros [k x] I.
      rewrite (st_get_rev_NoDup (map (fun '(k, y) => (k, sh y)) fs) k (sh x)).
      + apply (IH (k, x) I). eapply lit_tuple_in; eauto.
      + rewrite map_map. erewrite map_ext; [apply nodup_names_NoDup, (lit_tuple_nodup fo fs L)|].
        intros [a c]; reflexivity.
      + apply in_map_iff. exists (k, x). auto.
  Qed.

  (* ---- narrow_compat is FALSE: one value, two shapes it inhabits, narrowing fails ---- *)
  (* the empty list inhabits [int] and [str]; ucg witness (Known class K2):
       let r = filter(func(x) => false, [1]) + filter(func(x) => false, ["a"]);   evaluates to [], build: type error *)
  Lemma narrow_compat_refuted_list :
    exists (v : value) s1 s2, inhabits fo v s1 /\ inhabits fo v s2 /\ is_type_err (narrow [] s1 s2).
  Proof. exists (VList []), (SList [SInt]), (SList [SStr]). repeat split; reflexivity. Qed.
  Lemma narrow_compat_refuted_list_incomparable :
    exists (v : value) s1 s2, inhabits fo v s1 /\ inhabits fo v s2 /\ is_type_err (narrow [] s1 s2).
  Proof. exists (VList [VInt 1]), (SList [SInt; SStr]), (SList [SInt; SBool]). repeat split; reflexivity. Qed.
  Lemma narrow_compat_refuted_tuple :
    exists (v : value) s1 s2, inhabits fo v s1 /\ inhabits fo v s2 /\ is_type_err (narrow [] s1 s2).
  Proof.
    exists (VTuple [(b "a", VInt 1)]), (STuple [(b "a", SInt); (b "b", SStr)]), (STuple [(b "a", SInt); (b "c", SStr)]).
    repeat split; reflexivity.
  Qed.

  (* ---- repaired statements ---- *)
  Theorem narrow_compat_prim : forall (v : value) s1 s2 st,
    is_prim s1 = true -> is_prim s2 = true -> inhabits fo v s1 -> inhabits fo v s2 ->
    narrow_st st s1 s2 = (s1, st) /\ s1 = s2.
  Proof.
    unfold inhabits. intros v s1 s2 st P1 P2 I1 I2.
    destruct s1; try discriminate; destruct s2; try discriminate; destruct v; try discriminate;
      (split; [unfold narrow_st, narrow_fuel; rewrite Nat.add_comm; reflexivity | reflexivity]).
  Qed.
  Theorem narrow_compat_top_l : forall s2 st, is_err s2 = false -> ref_name s2 = None -> hole_name s2 = None ->
    ~ is_type_err (narrow st SAny s2).
  Proof. intros s2 st H1 H2 H3. rewrite narrow_any_l; auto. unfold is_type_err. congruence. Qed.

  (* ---- soundness of derive on the first-order fragment ---- *)
  Definition st_ok (st : symtab) : Prop := forall x s, st_get x st = Some s -> hfb s = true.
  Definition env_ok (sc : scope fo) (st : symtab) : Prop :=
    forall x v, lookup fo x sc = Some v -> exists s, st_get x st = Some s /\ inh v s = true.

  (* what the soundness proof establishes for an expression and its shape *)
  Definition sound_at (st : symtab) (e : expr) (s : shape) : Prop :=
    (forall df, expr_depth e <= df -> derive_f df e st = (s, st))
    /\ hfb s = true
    /\ (forall fuel c v, strict fo c = true -> env_ok (sc fo c) st -> eval fo fuel c e = Ok v -> inh v s = true).

  Lemma inh_not_err (v : value) s : inh v s = true -> is_err s = false.
  Proof. destruct s; simpl; auto; discriminate. Qed.

  Lemma narrow_st_prims st a c :
    is_prim a = true -> is_prim c = true ->
    narrow_st st a c = ((if prim_same a c then a else SErr EType), st).
  Proof.
    destruct a; try discriminate; destruct c; try discriminate; intros _ _;
      unfold narrow_st, narrow_fuel; rewrite Nat.add_comm; reflexivity.
  Qed.

  Lemma mapM_ok {A B} (f : A -> res B) l r : mapM f l = Ok r -> Forall2 (fun a x => f a = Ok x) l r.
  Proof.
    revert r. induction l as [|a l IH]; simpl; intros r H.
    - inversion H. constructor.
    - destruct (f a) eqn:E; try discriminate. simpl in H.
      destruct (mapM f l) eqn:E2; try discriminate. simpl in H. inversion H; subst. constructor; auto.
  Qed.

  Lemma mapM_keep_snd {A B} (g : A -> res B) (keep : B -> bool) l r :
    mapM (fun v => do o <- g v; Ok (keep o, v)) l = Ok r -> map snd r = l.
  Proof.
    revert r. induction l as [|a l IH]; simpl; intros r H.
    - now inversion H.
    - destruct (g a); simpl in H; try discriminate.
      destruct (mapM _ l) eqn:E; simpl in H; try discriminate. inversion H; subst. simpl. f_equal. auto.
  Qed.

  Lemma forall2_exists {A B} (R : A -> B -> Prop) l :
    (forall a, In a l -> exists x, R a x) -> exists l', Forall2 R l l'.
  Proof.
    induction l as [|a l IH]; intros H.
    - exists []. constructor.
    - destruct (H a (or_introl eq_refl)) as [x Hx]. destruct IH as [l' Hl']. { intros; apply H; now right. }
      exists (x :: l'). constructor; auto.
  Qed.

  Lemma forall2_in_l {A B} (R : A -> B -> Prop) l l' a : Forall2 R l l' -> In a l -> exists x, In x l' /\ R a x.
  Proof.
    induction 1 as [|a0 x0 l l' H F IH]; intros I; [contradiction|].
    destruct I as [->|I]; [exists x0; split; [now left|auto]|].
    destruct (IH I) as (x & Ix & Rx). exists x. split; [now right|auto].
  Qed.

  (* tuple literals without repeated field *)
  Lemma merge_field_fresh (a : list (bytes * value)) k v :
    existsb (bytes_eqb k) (names a) = false -> merge_field fo a k v = Ok (a ++ [(k, v)]).
  Proof.
    induction a as [|[k' w] a IH]; simpl; intros H; auto.
    apply orb_false_iff in H. destruct H as [H1 H2]. rewrite H1. rewrite (IH H2). reflexivity.
  Qed.

  Lemma fold_not_ok (ev : expr -> res value) fs (x : res (list (bytes * value))) :
    (forall r, x <> Ok r) ->
    forall r, fold_left (fun acc '(k, e) => do a <- acc; do v <- ev e; merge_field fo a k v) fs x <> Ok r.
  Proof.
    revert x. induction fs as [|[k e] fs IH]; simpl; intros x H r; auto.
    apply IH. intros r'. destruct x; simpl; try discriminate. exfalso. eapply H; eauto.
  Qed.

  Lemma tuple_lit_spec (ev : expr -> res value) fs :
    forall acc r,
      fold_left (fun acc '(k, e) => do a <- acc; do v <- ev e; merge_field fo a k v) fs (Ok acc) = Ok r ->
      nodup_fields fs = true ->
      (forall k e, In (k, e) fs -> existsb (bytes_eqb k) (names acc) = false) ->
      exists vs, Forall2 (fun ke kv => fst ke = fst kv /\ ev (snd ke) = Ok (snd kv)) fs vs /\ r = acc ++ vs.
  Proof.
    induction fs as [|[k e] fs IH]; simpl; intros acc r H N D.
    - inversion H. exists []. split; [constructor|now rewrite app_nil_r].
    - apply andb_true_iff in N. destruct N as [N1 N2].
      destruct (ev e) as [v| | |] eqn:E; simpl in H;
        try (exfalso; eapply (fold_not_ok ev fs); [|exact H]; intros; discriminate).
      rewrite (merge_field_fresh acc k v) in H by (eapply D; left; reflexivity).
      destruct (IH (acc ++ [(k, v)]) r H N2) as (vs & F & R).
      + intros k' e' I. replace (names (acc ++ [(k, v)])) with (names acc ++ [k]) by (unfold names; now rewrite map_app).
        rewrite existsb_app. simpl.
        rewrite (D k' e') by (right; exact I). simpl. rewrite orb_false_r.
        apply negb_true_iff in N1. destruct (bytes_eqb k' k) eqn:E'; auto.
        apply bytes_eqb_spec in E'. subst k'. exfalso.
        assert (existsb (fun '(k', _) => bytes_eqb k k') fs = true).
        { apply existsb_exists. exists (k, e'). split; auto. apply bytes_eqb_refl. }
        congruence.
      + exists ((k, v) :: vs). split.
        * constructor; auto.
        * rewrite R. now rewrite <- app_assoc.
  Qed.

  Lemma nodup_fields_names (fs : list (bytes * expr)) : nodup_fields fs = nodup_names (map fst fs).
  Proof.
    induction fs as [|[k e] fs IH]; simpl; auto. rewrite IH. f_equal. f_equal.
    clear IH. induction fs as [|[k' e'] fs IH]; simpl; auto. now rewrite IH.
  Qed.

  Lemma inh_tuple_forall2 (vs : list (bytes * value)) (ss : list (bytes * shape)) :
    Forall2 (fun kv ks => fst kv = fst ks /\ inh (snd kv) (snd ks) = true) vs ss ->
    NoDup (map fst ss) -> inh (VTuple vs) (STuple ss) = true.
  Proof.
    intros F N. rewrite inh_tuple_unfold. rewrite forallb_forall. intros [k x] I.
    destruct (forall2_in_l _ _ _ _ F I) as ([k' t] & It & E & Hi). simpl in *. subst k'.
    now rewrite (st_get_rev_NoDup ss k t N It).
  Qed.

  Lemma inh_list_forall2 (vs : list value) (ss : list shape) :
    Forall2 (fun v s => inh v s = true) vs ss -> inh (VList vs) (SList ss) = true.
  Proof.
    intros F. simpl. induction F as [|v s vs ss H F IH]; simpl; auto.
    rewrite H. simpl. rewrite forallb_forall in *. intros x I. rewrite (IH x I). apply orb_true_r.
  Qed.

  Lemma range_from_ints n a stp z :
    forallb (fun x => existsb (inh x) [SInt]) (range_from fo n a stp z) = true.
  Proof.
    revert a. induction n as [|n IH]; simpl; intros a; auto.
    destruct (Z.ltb z a); simpl; auto. destruct (in_i64 (a + stp)); simpl; auto.
  Qed.

  Lemma arith_prim o lv rv v sl sr :
    arith' fo o lv rv = Ok v -> is_prim sl = true -> is_prim sr = true ->
    inh lv sl = true -> inh rv sr = true -> sl = sr /\ inh v sl = true.
  Proof.
    intros H Pl Pr Il Ir.
    destruct sl; try discriminate; destruct sr; try discriminate;
      destruct lv; try discriminate; destruct rv; try discriminate;
        destruct o; simpl in H; try discriminate; unfold chk in H;
          repeat match type of H with
                 | (if ?c then _ else _) = Ok _ => destruct c; try discriminate
                 end;
          inversion H; subst; split; reflexivity.
  Qed.

  Lemma derive_st_of_f e st s :
    (forall df, expr_depth e <= df -> derive_f df e st = (s, st)) -> derive st e = s.
  Proof. intros H. unfold derive, derive_st. rewrite H by lia. reflexivity. Qed.

  (* ---- one_or_narrowed ---- *)
  Lemma one_or_narrowed_inh (v : value) results r :
    In r results -> inh v r = true -> inh v (one_or_narrowed results) = true.
  Proof.
    intros I H. destruct results as [|x [|y l]]; [contradiction| |].
    - destruct I as [->|[]]. exact H.
    - change (inh v (one_or_narrowed (x :: y :: l))) with (existsb (inh v) (x :: y :: l)).
      apply existsb_exists. eauto.
  Qed.
  Lemma one_or_narrowed_hf results :
    (forall r, In r results -> hfb r = true) -> hfb (one_or_narrowed results) = true.
  Proof.
    intros H. destruct results as [|x [|y l]]; [reflexivity|apply H; now left|].
    change (hfb (one_or_narrowed (x :: y :: l))) with (forallb hfb (x :: y :: l)).
    apply forallb_forall. exact H.
  Qed.
  Lemma inh_narrowed_in (v : value) l s : In s l -> inh v s = true -> inh v (SNarrowed l) = true.
  Proof.
    intros I H. destruct l as [|x l]; [reflexivity|].
    change (inh v (SNarrowed (x :: l))) with (existsb (inh v) (x :: l)). apply existsb_exists. eauto.
  Qed.
  Lemma inh_narrowed_cons (v : value) x l :
    inh v (SNarrowed (x :: l)) = true -> exists t, In t (x :: l) /\ inh v t = true.
  Proof.
    change (inh v (SNarrowed (x :: l))) with (existsb (inh v) (x :: l)). intros H.
    apply existsb_exists in H. exact H.
  Qed.

  (* ---- selection: what derive_dot_expression answers on hole-free shapes ---- *)
  Definition dot_sym (k : bytes) (ls : shape) : shape :=
    match ls with
    | STuple fs => match st_get k (rev fs) with Some s => s | None => SErr EType end
    | SList _ | SListAny => SErr EType
    | SHole _ => SAny
    | SAny | SNarrowed [] => SAny
    | SNarrowed types =>
      one_or_narrowed
        (flat_map (fun t => match t with
                            | STuple fs => flat_map (fun '(n, s) => if bytes_eqb n k then [s] else []) fs
                            | SHole _ | SAny | SNarrowed _ => [SAny]
                            | _ => [] end) types)
    | SErr _ => ls
    | _ => SErr EType
    end.
  Definition dot_int (ls : shape) : shape :=
    match ls with
    | STuple _ => SErr EType
    | SList _ | SListAny => elem_shape ls
    | SHole _ => SAny
    | SAny | SNarrowed [] => SAny
    | SNarrowed types =>
      one_or_narrowed
        (flat_map (fun t => match t with
                            | SList _ | SListAny => [elem_shape t]
                            | SHole _ | SAny | SNarrowed _ => [SAny]
                            | _ => [] end) types)
    | SErr _ => ls
    | _ => SErr EType
    end.
  Definition dot_call (ls : shape) : shape :=
    match ls with
    | STuple _ | SHole _ | SAny | SNarrowed _ => SAny
    | SErr _ => ls
    | _ => SErr EType
    end.

  Lemma dot_f_sym n ls k st : hfb ls = true -> dot_f (S n) ls (ESym k) st = (dot_sym k ls, st).
  Proof. intros H. destruct ls; try discriminate; try reflexivity; destruct ts; reflexivity. Qed.
  Lemma dot_f_str n ls k st : hfb ls = true -> dot_f (S n) ls (EStr k) st = (dot_sym k ls, st).
  Proof. intros H. destruct ls; try discriminate; try reflexivity; destruct ts; reflexivity. Qed.
  Lemma dot_f_int n ls i st : hfb ls = true -> dot_f (S n) ls (EInt i) st = (dot_int ls, st).
  Proof. intros H. destruct ls; try discriminate; try reflexivity; destruct ts; reflexivity. Qed.
  Lemma dot_f_call n ls fe args st : hfb ls = true -> dot_f (S n) ls (ECall fe args) st = (dot_call ls, st).
  Proof. intros H. destruct ls; try discriminate; reflexivity. Qed.
  Lemma dot_f_copy n ls t fs st : hfb ls = true -> dot_f (S n) ls (ECopy t fs) st = (dot_call ls, st).
  Proof. intros H. destruct ls; try discriminate; reflexivity. Qed.

  Lemma hf_tuple_in fs k t : hfb (STuple fs) = true -> In (k, t) fs -> hfb t = true.
  Proof. simpl. intros H I. rewrite forallb_forall in H. apply (H (k, t) I). Qed.

  Lemma hf_dot_sym k ls : hfb ls = true -> hfb (dot_sym k ls) = true.
  Proof.
    intros H. destruct ls; try discriminate; try reflexivity.
    - simpl. destruct (st_get k (rev fs)) eqn:E; auto.
      apply st_get_in in E. apply in_rev in E. eapply hf_tuple_in; eauto.
    - destruct ts as [|t ts]; [reflexivity|]. unfold dot_sym.
      apply one_or_narrowed_hf. intros r I. apply in_flat_map in I. destruct I as (t0 & It & Ir).
      change (forallb hfb (t :: ts) = true) in H. rewrite forallb_forall in H. specialize (H t0 It).
      destruct t0; simpl in Ir; try contradiction; try (destruct Ir as [<-|[]]; reflexivity).
      apply in_flat_map in Ir. destruct Ir as ([n s] & Is & Hs).
      destruct (bytes_eqb n k); [destruct Hs as [<-|[]]|contradiction]. eapply hf_tuple_in; eauto.
  Qed.

  Lemma hf_elem_shape t : hfb t = true -> hfb (elem_shape t) = true.
  Proof. destruct t; simpl; auto. Qed.

  Lemma hf_dot_int ls : hfb ls = true -> hfb (dot_int ls) = true.
  Proof.
    intros H. destruct ls; try discriminate; try reflexivity.
    - exact H.
    - destruct ts as [|t ts]; [reflexivity|]. unfold dot_int.
      apply one_or_narrowed_hf. intros r I. apply in_flat_map in I. destruct I as (t0 & It & Ir).
      change (forallb hfb (t :: ts) = true) in H. rewrite forallb_forall in H. specialize (H t0 It).
      destruct t0; simpl in Ir; try contradiction; destruct Ir as [<-|[]]; try reflexivity.
      exact H.
  Qed.

  Lemma hf_dot_call ls : hfb ls = true -> hfb (dot_call ls) = true.
  Proof. destruct ls; simpl; auto. Qed.

  Lemma dot_sym_sound ls k (fs : list (bytes * value)) v :
    hfb ls = true -> inh (VTuple fs) ls = true -> lookup fo k fs = Some v -> inh v (dot_sym k ls) = true.
  Proof.
    intros H I L. apply lookup_in in L.
    destruct ls; try discriminate; try reflexivity.
    - rewrite inh_tuple_unfold in I. rewrite forallb_forall in I. specialize (I (k, v) L). simpl in I.
      simpl. destruct (st_get k (rev fs0)); [exact I|discriminate].
    - destruct ts as [|t ts]; [reflexivity|].
      destruct (inh_narrowed_cons _ _ _ I) as (t0 & It & I0). unfold dot_sym.
      change (forallb hfb (t :: ts) = true) in H. rewrite forallb_forall in H. specialize (H t0 It).
      destruct t0; try discriminate.
      + rewrite inh_tuple_unfold in I0. rewrite forallb_forall in I0. specialize (I0 (k, v) L). simpl in I0.
        destruct (st_get k (rev fs0)) as [tk|] eqn:E; [|discriminate].
        apply st_get_in in E. apply in_rev in E.
        apply (one_or_narrowed_inh v _ tk); auto.
        apply in_flat_map. exists (STuple fs0). split; auto.
        apply in_flat_map. exists (k, tk). split; auto. rewrite bytes_eqb_refl. now left.
      + apply (one_or_narrowed_inh v _ SAny); auto. apply in_flat_map. exists SAny. split; auto. now left.
      + apply (one_or_narrowed_inh v _ SAny); auto. apply in_flat_map. exists (SNarrowed ts0). split; auto. now left.
  Qed.

  Lemma inh_list_elem (items : list value) ts v :
    inh (VList items) (SList ts) = true -> In v items -> inh v (SNarrowed ts) = true.
  Proof.
    simpl. intros H I. rewrite forallb_forall in H. specialize (H v I).
    apply existsb_exists in H. destruct H as (t & It & Ht). eapply inh_narrowed_in; eauto.
  Qed.

  Lemma dot_int_sound ls (items : list value) v :
    hfb ls = true -> inh (VList items) ls = true -> In v items -> inh v (dot_int ls) = true.
  Proof.
    intros H I L.
    destruct ls; try discriminate; try reflexivity.
    - simpl. eapply inh_list_elem; eauto.
    - destruct ts as [|t ts]; [reflexivity|].
      destruct (inh_narrowed_cons _ _ _ I) as (t0 & It & I0). unfold dot_int.
      change (forallb hfb (t :: ts) = true) in H. rewrite forallb_forall in H. specialize (H t0 It).
      destruct t0; try discriminate.
      + apply (one_or_narrowed_inh v _ SAny); auto. apply in_flat_map. exists SListAny. split; auto. now left.
      + apply (one_or_narrowed_inh v _ (SNarrowed ts0)); [|eapply inh_list_elem; eauto].
        apply in_flat_map. exists (SList ts0). split; auto. now left.
      + apply (one_or_narrowed_inh v _ SAny); auto. apply in_flat_map. exists SAny. split; auto. now left.
      + apply (one_or_narrowed_inh v _ SAny); auto. apply in_flat_map. exists (SNarrowed ts0). split; auto. now left.
  Qed.

  Lemma dot_call_sound ls (fs : list (bytes * value)) (v : value) :
    hfb ls = true -> inh (VTuple fs) ls = true -> inh v (dot_call ls) = true.
  Proof. intros H I. destruct ls; try discriminate; reflexivity. Qed.

  Lemma derive_f_dot df l r st :
    derive_f (S df) (EBin DOT l r) st
    = let '(ls, st1) := derive_f df l st in
      let '(sh, st2) := dot_f df ls r st1 in
      (sh, match l with
           | ESym x =>
             if is_err sh then st2
             else match ls with
                  | SHole _ =>
                    if bytes_eqb x (b "env") then st2 else
                    st_set x (match r with
                              | ESym k | EStr k => STuple [(k, SAny)]
                              | EInt _ => SListAny
                              | _ => ls
                              end) st2
                  | _ => st2
                  end
           | _ => st2
           end).
  Proof. reflexivity. Qed.

  Lemma dot_no_update (l : expr) (ls sh : shape) (r : expr) (st2 : symtab) :
    hfb ls = true ->
    match l with
    | ESym x =>
      if is_err sh then st2
      else match ls with
           | SHole _ =>
             if bytes_eqb x (b "env") then st2 else
             st_set x (match r with
                       | ESym k | EStr k => STuple [(k, SAny)]
                       | EInt _ => SListAny
                       | _ => ls
                       end) st2
           | _ => st2
           end
    | _ => st2
    end = st2.
  Proof. intros H. destruct l; auto. destruct (is_err sh); auto. destruct ls; try discriminate; reflexivity. Qed.

  (* ---- select: merging ---- *)
  Lemma merge_keeps types s t : In t types -> In t (merge_in_shape types s).
  Proof. unfold merge_in_shape. destruct (existsb _ types); auto. intros; apply in_or_app; now left. Qed.
  Lemma merge_subset types s x : In x (merge_in_shape types s) -> In x types \/ x = s.
  Proof.
    unfold merge_in_shape. destruct (existsb _ types); auto. intros I. apply in_app_or in I.
    destruct I as [I|[<-|[]]]; auto.
  Qed.
  Lemma prim_same_eq t s : prim_same t s = true -> t = s.
  Proof. destruct t; try discriminate; destruct s; try discriminate; reflexivity. Qed.
  Lemma sel_ok_in types s : sel_ok types s = true -> In s (merge_in_shape types s).
  Proof.
    unfold sel_ok, merge_in_shape. intros H. apply orb_true_iff in H. destruct H as [H|H].
    - apply negb_true_iff in H. rewrite H. apply in_or_app. right. now left.
    - apply existsb_exists in H. destruct H as (t & It & Ht). apply prim_same_eq in Ht. subst t.
      destruct (existsb _ types); auto. apply in_or_app. now left.
  Qed.
  Lemma fold_merge_keeps l : forall types t, In t types -> In t (fold_left merge_in_shape l types).
  Proof. induction l as [|s l IH]; simpl; auto. intros types t I. apply IH. now apply merge_keeps. Qed.
  Lemma sel_ok_all_in l : forall types s, sel_ok_all types l = true -> In s l -> In s (fold_left merge_in_shape l types).
  Proof.
    induction l as [|s0 l IH]; simpl; intros types s H I; [contradiction|].
    apply andb_true_iff in H. destruct H as [H1 H2]. destruct I as [<-|I].
    - apply fold_merge_keeps. now apply sel_ok_in.
    - apply IH; auto.
  Qed.
  Lemma fold_merge_subset l : forall types x, In x (fold_left merge_in_shape l types) -> In x types \/ In x l.
  Proof.
    induction l as [|s l IH]; simpl; auto. intros types x I.
    destruct (IH _ _ I) as [J|J]; auto. destruct (merge_subset _ _ _ J) as [K | ->]; auto.
  Qed.

  Lemma find_arm_in k (arms : list (bytes * expr)) ae :
    (fix find (arms : list (bytes * expr)) : option expr :=
       match arms with
       | [] => None
       | (k', ae) :: arms' => if bytes_eqb k k' then Some ae else find arms'
       end) arms = Some ae -> exists k', In (k', ae) arms.
  Proof.
    induction arms as [|[k' a] arms IH]; intros H; [discriminate|].
    destruct (bytes_eqb k k'); [inversion H; subst; exists k'; now left|].
    destruct (IH H) as (k2 & I). exists k2. now right.
  Qed.

  Lemma sublist_inh (l sub : list value) ts :
    inh (VList l) (SList ts) = true -> (forall x, In x sub -> In x l) -> inh (VList sub) (SList ts) = true.
  Proof. simpl. rewrite !forallb_forall. intros H S x I. apply H, S, I. Qed.

  Lemma derive_f_func_lit df ps body st : exists s', derive_f (S df) (EFunc ps body) st = (s', st) /\ hfb s' = true.
  Proof. simpl. destruct (derive_f df body _). eexists. split; reflexivity. Qed.

  (* ---- arithmetic: a primitive shape against a data shape (candidate sets included) ---- *)
  Lemma in_shapes_size (l : list shape) x :
    In x l -> shape_size x <= fold_right (fun s n => shape_size s + n) 0 l.
  Proof.
    induction l as [|y l IH]; simpl; intros H; [contradiction|].
    destruct H as [H|H]; [subst; lia|]. specialize (IH H). lia.
  Qed.

  Lemma any_compat_l_pure (nf : NF) other ts (c : shape -> bool) :
    (forall t, In t ts -> pure_at nf t other (c t)) ->
    forall s acc, any_compat_l nf ts other s acc = (acc || existsb c ts, s).
  Proof.
    induction ts as [|t ts IH]; simpl; intros H s acc.
    - now rewrite orb_false_r.
    - destruct (H t (or_introl eq_refl) s) as (r & E & Hc). rewrite E.
      rewrite IH by (intros; apply H; now right). rewrite Hc. now rewrite orb_assoc.
  Qed.

  Lemma any_compat_r_pure' (nf : NF) other ts (c : shape -> bool) :
    (forall t, In t ts -> pure_at nf other t (c t)) ->
    forall s acc, any_compat_r nf ts other s acc = (acc || existsb c ts, s).
  Proof.
    induction ts as [|t ts IH]; simpl; intros H s acc.
    - now rewrite orb_false_r.
    - destruct (H t (or_introl eq_refl) s) as (r & E & Hc). rewrite E.
      rewrite IH by (intros; apply H; now right). rewrite Hc. now rewrite orb_assoc.
  Qed.

  Lemma narrow_f_cands_l f t ts r s :
    is_err r = false -> ref_name r = None -> hole_name r = None -> is_any r = false ->
    is_empty_narrowed r = false ->
    narrow_f (S f) (SNarrowed (t :: ts)) r s
    = let '(ok, s1) := any_compat_l (narrow_f f) (t :: ts) r s false in ((if ok then r else SErr EType), s1).
  Proof. intros. destruct r; try discriminate; try reflexivity. destruct ts0; try discriminate; reflexivity. Qed.

  (* a data shape against a primitive one: no state change; the result is the primitive shape when the
     data shape admits it, a TypeErr otherwise *)
  Definition pres (nf : NF) (x y : shape) (c : bool) (p : shape) : Prop :=
    forall s, exists r, nf x y s = (r, s) /\ (if c then r = p else is_err r = true).

  Lemma pres_pure_at nf x y c p : is_prim p = true -> pres nf x y c p -> pure_at nf x y c.
  Proof.
    intros Pp H s. destruct (H s) as (r & E & C). exists r. split; auto.
    destruct c; [subst r; destruct p; try discriminate Pp; reflexivity|now rewrite C].
  Qed.

  Ltac pres_leaf := let s := fresh "s" in intro s; eexists; (split; [reflexivity|reflexivity]).

  Lemma narrow_ds_prim : forall f l p,
    is_prim p = true -> dsb l = true -> shape_size l < f ->
    pres (narrow_f f) l p (admits p l) p /\ pres (narrow_f f) p l (admits p l) p.
  Proof.
    induction f as [|f IH]; intros l p Pp Dl Hsz; [lia|].
    destruct l; try discriminate Dl;
      try (destruct p; try discriminate Pp; split; pres_leaf).
    (* SNarrowed *)
    destruct ts as [|t ts].
    { destruct p; try discriminate Pp; split; pres_leaf. }
    assert (IHt : forall t0, In t0 (t :: ts) ->
                             pure_at (narrow_f f) t0 p (admits p t0) /\ pure_at (narrow_f f) p t0 (admits p t0)).
    { intros t0 I. destruct (IH t0 p Pp) as [H1 H2].
      - change (forallb dsb (t :: ts) = true) in Dl. rewrite forallb_forall in Dl. auto.
      - pose proof (in_shapes_size (t :: ts) t0 I). simpl in Hsz. simpl in H. lia.
      - split; eapply pres_pure_at; eauto. }
    change (admits p (SNarrowed (t :: ts))) with (existsb (admits p) (t :: ts)).
    split; intro s.
    + rewrite narrow_f_cands_l by (destruct p; try discriminate Pp; reflexivity).
      rewrite (any_compat_l_pure (narrow_f f) p (t :: ts) (admits p)) by (intros; apply IHt; auto).
      rewrite orb_false_l. destruct (existsb (admits p) (t :: ts)); eexists; split; reflexivity.
    + rewrite narrow_f_cands_r by (destruct p; try discriminate Pp; reflexivity).
      rewrite (any_compat_r_pure' (narrow_f f) p (t :: ts) (admits p)) by (intros; apply IHt; auto).
      rewrite orb_false_l. destruct (existsb (admits p) (t :: ts)); eexists; split; reflexivity.
  Qed.

  Definition prim_shape_of (v : value) : option shape :=
    match v with
    | VBool _ => Some SBool | VInt _ => Some SInt | VFloat _ => Some SFloat | VStr _ => Some SStr
    | _ => None
    end.

  Lemma inh_admits : forall n s (v : value) p,
    shape_size s <= n -> prim_shape_of v = Some p -> inh v s = admits p s.
  Proof.
    induction n as [|n IH]; intros s v p Hsz Hp.
    { pose proof (shape_size_pos s). lia. }
    destruct s; try (destruct v; inversion Hp; subst; reflexivity).
    destruct ts as [|t ts]; [reflexivity|].
    change (inh v (SNarrowed (t :: ts))) with (existsb (inh v) (t :: ts)).
    change (admits p (SNarrowed (t :: ts))) with (existsb (admits p) (t :: ts)).
    apply existsb_ext_in. intros t0 I. apply IH; auto.
    pose proof (in_shapes_size (t :: ts) t0 I). simpl in Hsz. simpl in H. lia.
  Qed.

  Lemma prim_shape_inh (v : value) p : prim_shape_of v = Some p -> is_prim p = true /\ inh v p = true.
  Proof. destruct v; simpl; intros H; inversion H; subst; split; reflexivity. Qed.
  Lemma inh_prim_shape (v : value) p : is_prim p = true -> inh v p = true -> prim_shape_of v = Some p.
  Proof. destruct p; try discriminate; destruct v; try discriminate; reflexivity. Qed.

  (* the operands of a successful arithmetic operation have one primitive kind, and so has the result *)
  Lemma arith_kind o lv rv v p :
    arith' fo o lv rv = Ok v -> (prim_shape_of lv = Some p \/ prim_shape_of rv = Some p) ->
    prim_shape_of lv = Some p /\ prim_shape_of rv = Some p /\ prim_shape_of v = Some p.
  Proof.
    intros H K.
    destruct lv; destruct rv; destruct o; simpl in H; try discriminate; unfold chk in H;
      repeat match type of H with
             | (if ?c then _ else _) = Ok _ => destruct c; try discriminate
             end;
      inversion H; subst; simpl in *; destruct K as [K|K]; inversion K; subst; auto.
  Qed.

  (* narrowing for arithmetic (arith_ok): the table is untouched; when both operand values have the
     primitive kind p and inhabit the operand shapes, the result is the shape p *)
  Lemma narrow_st_arith st sl sr :
    arith_ok sl sr = true ->
    exists res, narrow_st st sl sr = (res, st) /\ hfb res = true
                /\ forall (lv rv : value) p,
                     prim_shape_of lv = Some p -> prim_shape_of rv = Some p ->
                     inh lv sl = true -> inh rv sr = true -> res = p.
  Proof.
    intros A. unfold arith_ok in A. apply orb_true_iff in A.
    pose proof (narrow_fuel_ge st sl sr) as Hf. unfold narrow_st.
    destruct A as [A|A]; apply andb_true_iff in A; destruct A as [A1 A2].
    - destruct (narrow_ds_prim (narrow_fuel st sl sr) sr sl A1 A2) as [_ P].
      { pose proof (shape_size_pos sl). lia. }
      destruct (P (mk_nst st [])) as (res & E & C). rewrite E. exists res. split; [reflexivity|]. split.
      { destruct (admits sl sr); [subst res; destruct sl; try discriminate A1; reflexivity|].
        destruct res; try discriminate C; reflexivity. }
      intros lv rv p Hl Hr Il Ir.
      assert (sl = p).
      { destruct (prim_shape_inh lv p Hl) as [Pp Ip]. rewrite (inh_admits _ sl lv p (le_n _) Hl) in Il.
        destruct sl; try discriminate A1; destruct p; try discriminate Pp; try discriminate Il; reflexivity. }
      subst sl. rewrite (inh_admits _ sr rv p (le_n _) Hr) in Ir. now rewrite Ir in C.
    - destruct (narrow_ds_prim (narrow_fuel st sl sr) sl sr A2 A1) as [P _].
      { pose proof (shape_size_pos sr). lia. }
      destruct (P (mk_nst st [])) as (res & E & C). rewrite E. exists res. split; [reflexivity|]. split.
      { destruct (admits sr sl); [subst res; destruct sr; try discriminate A2; reflexivity|].
        destruct res; try discriminate C; reflexivity. }
      intros lv rv p Hl Hr Il Ir.
      assert (sr = p).
      { destruct (prim_shape_inh rv p Hr) as [Pp Ip]. rewrite (inh_admits _ sr rv p (le_n _) Hr) in Ir.
        destruct sr; try discriminate A2; destruct p; try discriminate Pp; try discriminate Ir; reflexivity. }
      subst sr. rewrite (inh_admits _ sl lv p (le_n _) Hl) in Il. now rewrite Il in C.
  Qed.

  Lemma arith_ok_kind sl sr (lv rv : value) :
    arith_ok sl sr = true -> inh lv sl = true -> inh rv sr = true ->
    exists p, prim_shape_of lv = Some p \/ prim_shape_of rv = Some p.
  Proof.
    intros A Il Ir. unfold arith_ok in A. apply orb_true_iff in A.
    destruct A as [A|A]; apply andb_true_iff in A; destruct A as [A1 A2].
    - exists sl. left. now apply inh_prim_shape.
    - exists sr. right. now apply inh_prim_shape.
  Qed.

  (* ---- lists of sound sub-derivations ---- *)
  Definition fsound (st : symtab) (ke : bytes * expr) (ks : bytes * shape) : Prop :=
    fst ke = fst ks /\ sound_at st (snd ke) (snd ks).

  Lemma derive_list_P st es ss :
    Forall2 (sound_at st) es ss ->
    forall df, depth_list (fun e1 => expr_depth e1) es <= df -> derive_list (derive_f df) es st = (ss, st).
  Proof.
    induction 1 as [|e s es ss [D _] F IH]; simpl; intros df H; auto.
    rewrite D by lia. rewrite IH by lia. reflexivity.
  Qed.
  Lemma derive_fields_P st fs ss :
    Forall2 (fsound st) fs ss ->
    forall df, depth_fields (fun e1 => expr_depth e1) fs <= df -> derive_fields (derive_f df) fs st = (ss, st).
  Proof.
    induction 1 as [|[k e] [k' s] fs ss [E [D _]] F IH]; simpl in *; intros df H; auto.
    subst. rewrite D by lia. rewrite IH by lia. reflexivity.
  Qed.
  Lemma list_hf st es ss : Forall2 (sound_at st) es ss -> forallb hfb ss = true.
  Proof. induction 1 as [|e s es ss [_ [H _]] F IH]; simpl; auto. now rewrite H, IH. Qed.
  Lemma fields_hf st fs ss : Forall2 (fsound st) fs ss -> forallb (fun '(_, t) => hfb t) ss = true.
  Proof. induction 1 as [|[k e] [k' s] fs ss [_ [_ [H _]]] F IH]; simpl in *; auto. now rewrite H, IH. Qed.
  Lemma fields_names st fs ss : Forall2 (fsound st) fs ss -> map fst ss = map fst fs.
  Proof. induction 1 as [|[k e] [k' s] fs ss [E _] F IH]; simpl in *; auto. now rewrite IH, E. Qed.
  Lemma fields_shapes st fs ss : Forall2 (fsound st) fs ss -> map (fun '(_, e1) => derive st e1) fs = map snd ss.
  Proof.
    induction 1 as [|[k e] [k' s] fs ss [_ [D _]] F IH]; simpl in *; auto.
    rewrite IH. f_equal. now apply derive_st_of_f.
  Qed.
  Lemma list_inh st es ss fuel c vs :
    strict fo c = true -> env_ok (sc fo c) st ->
    Forall2 (sound_at st) es ss -> Forall2 (fun e v => eval fo fuel c e = Ok v) es vs ->
    Forall2 (fun v s => inh v s = true) vs ss.
  Proof.
    intros Hs He F. revert vs. induction F as [|e s es ss [_ [_ E]] F IH]; intros vs G; inversion G; subst; constructor.
    - eapply E; eauto.
    - auto.
  Qed.
  Lemma fields_inh st fs ss fuel c vs :
    strict fo c = true -> env_ok (sc fo c) st ->
    Forall2 (fsound st) fs ss ->
    Forall2 (fun ke kv => fst ke = fst kv /\ eval fo fuel c (snd ke) = Ok (snd kv)) fs vs ->
    Forall2 (fun kv ks => fst kv = fst ks /\ inh (snd kv) (snd ks) = true) vs ss.
  Proof.
    intros Hs He F. revert vs.
    induction F as [|[k e] [k' s] fs ss [K [_ [_ E]]] F IH]; intros vs G; inversion G as [|? [k2 v] ? ? [K2 E2]]; subst;
      constructor; auto.
    simpl in *. split; [congruence|]. eapply E; eauto.
  Qed.

  Lemma derive_select_P st arms ss dflt (ds : option shape) :
    Forall2 (fsound st) arms ss ->
    match dflt, ds with
    | Some d, Some sd => sound_at st d sd
    | None, None => True
    | _, _ => False
    end ->
    forall df types,
      depth_fields (fun e1 => expr_depth e1) arms <= df ->
      match dflt with Some d => expr_depth d | None => 0 end <= df ->
      derive_select (derive_f df) merge_in_shape dflt arms types st
      = (SNarrowed (fold_left merge_in_shape (map snd ss ++ match ds with Some sd => [sd] | None => [] end) types), st).
  Proof.
    intros F Hd. induction F as [|[k e] [k' s] arms ss [E [D _]] F IH]; simpl in *; intros df types H1 H2.
    - destruct dflt as [d|], ds as [sd|]; try contradiction; auto.
      destruct Hd as [Dd _]. rewrite Dd by lia. reflexivity.
    - rewrite D by lia. apply IH; lia.
  Qed.

  Definition not_shape (s1 : shape) : shape :=
    match s1 with
    | SBool | SHole _ | SAny => SBool
    | SNarrowed ts => if existsb may_be_boolean ts then SBool else SErr EType
    | _ => SErr EType
    end.
  Definition filter_shape (ts : shape) : shape :=
    match ts with
    | SList _ | SListAny => ts
    | SHole _ | SAny => SAny
    | SStr => ts
    | STuple _ | SNarrowed _ => SAny
    | _ => SErr EType
    end.

  Lemma prim_same_refl s : is_prim s = true -> prim_same s s = true.
  Proof. destruct s; simpl; auto; discriminate. Qed.

  Local Opaque bytes_eqb arith'.

  Ltac break_H H :=
    unfold bind in H;
    repeat match type of H with
           | context [match ?x with _ => _ end] => destruct x eqn:?; simpl in H; try discriminate H
           end.
  Ltac noupd :=
    match goal with
    | Hl : hfb ?sl = true |- match ?e1 with _ => _ end = _ =>
      clear - Hl; destruct e1; try reflexivity;
      match goal with |- (if ?c then _ else _) = _ => destruct c; try reflexivity end;
      destruct sl; try discriminate Hl; reflexivity
    end.
  Ltac fuel_case df D := destruct df; [simpl in D; lia|]; simpl in D; apply le_S_n in D.

  (* soundness of derive on the fragment *)
  Lemma derive_sound_aux : forall n e st,
    expr_depth e <= n -> st_ok st -> fragment_fo st e = true -> exists s, sound_at st e s.
  Proof.
    induction n as [|n IH]; intros e st Hd Hst F.
    { destruct e; simpl in Hd; lia. }
    destruct e; simpl in F; try discriminate.
    - (* ENull *) exists SAny. split; [|split]; auto.
      + intros df D. destruct df; [simpl in D; lia|reflexivity].
    - exists SBool. split; [|split]; auto.
      + intros df D. destruct df; [simpl in D; lia|reflexivity].
      + intros fuel c v0 Hs He H. destruct fuel; [discriminate|]. simpl in H. now inversion H.
    - exists SInt. split; [|split]; auto.
      + intros df D. destruct df; [simpl in D; lia|reflexivity].
      + intros fuel c v0 Hs He H. destruct fuel; [discriminate|]. simpl in H. now inversion H.
    - exists SFloat. split; [|split]; auto.
      + intros df D. destruct df; [simpl in D; lia|reflexivity].
      + intros fuel c v0 Hs He H. destruct fuel; [discriminate|]. simpl in H. now inversion H.
    - exists SStr. split; [|split]; auto.
      + intros df D. destruct df; [simpl in D; lia|reflexivity].
      + intros fuel c v0 Hs He H. destruct fuel; [discriminate|]. simpl in H. now inversion H.
    - (* ESym *)
      unfold sym_ok, st_has in F.
      apply andb_true_iff in F. destruct F as [F F3]. apply andb_true_iff in F. destruct F as [F1 F2].
      apply negb_true_iff in F2, F3. simpl in F2, F3.
      destruct (st_get x st) as [s0|] eqn:G; [|discriminate].
      exists s0. split; [|split].
      + intros df D. destruct df; [simpl in D; lia|]. simpl. now rewrite G.
      + eapply Hst; eauto.
      + intros fuel c v0 Hs He H. destruct fuel; [discriminate|]. simpl in H. rewrite F2 in H.
        destruct (lookup fo x (sc fo c)) as [w|] eqn:L.
        * inversion H; subst. destruct (He x v0 L) as (s' & G' & I'). rewrite G in G'. inversion G'; subst. exact I'.
        * rewrite F3 in H. discriminate.
    - (* ETuple *)
      apply andb_true_iff in F. destruct F as [F1 F2].
      simpl in Hd. apply le_S_n in Hd.
      destruct (forall2_exists (fsound st) fs) as [ss FS].
      { intros [k e1] I. rewrite forallb_forall in F2. specialize (F2 (k, e1) I). simpl in F2.
        destruct (IH e1 st) as [s1 S1]; auto.
        { pose proof (depth_fields_in (fun e1 => expr_depth e1) fs k e1 I). lia. }
        exists (k, s1). split; auto. }
      exists (STuple ss). split; [|split].
      + intros df D. fuel_case df D. simpl. rewrite (derive_fields_P st fs ss FS) by lia. reflexivity.
      + simpl. eapply fields_hf; eauto.
      + intros fuel c v0 Hs He H. destruct fuel; [discriminate|]. simpl in H.
        destruct (fold_left _ fs (Ok [])) as [r| | |] eqn:T; simpl in H; try discriminate. inversion H; subst. clear H.
        destruct (tuple_lit_spec (eval fo fuel c) fs [] r T F1) as (vs & FA & R); [reflexivity|]. simpl in R. subst r.
        apply inh_tuple_forall2.
        * eapply fields_inh; eauto.
        * rewrite (fields_names st fs ss FS). apply nodup_names_NoDup. now rewrite <- nodup_fields_names.
    - (* EList *)
      simpl in Hd. apply le_S_n in Hd.
      destruct (forall2_exists (sound_at st) es) as [ss FS].
      { intros e1 I. rewrite forallb_forall in F. apply (IH e1 st); auto.
        pose proof (depth_list_in (fun e1 => expr_depth e1) es e1 I). lia. }
      exists (SList ss). split; [|split].
      + intros df D. fuel_case df D. simpl. rewrite (derive_list_P st es ss FS) by lia. reflexivity.
      + simpl. eapply list_hf; eauto.
      + intros fuel c v0 Hs He H. destruct fuel; [discriminate|]. simpl in H.
        destruct (mapM (eval fo fuel c) es) as [r| | |] eqn:M; simpl in H; try discriminate.
        inversion H; subst. clear H. apply mapM_ok in M.
        apply inh_list_forall2. eapply list_inh; eauto.
    - (* EBin *)
      simpl in Hd. apply le_S_n in Hd.
      assert (IH1 : fragment_fo st e1 = true -> exists s, sound_at st e1 s) by (intros; apply (IH e1 st); auto; lia).
      assert (IH2 : fragment_fo st e2 = true -> exists s, sound_at st e2 s) by (intros; apply (IH e2 st); auto; lia).
      destruct o; simpl in F.
      1-5: (* arithmetic *)
        (apply andb_true_iff in F; destruct F as [F F3]; apply andb_true_iff in F; destruct F as [F1 F2];
         destruct (IH1 F1) as (sl & Dl & Hl & El); destruct (IH2 F2) as (sr & Dr & Hr & Er);
         rewrite (derive_st_of_f e1 st sl Dl) in F3; rewrite (derive_st_of_f e2 st sr Dr) in F3;
         simpl in F3;
         destruct (narrow_st_arith st sl sr F3) as (res & En & Hn & Pn);
         exists res; split; [|split];
         [ intros df D; fuel_case df D; simpl; rewrite Dl by lia; rewrite Dr by lia; simpl; exact En
         | exact Hn
         | intros fuel c v0 Hs He H; destruct fuel; [discriminate|]; simpl in H;
           destruct (eval fo fuel c e2) as [rv| | |] eqn:E2; simpl in H; try discriminate;
           destruct (eval fo fuel c e1) as [lv| | |] eqn:E1; simpl in H; try discriminate;
           pose proof (El _ _ _ Hs He E1) as Il; pose proof (Er _ _ _ Hs He E2) as Ir;
           destruct (arith_ok_kind sl sr lv rv F3 Il Ir) as [p Kp];
           destruct (arith_kind _ lv rv v0 p H Kp) as (K1 & K2 & K3);
           rewrite (Pn lv rv p K1 K2 Il Ir); apply (prim_shape_inh v0 p K3) ]).
      1-2: (* && || : outside the fragment (Known class K10) *)
        (rewrite andb_false_r in F; discriminate).
      1-6: (* == > < != >= <= *)
        (rewrite andb_true_r in F; apply andb_true_iff in F; destruct F as [F1 F2];
         destruct (IH1 F1) as (sl & Dl & Hl & El); destruct (IH2 F2) as (sr & Dr & Hr & Er);
         exists SBool; split; [|split]; auto;
         [ intros df D; fuel_case df D; simpl; rewrite Dl by lia; rewrite Dr by lia; reflexivity
         | intros fuel c v0 Hs He H; destruct fuel; [discriminate|]; simpl in H;
           destruct (eval fo fuel c e2) as [rv| | |] eqn:E2; simpl in H; try discriminate;
           destruct (eval fo fuel c e1) as [lv| | |] eqn:E1; simpl in H; try discriminate;
           assert (Bv : exists x, v0 = VBool x)
             by (unfold compare_num in H; break_H H; inversion H; eauto);
           destruct Bv as [x ->]; reflexivity ]).
      1-3: (* =~ !~ in : outside the fragment *)
        (rewrite andb_false_r in F; discriminate).
      + (* is *)
        rewrite andb_true_r in F. apply andb_true_iff in F. destruct F as [F1 F2].
        destruct (IH1 F1) as (sl & Dl & Hl & El). destruct (IH2 F2) as (sr & Dr & Hr & Er).
        exists SBool. split; [|split]; auto.
        * intros df D. fuel_case df D. simpl. rewrite Dl by lia. rewrite Dr by lia. reflexivity.
        * intros fuel c v0 Hs He H. destruct fuel; [discriminate|]. simpl in H.
          destruct (eval fo fuel c e2) as [rv| | |] eqn:E2; simpl in H; try discriminate.
          destruct (eval fo fuel c e1) as [lv| | |] eqn:E1; simpl in H; try discriminate.
          assert (Bv : exists x, v0 = VBool x) by (break_H H; inversion H; eauto).
          destruct Bv as [x ->]. reflexivity.
      + (* . *)
        assert (K : fragment_fo st e1 = true
                    /\ ((exists k, e2 = ESym k \/ e2 = EStr k) \/ (exists i, e2 = EInt i)
                        \/ (exists k args, e2 = ECall (ESym k) args \/ e2 = ECall (EStr k) args)
                        \/ (exists k fs, e2 = ECopy (ESym k) fs \/ e2 = ECopy (EStr k) fs))).
        { destruct e2; try (rewrite andb_false_r in F; discriminate F);
            try (destruct (fragment_fo st e1); simpl in F; discriminate F); try (split; [exact F|]; eauto 8).
          - match type of F with context [match ?f with _ => _ end] => destruct f end;
              try (rewrite andb_false_r in F; discriminate F);
              try (destruct (fragment_fo st e1); simpl in F; discriminate F); split; try exact F;
              right; right; right; eauto.
          - match type of F with context [match ?f with _ => _ end] => destruct f end;
              try (rewrite andb_false_r in F; discriminate F);
              try (destruct (fragment_fo st e1); simpl in F; discriminate F); split; try exact F;
              right; right; left; eauto. }
        destruct K as [F1 K]. clear F.
        destruct (IH1 F1) as (sl & Dl & Hl & El).
        destruct K as [[k Ek] | [[i Ei] | [(k & args & Ek) | (k & fs & Ek)]]].
        * (* field *)
          exists (dot_sym k sl). split; [|split].
          -- intros df D. fuel_case df D. rewrite derive_f_dot.
             assert (D1 : expr_depth e1 <= df) by lia. rewrite (Dl df D1).
             assert (D2 : exists df', df = S df') by (destruct df; [exfalso; destruct Ek as [-> | ->]; simpl in D; lia | eauto]).
             destruct D2 as [df' ->].
             destruct Ek as [-> | ->]; [rewrite dot_f_sym by exact Hl | rewrite dot_f_str by exact Hl];
               f_equal; noupd.
          -- now apply hf_dot_sym.
          -- intros fuel c v0 Hs He H. destruct fuel; [discriminate|].
             assert (Hi : exists lv, eval fo fuel c e1 = Ok lv /\ index fo c lv (VStr k) = Ok v0).
             { destruct Ek as [-> | ->]; simpl in H.
               - destruct (eval fo fuel c e1) as [lv| | |] eqn:E1; simpl in H; try discriminate. eauto.
               - destruct (eval fo fuel c e1) as [lv| | |] eqn:E1; simpl in H; try discriminate.
                 destruct fuel; simpl in H; try discriminate. eauto. }
             destruct Hi as (lv & E1 & Hi). unfold index in Hi. rewrite Hs in Hi.
             destruct lv; try discriminate Hi.
             destruct (lookup fo k fs) as [w|] eqn:L; try discriminate Hi. inversion Hi; subst w.
             apply (dot_sym_sound sl k fs v0 Hl (El _ _ _ Hs He E1) L).
        * (* index *)
          subst e2. exists (dot_int sl). split; [|split].
          -- intros df D. fuel_case df D. rewrite derive_f_dot.
             assert (D1 : expr_depth e1 <= df) by lia. rewrite (Dl df D1).
             assert (D2 : exists df', df = S df') by (destruct df; [exfalso; simpl in D; lia | eauto]).
             destruct D2 as [df' ->]. rewrite dot_f_int by exact Hl.
             f_equal. noupd.
          -- now apply hf_dot_int.
          -- intros fuel c v0 Hs He H. destruct fuel; [discriminate|]. simpl in H.
             destruct (eval fo fuel c e1) as [lv| | |] eqn:E1; simpl in H; try discriminate.
             destruct fuel; simpl in H; try discriminate.
             unfold index in H. rewrite Hs in H.
             destruct lv; try discriminate H.
             destruct (Z.leb 0 i); try discriminate H.
             destruct (nth_error l (Z.to_nat i)) as [w|] eqn:Nth; try discriminate H. inversion H; subst w.
             apply (dot_int_sound sl l v0 Hl (El _ _ _ Hs He E1)). eapply nth_error_In; eauto.
        * (* call through a field *)
          exists (dot_call sl). split; [|split].
          -- intros df D. fuel_case df D. rewrite derive_f_dot.
             assert (D1 : expr_depth e1 <= df) by lia. rewrite (Dl df D1).
             assert (D2 : exists df', df = S df') by (destruct df; [exfalso; destruct Ek as [-> | ->]; simpl in D; lia | eauto]).
             destruct D2 as [df' ->].
             destruct Ek as [-> | ->]; rewrite dot_f_call by exact Hl; f_equal; noupd.
          -- now apply hf_dot_call.
          -- intros fuel c v0 Hs He H. destruct fuel; [discriminate|].
             assert (Hi : exists fs0, eval fo fuel c e1 = Ok (VTuple fs0)).
             { destruct Ek as [-> | ->]; simpl in H;
                 (destruct (mapM (eval fo fuel c) args) as [avs| | |]; simpl in H; try discriminate;
                  destruct (eval fo fuel c e1) as [lv| | |] eqn:E1; simpl in H; try discriminate;
                  rewrite Hs in H; destruct lv; simpl in H; try discriminate H; eauto). }
             destruct Hi as (fs0 & E1).
             apply (dot_call_sound sl fs0 v0 Hl (El _ _ _ Hs He E1)).
        * (* copy through a field *)
          exists (dot_call sl). split; [|split].
          -- intros df D. fuel_case df D. rewrite derive_f_dot.
             assert (D1 : expr_depth e1 <= df) by lia. rewrite (Dl df D1).
             assert (D2 : exists df', df = S df') by (destruct df; [exfalso; destruct Ek as [-> | ->]; simpl in D; lia | eauto]).
             destruct D2 as [df' ->].
             destruct Ek as [-> | ->]; rewrite dot_f_copy by exact Hl; f_equal; noupd.
          -- now apply hf_dot_call.
          -- intros fuel c v0 Hs He H. destruct fuel; [discriminate|].
             assert (Hi : exists fs0, eval fo fuel c e1 = Ok (VTuple fs0)).
             { destruct Ek as [-> | ->]; simpl in H;
                 (destruct (eval fo fuel c e1) as [lv| | |] eqn:E1; simpl in H; try discriminate;
                  rewrite Hs in H; destruct lv; simpl in H; try discriminate H; eauto). }
             destruct Hi as (fs0 & E1).
             apply (dot_call_sound sl fs0 v0 Hl (El _ _ _ Hs He E1)).
    - (* ENot *)
      apply andb_true_iff in F. destruct F as [F1 F2].
      simpl in Hd. apply le_S_n in Hd.
      destruct (IH e st Hd Hst F1) as (s1 & D1 & H1 & E1).
      rewrite (derive_st_of_f e st s1 D1) in F2.
      exists (not_shape s1). split; [|split].
      + intros df D. fuel_case df D. simpl. rewrite D1 by lia. reflexivity.
      + destruct s1; simpl; auto. destruct (existsb _ ts); reflexivity.
      + intros fuel c v0 Hs He H. destruct fuel; [discriminate|]. simpl in H.
        destruct (eval fo fuel c e) as [w| | |] eqn:Ev; simpl in H; try discriminate.
        destruct w; try discriminate. inversion H; subst.
        specialize (E1 _ _ _ Hs He Ev). destruct s1; try discriminate; reflexivity.
    - (* EGroup *)
      simpl in Hd. apply le_S_n in Hd.
      destruct (IH e st Hd Hst F) as (s1 & D1 & H1 & E1).
      exists s1. split; [|split]; auto.
      + intros df D. fuel_case df D. simpl. now apply D1.
      + intros fuel c v0 Hs He H. destruct fuel; [discriminate|]. simpl in H. eapply E1; eauto.
    - (* ERange *)
      exists (SList [SInt]). split; [|split]; auto.
      + intros df D. destruct df; [simpl in D; lia|]. reflexivity.
      + intros fuel c v0 Hs He H. destruct fuel; [discriminate|]. simpl in H.
        assert (K : exists n a stp z, v0 = VList (range_from fo n a stp z)).
        { break_H H; inversion H; eauto. }
        destruct K as (n0 & a & stp & z & ->). simpl. apply range_from_ints.
    - (* EFormatL *)
      exists SStr. split; [|split]; auto.
      + intros df D. destruct df; [simpl in D; lia|]. reflexivity.
      + intros fuel c v0 Hs He H. destruct fuel; [discriminate|]. simpl in H.
        destruct (negb (Nat.eqb (List.length (filter (fun p => match p with PHole => true | _ => false end) parts))
                                (List.length args))); try discriminate.
        assert (K : exists t, v0 = VStr t).
        { revert v0 H. generalize args as es. induction parts as [|p ps IHp]; intros es v0 H; simpl in H.
          - inversion H; eauto.
          - destruct p; simpl in H.
            + break_H H. inversion H; eauto.
            + destruct es; try discriminate. break_H H. inversion H; eauto.
            + discriminate. }
        destruct K as [t ->]. reflexivity.
    - (* EFormatS *)
      exists SStr. split; [|split]; auto.
      + intros df D. destruct df; [simpl in D; lia|]. reflexivity.
      + intros fuel c v0 Hs He H. destruct fuel; [discriminate|]. simpl in H.
        destruct (eval fo fuel c e) as [item| | |] eqn:E1; simpl in H; try discriminate.
        assert (K : exists t, v0 = VStr t).
        { revert v0 H. induction parts as [|p ps IHp]; intros v0 H; simpl in H.
          - inversion H; eauto.
          - destruct p; simpl in H.
            + break_H H. inversion H; eauto.
            + discriminate.
            + break_H H. inversion H; eauto. }
        destruct K as [t ->]. reflexivity.
    - (* ECast *)
      exists (match c with CInt => SInt | CStr => SStr | CFloat => SFloat | CBool => SBool end).
      split; [|split].
      + intros df D. destruct df; [simpl in D; lia|]. destruct c; reflexivity.
      + destruct c; reflexivity.
      + intros fuel c0 v0 Hs He H. destruct fuel; [discriminate|]. simpl in H.
        destruct (eval fo fuel c0 e) as [w| | |] eqn:E1; simpl in H; try discriminate.
        destruct c.
        * assert (K : exists z, v0 = VInt z) by (unfold cast in H; break_H H; inversion H; eauto).
          destruct K as [z ->]. reflexivity.
        * assert (K : exists z, v0 = VFloat z) by (unfold cast in H; break_H H; inversion H; eauto).
          destruct K as [z ->]. reflexivity.
        * assert (K : exists z, v0 = VStr z) by (unfold cast in H; break_H H; inversion H; eauto).
          destruct K as [z ->]. reflexivity.
        * assert (K : exists z, v0 = VBool z) by (unfold cast in H; break_H H; inversion H; eauto).
          destruct K as [z ->]. reflexivity.
    - (* ESelect *)
      apply andb_true_iff in F. destruct F as [F F3]. apply andb_true_iff in F. destruct F as [F1 F2].
      simpl in Hd. apply le_S_n in Hd.
      destruct (forall2_exists (fsound st) arms) as [ss FS].
      { intros [k e1] I. rewrite forallb_forall in F1. specialize (F1 (k, e1) I). simpl in F1.
        destruct (IH e1 st) as [s1 S1]; auto.
        { pose proof (depth_fields_in (fun e1 => expr_depth e1) arms k e1 I). lia. }
        exists (k, s1). split; auto. }
      assert (DS : exists ds : option shape,
                 match dflt, ds with
                 | Some d, Some sd => sound_at st d sd
                 | None, None => True
                 | _, _ => False
                 end).
      { destruct dflt as [d|]; [|exists None; exact I].
        destruct (IH d st) as [sd Sd]; auto. { simpl in Hd. lia. } exists (Some sd). exact Sd. }
      destruct DS as [ds Hds].
      set (all := map snd ss ++ match ds with Some sd => [sd] | None => [] end).
      assert (OK : sel_ok_all [] all = true).
      { unfold all. rewrite <- (fields_shapes st arms ss FS).
        destruct dflt as [d|], ds as [sd|]; try contradiction; auto.
        destruct Hds as [Dd _]. now rewrite <- (derive_st_of_f d st sd Dd). }
      exists (SNarrowed (fold_left merge_in_shape all [])). split; [|split].
      + intros df D. fuel_case df D. simpl.
        apply (derive_select_P st arms ss dflt ds FS Hds); destruct dflt; simpl in *; lia.
      + simpl. apply forallb_forall. intros x I. apply fold_merge_subset in I. destruct I as [[]|I].
        unfold all in I. apply in_app_or in I. destruct I as [I|I].
        * apply in_map_iff in I. destruct I as ([k s0] & <- & I).
          pose proof (fields_hf st arms ss FS) as Hh. rewrite forallb_forall in Hh. apply (Hh (k, s0) I).
        * destruct dflt as [d|], ds as [sd|]; try contradiction; destruct I as [<-|[]]. apply Hds.
      + intros fuel c v0 Hs He H. destruct fuel; [discriminate|]. simpl in H.
        destruct (eval fo fuel c e) as [w| | |] eqn:Ev; simpl in H; try discriminate.
        match type of H with
        | match ?h with Some _ => _ | None => _ end = _ => destruct h as [ae|] eqn:Hit
        end.
        * assert (Ia : exists k', In (k', ae) arms).
          { match type of Hit with
            | match ?kk with Some _ => _ | None => _ end = _ => destruct kk as [kx|]; [|discriminate]
            end.
            eapply find_arm_in; eauto. }
          destruct Ia as [k' Ia].
          destruct (forall2_in_l _ _ _ _ FS Ia) as ([k2 s0] & Is & K2 & _ & _ & E0). simpl in *.
          apply (inh_narrowed_in v0 _ s0); [|eapply E0; eauto].
          apply sel_ok_all_in; auto. unfold all. apply in_or_app. left.
          change s0 with (snd (k2, s0)). now apply in_map.
        * destruct dflt as [d|]; try discriminate. destruct ds as [sd|]; try contradiction.
          destruct Hds as (_ & _ & Ed).
          apply (inh_narrowed_in v0 _ sd); [|eapply Ed; eauto].
          apply sel_ok_all_in; auto. unfold all. apply in_or_app. right. now left.
    - (* EMap *)
      apply andb_true_iff in F. destruct F as [F F3]. apply andb_true_iff in F. destruct F as [F1 F2].
      simpl in Hd. apply le_S_n in Hd.
      destruct (IH e2 st) as (ts & Dt & Ht & Et); auto; [lia|].
      rewrite (derive_st_of_f e2 st ts Dt) in F3.
      assert (Dfe : forall df, expr_depth e1 <= df -> exists s', derive_f df e1 st = (s', st)).
      { apply orb_true_iff in F1. destruct F1 as [F1|F1].
        - destruct (IH e1 st) as (sf & Df & _); auto; [lia|]. intros df D. eauto.
        - destruct e1; try discriminate. intros df D. destruct df; [simpl in D; lia|].
          destruct (derive_f_func_lit df params e1 st) as (s' & E' & _). eauto. }
      exists SAny. split; [|split]; auto.
      intros df D. fuel_case df D. simpl. rewrite Dt by lia.
      destruct (Dfe df) as [s' E']; [lia|]. rewrite E'. destruct ts; try discriminate; reflexivity.
    - (* EFilter *)
      apply andb_true_iff in F. destruct F as [F F3]. apply andb_true_iff in F. destruct F as [F1 F2].
      simpl in Hd. apply le_S_n in Hd.
      destruct (IH e2 st) as (ts & Dt & Ht & Et); auto; [lia|].
      rewrite (derive_st_of_f e2 st ts Dt) in F3.
      assert (Dfe : forall df, expr_depth e1 <= df -> exists s', derive_f df e1 st = (s', st)).
      { apply orb_true_iff in F1. destruct F1 as [F1|F1].
        - destruct (IH e1 st) as (sf & Df & _); auto; [lia|]. intros df D. eauto.
        - destruct e1; try discriminate. intros df D. destruct df; [simpl in D; lia|].
          destruct (derive_f_func_lit df params e1 st) as (s' & E' & _). eauto. }
      exists (filter_shape ts). split; [|split].
      + intros df D. fuel_case df D. simpl. rewrite Dt by lia.
        destruct (Dfe df) as [s' E']; [lia|]. rewrite E'. reflexivity.
      + destruct ts; simpl; auto.
      + intros fuel c v0 Hs He H. destruct fuel; [discriminate|]. simpl in H.
        destruct (eval fo fuel c e1) as [fv| | |] eqn:Ef; simpl in H; try discriminate.
        destruct (eval fo fuel c e2) as [tv| | |] eqn:Ev; simpl in H; try discriminate.
        specialize (Et _ _ _ Hs He Ev).
        destruct ts; try discriminate F3; try reflexivity.
        * (* SStr *) destruct tv; try discriminate Et. destruct fv; try discriminate H.
          break_H H. inversion H; reflexivity.
        * (* SListAny *) destruct tv; try discriminate Et. destruct fv; try discriminate H.
          break_H H. inversion H; reflexivity.
        * (* SList *) destruct tv; try discriminate Et. destruct fv; try discriminate H.
          destruct (negb (Nat.eqb (List.length params) 1)); try discriminate H.
          match type of H with
          | (do r <- ?m; _) = _ => destruct m as [r| | |] eqn:M; simpl in H; try discriminate H
          end.
          inversion H; subst. apply mapM_keep_snd in M.
          apply (sublist_inh l); auto. intros x I. rewrite <- M.
          apply in_map_iff in I. destruct I as (p & <- & I). apply filter_In in I. apply in_map. tauto.
    - (* ETrace *)
      simpl in Hd. apply le_S_n in Hd.
      destruct (IH e st Hd Hst F) as (s1 & D1 & H1 & E1).
      exists s1. split; [|split]; auto.
      + intros df D. fuel_case df D. simpl. now apply D1.
      + intros fuel c v0 Hs He H. destruct fuel; [discriminate|]. simpl in H. eapply E1; eauto.
  Qed.

  Local Transparent bytes_eqb.

  (* C07 for one expression of the fragment *)
  Theorem derive_sound_fo : forall fuel c e v st,
    strict fo c = true -> st_ok st -> env_ok (sc fo c) st -> fragment_fo st e = true -> eval fo fuel c e = Ok v ->
    ~ is_type_err (derive st e) /\ inhabits fo v (derive st e) /\ snd (derive_st e st) = st.
  Proof.
    intros fuel c e v st Hs Hst Henv F H.
    destruct (derive_sound_aux (expr_depth e) e st (le_n _) Hst F) as (s & D & G & E).
    rewrite (derive_st_of_f e st s D). unfold derive_st. rewrite D by lia.
    specialize (E _ _ _ Hs Henv H).
    repeat split; auto. unfold is_type_err. rewrite (inh_not_err v s E). discriminate.
  Qed.

  (* without evaluating: deriving an expression of the fragment never touches the symbol table *)
  Theorem derive_fragment_stable : forall e st,
    st_ok st -> fragment_fo st e = true -> snd (derive_st e st) = st /\ hfb (derive st e) = true.
  Proof.
    intros e st Hst F.
    destruct (derive_sound_aux (expr_depth e) e st (le_n _) Hst F) as (s & D & G & _).
    rewrite (derive_st_of_f e st s D). unfold derive_st. rewrite D by lia. auto.
  Qed.

  Lemma env_ok_cons sc0 st x v s :
    env_ok sc0 st -> inh v s = true -> env_ok ((x, v) :: sc0) (st_set x s st).
  Proof.
    intros He I y w L. simpl in *. destruct (bytes_eqb y x).
    - inversion L; subst. eauto.
    - apply He; auto.
  Qed.
  Lemma st_ok_cons st x s : st_ok st -> hfb s = true -> st_ok (st_set x s st).
  Proof.
    intros Hst H y t G. simpl in G. destruct (bytes_eqb y x).
    - inversion G; subst. exact H.
    - eapply Hst; eauto.
  Qed.

  (* a let statement of the fragment (or binding a func literal): shape, table and value *)
  Lemma let_rhs_sound st e :
    st_ok st -> (fragment_fo st e || is_func_lit e) = true ->
    exists s, derive_st e st = (s, st) /\ hfb s = true
              /\ (forall fuel c v, strict fo c = true -> env_ok (sc fo c) st -> eval fo fuel c e = Ok v -> inh v s = true).
  Proof.
    intros Hst F. apply orb_true_iff in F. destruct F as [F|F].
    - destruct (derive_sound_aux (expr_depth e) e st (le_n _) Hst F) as (s & D & G & E).
      exists s. split; [|split]; auto. unfold derive_st. apply D. lia.
    - destruct e; try discriminate.
      unfold derive_st. remember (2 * expr_depth (EFunc params e) + 2) as df. destruct df; [lia|].
      simpl. destruct (derive_f df e _) as [bs inner'].
      eexists. split; [reflexivity|]. split; [reflexivity|].
      intros fuel c v Hs He H. destruct fuel; [discriminate|]. simpl in H. inversion H; subst. reflexivity.
  Qed.

  (* C07 for programs: when evaluation (no checker) runs to completion, the checker accepts the program *)
  Theorem check_sound_prog : forall fuel p c st sc' cs,
    strict fo c = true -> st_ok st -> env_ok (sc fo c) st -> fragment_prog st p = true -> cstmts_of p = Some cs ->
    exec_list fo fuel c p = Ok sc' ->
    exists st', check_stmts cs st = Some st' /\ st_ok st' /\ env_ok sc' st'.
  Proof.
    induction fuel as [|f IH]; intros p c st sc' cs Hs Hst Henv F C H; [discriminate|].
    destruct p as [|s p]; simpl in H.
    - inversion H; subst. inversion C; subst. simpl. eauto.
    - destruct s as [x e|e|e|t e]; simpl in F, C; try discriminate.
      + apply andb_true_iff in F. destruct F as [Fe Fp].
        destruct (cstmts_of p) as [cs'|] eqn:Cp; try discriminate. inversion C; subst cs. clear C.
        destruct (eval fo f c e) as [v| | |] eqn:E; simpl in H; try discriminate.
        destruct (is_reserved x); simpl in H; try discriminate.
        destruct (lookup fo x (sc fo c)) eqn:L; simpl in H; try discriminate.
        destruct (let_rhs_sound st e Hst Fe) as (s & D & G & I).
        specialize (I _ _ _ Hs Henv E).
        assert (Ds : derive st e = s) by (unfold derive; now rewrite D).
        rewrite Ds in Fp.
        destruct (IH p (with_scope fo c ((x, v) :: sc fo c)) (st_set x s st) sc' cs') as (st' & K1 & K2 & K3); auto.
        { now apply st_ok_cons. }
        { simpl. now apply env_ok_cons. }
        exists st'. split; auto.
        simpl. rewrite D. rewrite (inh_not_err v s I).
        destruct s; try discriminate G; exact K1.
      + apply andb_true_iff in F. destruct F as [Fe Fp].
        destruct (cstmts_of p) as [cs'|] eqn:Cp; try discriminate. inversion C; subst cs. clear C.
        destruct (eval fo f c e) as [v| | |] eqn:E; simpl in H; try discriminate.
        destruct (derive_sound_aux (expr_depth e) e st (le_n _) Hst Fe) as (s & D & G & I).
        specialize (I _ _ _ Hs Henv E).
        assert (Wc : with_scope fo c (sc fo c) = c) by (destruct c; reflexivity).
        rewrite Wc in H.
        destruct (IH p c st sc' cs') as (st' & K1 & K2 & K3); auto.
        exists st'. split; auto.
        simpl. unfold derive_st. rewrite D by lia. rewrite (inh_not_err v s I). exact K1.
  Qed.

  (* the empty program state *)
  Lemma st_ok_nil : st_ok [].
  Proof. intros x s H. discriminate. Qed.
  Lemma env_ok_nil : env_ok [] [].
  Proof. intros x v H. discriminate. Qed.
End C07.

(* ------------------------------------------------------------------------------------------ *)
(* 8. Not proved (statements only)                                                              *)
(* ------------------------------------------------------------------------------------------ *)
(* derive_sound_fo_calls_partial :
     the statement of derive_sound_fo / check_sound_prog with fragment_fo extended by
       - ECall (ESym f) args   direct calls of let-bound functions.  The declared parameter shapes and the
                               return shape come from ONE derivation of the body with the parameters as holes;
                               a proof needs soundness of that derivation for every argument value.  It is false
                               in general (class N4: a parameter narrowed by a branch the call does not execute);
       - EMap f t on a list    result List(func.ret): the same function-body soundness;
       - EReduce f acc t       result acc narrowed with func.ret: likewise;
       - ECopy (ESym t) fs     direct copy of a tuple.  With last-wins lookup (05372e0) the shape base ++ overrides
                               is right, but the proof needs the invariant "a tuple value has no repeated field",
                               which inhabits/env_ok do not carry (merge_field replaces the FIRST field of a name);
       - ENot e                when the derived shape of e is a candidate set (a3555a1 accepts nested candidates;
                               the empty candidate set inside another one is still not "may_be_boolean");
       - EBin AND/OR l r       when r is a comparison, a `not`, a boolean literal or again such an AND/OR
                               (otherwise Known class K10);
       - EBin IN l r, EBin REMatch l r;
       - arithmetic where BOTH operand shapes are candidate sets, and `+` on lists with equal element
         candidates (otherwise K1/K1b/K2);
       - a func literal inside a tuple / list literal (its Func shape depends on the fuel of the enclosing
         derivation; the statement "the same shape for every sufficient fuel" needs fuel-monotonicity of derive_f).

   narrow_compat_flat_partial :
     forall (v : value fo) s1 s2 st, dsb s1 = true -> dsb s2 = true -> inhabits fo v s1 -> inhabits fo v s2 ->
       prim_shape_of v <> None -> ~ is_type_err (narrow st s1 s2)
     (both shapes candidate sets; narrow_ds_prim / narrow_st_arith prove the case where one side is primitive). *)

