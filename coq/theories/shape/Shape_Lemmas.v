(* Proofs about the shape model (Shape.v): C06 (constraints admit exactly the conforming values)
   and the C07 pieces (inhabitation, narrowing of two shapes of one value, soundness of derive). *)
From Ucg Require Import base.Bytes_Lemmas shape.Shape.

(* ------------------------------------------------------------------------------------------ *)
(* 0. small facts                                                                              *)
(* ------------------------------------------------------------------------------------------ *)

Lemma bytes_eqb_sym x y : bytes_eqb x y = bytes_eqb y x.
Proof.
  destruct (bytes_eqb x y) eqn:E.
  - apply bytes_eqb_spec in E. subst. symmetry. apply bytes_eqb_refl.
  - destruct (bytes_eqb y x) eqn:E'; auto. apply bytes_eqb_spec in E'. subst.
    rewrite bytes_eqb_refl in E. discriminate.
Qed.

Lemma forallb_ext_in {A} (f g : A -> bool) l : (forall x, In x l -> f x = g x) -> forallb f l = forallb g l.
Proof. induction l; simpl; intros H; auto. rewrite H by (now left). rewrite IHl by (intros; apply H; now right). reflexivity. Qed.
Lemma existsb_ext_in {A} (f g : A -> bool) l : (forall x, In x l -> f x = g x) -> existsb f l = existsb g l.
Proof. induction l; simpl; intros H; auto. rewrite H by (now left). rewrite IHl by (intros; apply H; now right). reflexivity. Qed.

Lemma bool_eq_iff (a c : bool) : (a = true <-> c = true) -> a = c.
Proof. destruct a, c; intuition congruence. Qed.

(* ------------------------------------------------------------------------------------------ *)
(* 1. the loops of narrow_cached when the recursive call is pure                               *)
(* ------------------------------------------------------------------------------------------ *)

(* the call on (x, y) leaves the state alone and answers "compatible" iff c *)
Definition pure_at (nf : NF) (x y : shape) (c : bool) : Prop :=
  forall s, exists r, nf x y s = (r, s) /\ negb (is_err r) = c.

Section LoopLemmas.
  Variable nf : NF.
  Variable A : Type.
  Variable g : A -> shape.

  Lemma list_elem_match_pure x ys (c : A -> bool) :
    (forall y, In y ys -> pure_at nf x (g y) (c y)) ->
    forall s m, list_elem_match nf x (map g ys) s m = (m || existsb c ys, s).
  Proof.
    induction ys as [|y ys IH]; simpl; intros H s m.
    - now rewrite orb_false_r.
    - destruct (H y (or_introl eq_refl) s) as (r & E & Hc). rewrite E.
      rewrite IH by (intros; apply H; now right). rewrite Hc. now rewrite orb_assoc.
  Qed.

  Lemma list_subset_pure xs ys (c : A -> A -> bool) :
    (forall x y, In x xs -> In y ys -> pure_at nf (g x) (g y) (c x y)) ->
    forall s, list_subset nf (map g xs) (map g ys) s = (forallb (fun x => existsb (c x) ys) xs, s).
  Proof.
    induction xs as [|x xs IH]; simpl; intros H s; auto.
    rewrite (list_elem_match_pure (g x) ys (c x)) by (intros; apply H; auto).
    simpl. destruct (existsb (c x) ys); simpl; auto.
  Qed.

  Lemma any_compat_r_pure other ts (c : A -> bool) :
    (forall t, In t ts -> pure_at nf other (g t) (c t)) ->
    forall s acc, any_compat_r nf (map g ts) other s acc = (acc || existsb c ts, s).
  Proof.
    induction ts as [|t ts IH]; simpl; intros H s acc.
    - now rewrite orb_false_r.
    - destruct (H t (or_introl eq_refl) s) as (r & E & Hc). rewrite E.
      rewrite IH by (intros; apply H; now right). rewrite Hc. now rewrite orb_assoc.
  Qed.

  Definition gf (kv : bytes * A) : bytes * shape := let '(k, x) := kv in (k, g x).

  Lemma tuple_field_match_pure lt ls rs (c : A -> bool) :
    (forall rt y, In (rt, y) rs -> pure_at nf ls (g y) (c y)) ->
    forall s m, tuple_field_match nf lt ls (map gf rs) s m
                = (m || existsb (fun '(rt, y) => bytes_eqb rt lt && c y) rs, s).
  Proof.
    induction rs as [|[rt y] rs IH]; simpl; intros H s m.
    - now rewrite orb_false_r.
    - destruct (bytes_eqb rt lt) eqn:E; simpl.
      + destruct (H rt y (or_introl eq_refl) s) as (r & Er & Hc). rewrite Er.
        rewrite IH by (intros; eapply H; right; eauto). rewrite Hc. now rewrite orb_assoc.
      + apply IH. intros; eapply H; right; eauto.
  Qed.

  Lemma tuple_subset_pure lf rf (c : A -> A -> bool) :
    (forall lt x rt y, In (lt, x) lf -> In (rt, y) rf -> pure_at nf (g x) (g y) (c x y)) ->
    forall s, tuple_subset nf (map gf lf) (map gf rf) s
              = (forallb (fun '(lt, x) => existsb (fun '(rt, y) => bytes_eqb rt lt && c x y) rf) lf, s).
  Proof.
    induction lf as [|[lt x] lf IH]; simpl; intros H s; auto.
    rewrite (tuple_field_match_pure lt (g x) rf (c x)) by (intros; eapply H; eauto).
    simpl. destruct (existsb _ rf); simpl; auto.
    apply IH. intros; eapply H; eauto.
  Qed.
End LoopLemmas.

(* ------------------------------------------------------------------------------------------ *)
(* 2. association lists without repeated keys                                                  *)
(* ------------------------------------------------------------------------------------------ *)
Section Assoc.
  Variable fo : float_ops.
  Notation value := (value fo).
  Notation lookup := (lookup fo).

  Lemma existsb_names_lookup k (fs : list (bytes * value)) :
    existsb (bytes_eqb k) (names fs) = match lookup k fs with Some _ => true | None => false end.
  Proof.
    induction fs as [|[k' x] fs IH]; simpl; auto.
    destruct (bytes_eqb k k'); simpl; auto.
  Qed.

  Lemma nodup_in_lookup (fs : list (bytes * value)) k x :
    nodup_names (names fs) = true -> In (k, x) fs -> lookup k fs = Some x.
  Proof.
    induction fs as [|[k' y] fs IH]; simpl; intros N I; [contradiction|].
    apply andb_true_iff in N. destruct N as [N1 N2].
    destruct I as [I|I].
    - inversion I; subst. now rewrite bytes_eqb_refl.
    - destruct (bytes_eqb k k') eqn:E.
      + apply bytes_eqb_spec in E. subst k'. exfalso.
        apply negb_true_iff in N1.
        assert (existsb (bytes_eqb k) (names fs) = true).
        { apply existsb_exists. exists k. split; [|apply bytes_eqb_refl].
          change k with (fst (k, x)). now apply in_map. }
        congruence.
      + auto.
  Qed.

  Lemma lookup_in (fs : list (bytes * value)) k x : lookup k fs = Some x -> In (k, x) fs.
  Proof.
    induction fs as [|[k' y] fs IH]; simpl; intros H; [discriminate|].
    destruct (bytes_eqb k k') eqn:E.
    - apply bytes_eqb_spec in E. inversion H; subst. now left.
    - right; auto.
  Qed.

  (* with distinct keys "some same-named field satisfies c" is "the looked-up field satisfies c" *)
  Lemma existsb_field_lookup (fs : list (bytes * value)) k (c : value -> bool) :
    nodup_names (names fs) = true ->
    existsb (fun '(rt, y) => bytes_eqb rt k && c y) fs
    = match lookup k fs with Some y => c y | None => false end.
  Proof.
    intros N. apply bool_eq_iff. rewrite existsb_exists. split.
    - intros ([rt y] & I & H). apply andb_true_iff in H. destruct H as [H1 H2].
      apply bytes_eqb_spec in H1. subst rt. now rewrite (nodup_in_lookup _ _ _ N I).
    - destruct (lookup k fs) as [y|] eqn:E; [|discriminate]. intros H.
      exists (k, y). split; [now apply lookup_in|]. now rewrite bytes_eqb_refl.
  Qed.

  (* the two subset tests of narrow_tuple_shapes against the specification wording:
     "agreeing on the fields they share, with one field set contained in the other" *)
  Lemma tuple_subsets_spec (fa fb : list (bytes * value)) (c : value -> value -> bool) :
    nodup_names (names fa) = true -> nodup_names (names fb) = true ->
    forallb (fun '(lt, x) => existsb (fun '(rt, y) => bytes_eqb rt lt && c x y) fb) fa
    || forallb (fun '(rt, y) => existsb (fun '(lt, x) => bytes_eqb lt rt && c x y) fa) fb
    = (subset_names (names fa) (names fb) || subset_names (names fb) (names fa))
      && forallb (fun '(k, x) => match lookup k fb with Some y => c x y | None => true end) fa.
  Proof.
    intros Na Nb.
    set (agree := forallb (fun '(k, x) => match lookup k fb with Some y => c x y | None => true end) fa).
    set (agree' := forallb (fun '(k, y) => match lookup k fa with Some x => c x y | None => true end) fb).
    assert (HA : forallb (fun '(lt, x) => existsb (fun '(rt, y) => bytes_eqb rt lt && c x y) fb) fa
                 = subset_names (names fa) (names fb) && agree).
    { unfold agree, subset_names. clear Na agree'.
      induction fa as [|[k x] fa IH]; simpl; auto.
      rewrite IH. rewrite (existsb_field_lookup fb k (c x) Nb). rewrite existsb_names_lookup.
      destruct (lookup k fb); simpl; auto.
      - destruct (c x v); simpl; auto. now rewrite andb_false_r.
    }
    assert (HB : forallb (fun '(rt, y) => existsb (fun '(lt, x) => bytes_eqb lt rt && c x y) fa) fb
                 = subset_names (names fb) (names fa) && agree').
    { unfold agree', subset_names. clear Nb agree HA.
      induction fb as [|[k y] fb IH]; simpl; auto.
      rewrite IH. rewrite (existsb_field_lookup fa k (fun x => c x y) Na). rewrite existsb_names_lookup.
      destruct (lookup k fa); simpl; auto.
      - destruct (c v y); simpl; auto. now rewrite andb_false_r.
    }
    assert (HG : agree = agree').
    { apply bool_eq_iff. unfold agree, agree'. rewrite !forallb_forall. split.
      - intros H [k y] I. destruct (lookup k fa) as [x|] eqn:E; auto.
        specialize (H (k, x) (lookup_in _ _ _ E)). simpl in H.
        now rewrite (nodup_in_lookup _ _ _ Nb I) in H.
      - intros H [k x] I. destruct (lookup k fb) as [y|] eqn:E; auto.
        specialize (H (k, y) (lookup_in _ _ _ E)). simpl in H.
        now rewrite (nodup_in_lookup _ _ _ Na I) in H. }
    rewrite HA, HB, <- HG.
    destruct (subset_names (names fa) (names fb)), (subset_names (names fb) (names fa)), agree; reflexivity.
  Qed.
End Assoc.

(* ------------------------------------------------------------------------------------------ *)
(* 3. narrowing the shapes of two literal values                                               *)
(* ------------------------------------------------------------------------------------------ *)
Section Ground.
  Variable fo : float_ops.
  Notation value := (value fo).
  Notation sh := (shape_of_value fo).
  Notation same := (same_shape fo true).
  Notation lit := (literal_value fo).

  Lemma shape_size_pos s : 1 <= shape_size s.
  Proof. destruct s; simpl; lia. Qed.

  Lemma in_list_size (l : list value) x :
    In x l -> shape_size (sh x) < shape_size (SList (map sh l)).
  Proof.
    simpl. induction l as [|y l IH]; simpl; intros H; [contradiction|].
    destruct H as [H|H]; [subst; lia|]. specialize (IH H). lia.
  Qed.

  Lemma in_tuple_size (fs : list (bytes * value)) k x :
    In (k, x) fs -> shape_size (sh x) < shape_size (STuple (map (gf value sh) fs)).
  Proof.
    simpl. induction fs as [|[k' y] fs IH]; simpl; intros H; [contradiction|].
    destruct H as [H|H]; [inversion H; subst; lia|]. specialize (IH H). lia.
  Qed.

  Lemma lit_list_in (l : list value) x : lit (VList l) = true -> In x l -> lit x = true.
  Proof. simpl. intros H I. rewrite forallb_forall in H. auto. Qed.
  Lemma lit_tuple_in (fs : list (bytes * value)) k x : lit (VTuple fs) = true -> In (k, x) fs -> lit x = true.
  Proof.
    simpl. intros H I. apply andb_true_iff in H. destruct H as [_ H].
    rewrite forallb_forall in H. apply (H (k, x) I).
  Qed.
  Lemma lit_tuple_nodup (fs : list (bytes * value)) : lit (VTuple fs) = true -> nodup_names (names fs) = true.
  Proof. simpl. intros H. apply andb_true_iff in H. tauto. Qed.

  Lemma sh_tuple (fs : list (bytes * value)) : sh (VTuple fs) = STuple (map (gf value sh) fs).
  Proof. reflexivity. Qed.

  Lemma sh_list (l : list value) : sh (VList l) = SList (map sh l).
  Proof. reflexivity. Qed.

  Ltac prim_case := split; (let st := fresh "st" in intro st); eexists; (split; [reflexivity | reflexivity]).

  (* narrowing two literal shapes, in either order: no state change, and the answer is the
     specification's "same shape" (NULL = any type) *)
  Lemma narrow_lit : forall f (a c : value),
    shape_size (sh a) + shape_size (sh c) <= f ->
    lit a = true -> lit c = true ->
    pure_at (narrow_f f) (sh a) (sh c) (same a c) /\
    pure_at (narrow_f f) (sh c) (sh a) (same a c).
  Proof.
    induction f as [|f IH]; intros a c Hsz La Lc.
    { pose proof (shape_size_pos (sh a)). pose proof (shape_size_pos (sh c)). lia. }
    destruct a as [| | | | |la|fa| |]; try discriminate La;
      destruct c as [| | | | |lc|fc| |]; try discriminate Lc; try prim_case.
    - (* list / list *)
      assert (P1 : forall x y, In x la -> In y lc -> pure_at (narrow_f f) (sh x) (sh y) (same x y)).
      { intros x y Ix Iy. apply IH; eauto using lit_list_in.
        pose proof (in_list_size _ _ Ix). pose proof (in_list_size _ _ Iy).
        rewrite !sh_list in Hsz. lia. }
      assert (P2 : forall y x, In y lc -> In x la -> pure_at (narrow_f f) (sh y) (sh x) (same x y)).
      { intros y x Iy Ix. apply IH; eauto using lit_list_in.
        pose proof (in_list_size _ _ Ix). pose proof (in_list_size _ _ Iy).
        rewrite !sh_list in Hsz. lia. }
      set (A := forallb (fun x => existsb (fun y => same x y) lc) la).
      set (B := forallb (fun y => existsb (fun x => same x y) la) lc).
      assert (E : same (VList la) (VList lc) = A || B) by reflexivity.
      rewrite E. split; intro s; cbn.
      + rewrite (list_subset_pure (narrow_f f) value sh la lc (fun x y => same x y) P1).
        fold A. destruct A; [eexists; split; reflexivity|].
        rewrite (list_subset_pure (narrow_f f) value sh lc la (fun y x => same x y) P2).
        fold B. destruct B; eexists; split; reflexivity.
      + rewrite (list_subset_pure (narrow_f f) value sh lc la (fun y x => same x y) P2).
        fold B. destruct B; [eexists; split; [reflexivity|now rewrite orb_true_r]|].
        rewrite (list_subset_pure (narrow_f f) value sh la lc (fun x y => same x y) P1).
        fold A. destruct A; eexists; split; reflexivity.
    - (* tuple / tuple *)
      assert (P1 : forall lt x rt y, In (lt, x) fa -> In (rt, y) fc ->
                                     pure_at (narrow_f f) (sh x) (sh y) (same x y)).
      { intros lt x rt y Ix Iy. apply IH; eauto using lit_tuple_in.
        pose proof (in_tuple_size _ _ _ Ix). pose proof (in_tuple_size _ _ _ Iy).
        rewrite !sh_tuple in Hsz. lia. }
      assert (P2 : forall rt y lt x, In (rt, y) fc -> In (lt, x) fa ->
                                     pure_at (narrow_f f) (sh y) (sh x) (same x y)).
      { intros rt y lt x Iy Ix. apply IH; eauto using lit_tuple_in.
        pose proof (in_tuple_size _ _ _ Ix). pose proof (in_tuple_size _ _ _ Iy).
        rewrite !sh_tuple in Hsz. lia. }
      set (A := forallb (fun '(lt, x) => existsb (fun '(rt, y) => bytes_eqb rt lt && same x y) fc) fa).
      set (B := forallb (fun '(rt, y) => existsb (fun '(lt, x) => bytes_eqb lt rt && same x y) fa) fc).
      assert (E : same (VTuple fa) (VTuple fc) = A || B).
      { unfold A, B. rewrite (tuple_subsets_spec fo fa fc (fun x y => same x y))
          by eauto using lit_tuple_nodup. reflexivity. }
      rewrite E. rewrite !sh_tuple. split; intro s; cbn.
      + rewrite (tuple_subset_pure (narrow_f f) value sh fa fc (fun x y => same x y) P1).
        fold A. destruct A; [eexists; split; reflexivity|].
        rewrite (tuple_subset_pure (narrow_f f) value sh fc fa (fun y x => same x y) P2).
        fold B. destruct B; eexists; split; reflexivity.
      + rewrite (tuple_subset_pure (narrow_f f) value sh fc fa (fun y x => same x y) P2).
        fold B. destruct B; [eexists; split; [reflexivity|now rewrite orb_true_r]|].
        rewrite (tuple_subset_pure (narrow_f f) value sh fa fc (fun x y => same x y) P1).
        fold A. destruct A; eexists; split; reflexivity.
  Qed.
End Ground.

(* ------------------------------------------------------------------------------------------ *)
(* 4. C06 on values: build_accepts = conforms                                                   *)
(* ------------------------------------------------------------------------------------------ *)
Section C06.
  Variable fo : float_ops.
  Notation value := (value fo).
  Notation sh := (shape_of_value fo).
  Notation rv := (rv_of_value fo).
  Notation same := (same_shape fo true).
  Notation lit := (literal_value fo).

  (* induction on values through the nested lists *)
  Section ValueInd.
    Variable P : value -> Prop.
    Hypothesis Hnull : P VNull.
    Hypothesis Hbool : forall x, P (VBool x).
    Hypothesis Hint : forall z, P (VInt z).
    Hypothesis Hfloat : forall x, P (VFloat x).
    Hypothesis Hstr : forall s, P (VStr s).
    Hypothesis Hlist : forall l, Forall P l -> P (VList l).
    Hypothesis Htuple : forall fs, Forall (fun kv => P (snd kv)) fs -> P (VTuple fs).
    Hypothesis Hfunc : forall ps body clo, P (VFunc ps body clo).
    Hypothesis Hmodule : forall ps out body, P (VModule ps out body).
    Fixpoint value_ind2 (v : value) : P v :=
      match v with
      | VNull => Hnull | VBool x => Hbool x | VInt z => Hint z | VFloat x => Hfloat x | VStr s => Hstr s
      | VList l => Hlist l ((fix go (l : list value) : Forall P l :=
                               match l with
                               | [] => Forall_nil _
                               | x :: l' => Forall_cons _ (value_ind2 x) (go l')
                               end) l)
      | VTuple fs => Htuple fs ((fix go (fs : list (bytes * value)) : Forall (fun kv => P (snd kv)) fs :=
                                   match fs with
                                   | [] => Forall_nil _
                                   | kv :: fs' => Forall_cons _ (value_ind2 (snd kv)) (go fs')
                                   end) fs)
      | VFunc ps body clo => Hfunc ps body clo
      | VModule ps out body => Hmodule ps out body
      end.
  End ValueInd.

  Lemma narrow_fuel_ge st l r : shape_size l + shape_size r <= narrow_fuel st l r.
  Proof. unfold narrow_fuel. nia. Qed.

  (* the static half for an exemplar, under any symbol table *)
  Lemma narrow_st_lit st ex v :
    lit ex = true -> lit v = true ->
    exists r, narrow_st st (sh v) (sh ex) = (r, st) /\ negb (is_err r) = same ex v.
  Proof.
    intros Le Lv. unfold narrow_st.
    destruct (narrow_lit fo (narrow_fuel st (sh v) (sh ex)) ex v) as [_ H]; auto.
    { pose proof (narrow_fuel_ge st (sh v) (sh ex)). lia. }
    destruct (H (mk_nst st [])) as (r & E & C). rewrite E. simpl. eauto.
  Qed.

  Lemma static_ok_exemplar ex v :
    lit ex = true -> lit v = true -> static_ok fo (VExemplar ex) v = same ex v.
  Proof.
    intros Le Lv. unfold static_ok, narrow. simpl vshape_of_constraint.
    destruct (narrow_st_lit [] ex v Le Lv) as (r & E & C). rewrite E. exact C.
  Qed.

  (* ---- alternations: the static half ---- *)
  Definition arm_witness (a : varm fo) : value :=
    match a with
    | VRange (Some lo) _ => lo
    | VRange None (Some hi) => hi
    | VRange None None => VNull
    | VExact v => v
    end.
  Definition is_null (v : value) : bool := match v with VNull => true | _ => false end.

  Lemma num_lit (v : value) : is_num fo v = true -> lit v = true.
  Proof. destruct v; simpl; auto; discriminate. Qed.

  Lemma arm_witness_lit a : arm_grammar fo a = true -> lit (arm_witness a) = true.
  Proof.
    destruct a as [[lo|] [hi|]|v]; simpl; auto.
    - destruct lo, hi; simpl; auto; discriminate.
    - apply num_lit.
    - apply num_lit.
  Qed.

  Lemma arm_shapes arms :
    forallb (arm_grammar fo) arms = true ->
    map (fun a => match a with
                  | VRange (Some lo) _ => sh lo
                  | VRange None (Some hi) => sh hi
                  | VRange None None => SErr EType
                  | VExact v => sh v end) arms
    = map sh (map arm_witness arms).
  Proof.
    intros H. rewrite map_map. apply map_ext_in. intros a I.
    rewrite forallb_forall in H. specialize (H a I).
    destruct a as [[lo|] [hi|]|v]; simpl in *; auto; discriminate.
  Qed.

  Lemma narrow_f_cands_r f l t ts s :
    is_err l = false -> ref_name l = None -> hole_name l = None -> is_any l = false ->
    is_empty_narrowed l = false -> cands l = None ->
    narrow_f (S f) l (SNarrowed (t :: ts)) s
    = let '(ok, s1) := any_compat_r (narrow_f f) (t :: ts) l s false in ((if ok then l else SErr EType), s1).
  Proof.
    intros. destruct l; try discriminate; try (destruct ts0; discriminate); reflexivity.
  Qed.

  Lemma lit_shape_class v :
    lit v = true -> is_null v = false ->
    is_err (sh v) = false /\ ref_name (sh v) = None /\ hole_name (sh v) = None /\ is_any (sh v) = false
    /\ is_empty_narrowed (sh v) = false /\ cands (sh v) = None.
  Proof. destruct v; simpl; intros; try discriminate; repeat split; reflexivity. Qed.

  Lemma in_narrowed_size (l : list value) x :
    In x l -> shape_size (sh x) < shape_size (SNarrowed (map sh l)).
  Proof.
    simpl. induction l as [|y l IH]; simpl; intros H; [contradiction|].
    destruct H as [H|H]; [subst; lia|]. specialize (IH H). lia.
  Qed.

  Lemma narrow_st_narrowed st (ws : list value) v :
    forallb lit ws = true -> lit v = true -> ws <> [] ->
    exists r, narrow_st st (sh v) (SNarrowed (map sh ws)) = (r, st)
              /\ negb (is_err r) = is_null v || existsb (fun w => same w v) ws.
  Proof.
    intros Lw Lv Hne. unfold narrow_st.
    pose proof (narrow_fuel_ge st (sh v) (SNarrowed (map sh ws))) as Hf.
    destruct (narrow_fuel st (sh v) (SNarrowed (map sh ws))) as [|f] eqn:Ef.
    { pose proof (shape_size_pos (sh v)). lia. }
    destruct (is_null v) eqn:Nv.
    { destruct v; try discriminate. eexists. split; reflexivity. }
    destruct ws as [|w ws]; [congruence|].
    destruct (lit_shape_class v Lv Nv) as (C1 & C2 & C3 & C4 & C5 & C6).
    change (map sh (w :: ws)) with (sh w :: map sh ws).
    rewrite narrow_f_cands_r by assumption.
    change (sh w :: map sh ws) with (map sh (w :: ws)).
    rewrite (any_compat_r_pure (narrow_f f) value sh (sh v) (w :: ws) (fun x => same x v)).
    - simpl. eexists. split; [reflexivity|].
      destruct (same w v || existsb (fun x => same x v) ws); simpl; [now rewrite C1|reflexivity].
    - intros t It. apply (narrow_lit fo f t v); auto.
      + pose proof (in_narrowed_size _ _ It). lia.
      + rewrite forallb_forall in Lw. auto.
  Qed.

  Lemma static_narrowed (ws : list value) v :
    forallb lit ws = true -> lit v = true -> ws <> [] ->
    negb (is_err (narrow [] (sh v) (SNarrowed (map sh ws)))) = is_null v || existsb (fun w => same w v) ws.
  Proof.
    intros Lw Lv Hne. unfold narrow.
    destruct (narrow_st_narrowed [] ws v Lw Lv Hne) as (r & E & C). rewrite E. exact C.
  Qed.

  Lemma static_alt arms v :
    forallb (arm_grammar fo) arms = true -> lit v = true -> 2 <= List.length arms ->
    static_ok fo (VAlt arms) v = is_null v || existsb (fun a => same (arm_witness a) v) arms.
  Proof.
    intros G Lv Hlen. unfold static_ok. simpl vshape_of_constraint.
    rewrite (arm_shapes arms G).
    destruct arms as [|a1 [|a2 arms]]; simpl in Hlen; try lia.
    change (match map sh (map arm_witness (a1 :: a2 :: arms)) with
            | [x] => x | _ => SNarrowed (map sh (map arm_witness (a1 :: a2 :: arms))) end)
      with (SNarrowed (map sh (map arm_witness (a1 :: a2 :: arms)))).
    rewrite static_narrowed; auto.
    - f_equal. apply bool_eq_iff. rewrite !existsb_exists. split.
      + intros (w & I & H). apply in_map_iff in I. destruct I as (a & <- & Ia). eauto.
      + intros (a & Ia & H). exists (arm_witness a). split; auto. now apply in_map.
    - rewrite forallb_forall. intros w I. apply in_map_iff in I. destruct I as (a & <- & Ia).
      apply arm_witness_lit. rewrite forallb_forall in G. auto.
    - discriminate.
  Qed.

  Lemma static_single_range lo hi v :
    range_ok fo lo hi = true -> lit v = true ->
    static_ok fo (VAlt [VRange lo hi]) v = same (arm_witness (VRange lo hi)) v.
  Proof.
    intros G Lv.
    assert (Lw : lit (arm_witness (VRange lo hi)) = true) by (apply arm_witness_lit; exact G).
    unfold static_ok, narrow.
    replace (vshape_of_constraint fo (VAlt [VRange lo hi])) with (sh (arm_witness (VRange lo hi))).
    - destruct (narrow_st_lit [] _ v Lw Lv) as (r & E & C). rewrite E. exact C.
    - destruct lo, hi; simpl in *; auto; discriminate.
  Qed.

  (* ---- equality: the VM's Val::equal on literal values is the specification's equality ---- *)
  Definition eqres (o : option bool) : bool := match o with Some true => true | _ => false end.

  Lemma rv_list_eq_spec (x : list value) :
    Forall (fun v => forall w, lit v = true -> lit w = true ->
                               eqres (rv_equal fo (rv v) (rv w)) = val_eqb fo v w) x ->
    forall y,
      eqres (if negb (Nat.eqb (List.length x) (List.length y)) then Some false
             else rv_list_eq fo (fun v w => rv_equal fo v w) (map rv x) (map rv y))
      = val_list_eqb fo (fun v w => val_eqb fo v w) x y
      \/ (forallb lit x && forallb lit y = false).
  Proof.
    induction 1 as [|v x Hv Hx IH]; intros y; destruct y as [|w y]; simpl; auto.
    destruct (lit v) eqn:Lv; simpl; auto. destruct (lit w) eqn:Lw; simpl; auto.
    2:{ right. now rewrite andb_false_r. }
    destruct (IH y) as [E|E]; [|right; exact E]. left.
    rewrite <- E, <- (Hv w eq_refl Lw).
    destruct (negb (Nat.eqb (List.length x) (List.length y))).
    - simpl. now rewrite andb_false_r.
    - destruct (rv_equal fo (rv v) (rv w)) as [[|]|]; reflexivity.
  Qed.

  Lemma rv_fields_eq_spec (x : list (bytes * value)) :
    Forall (fun kv => forall w, lit (snd kv) = true -> lit w = true ->
                                eqres (rv_equal fo (rv (snd kv)) (rv w)) = val_eqb fo (snd kv) w) x ->
    forall y,
      eqres (if negb (Nat.eqb (List.length x) (List.length y)) then Some false
             else rv_fields_eq fo (fun v w => rv_equal fo v w)
                               (map (fun '(k, v) => (k, rv v)) x) (map (fun '(k, v) => (k, rv v)) y))
      = val_fields_eqb fo (fun v w => val_eqb fo v w) x y
      \/ (forallb (fun '(_, v) => lit v) x && forallb (fun '(_, v) => lit v) y = false).
  Proof.
    induction 1 as [|[k v] x Hv Hx IH]; intros y; destruct y as [|[k' w] y]; simpl; auto.
    simpl in Hv.
    destruct (lit v) eqn:Lv; simpl; auto. destruct (lit w) eqn:Lw; simpl; auto.
    2:{ right. now rewrite andb_false_r. }
    destruct (IH y) as [E|E]; [|right; exact E]. left.
    rewrite <- E, <- (Hv w eq_refl Lw).
    destruct (negb (Nat.eqb (List.length x) (List.length y))).
    - simpl. now rewrite !andb_false_r.
    - destruct (bytes_eqb k k'); simpl; auto.
      destruct (rv_equal fo (rv v) (rv w)) as [[|]|]; reflexivity.
  Qed.

  Lemma eqres_some c : eqres (Some c) = c.
  Proof. destruct c; reflexivity. Qed.

  Lemma rv_equal_val_eqb : forall v w, lit v = true -> lit w = true ->
    eqres (rv_equal fo (rv v) (rv w)) = val_eqb fo v w.
  Proof.
    induction v as [| | | | |l IH|fs IH| |] using value_ind2; intros w Lv Lw;
      destruct w as [| | | | |l'|fs'| |]; try discriminate; try reflexivity;
        try (simpl; apply eqres_some).
    - simpl rv_of_value. simpl rv_equal. rewrite !map_length.
      destruct (rv_list_eq_spec l IH l') as [E|E]; [exact E|].
      simpl in Lv, Lw. rewrite Lv, Lw in E. discriminate.
    - simpl rv_of_value. simpl rv_equal. rewrite !map_length.
      destruct (rv_fields_eq_spec fs IH fs') as [E|E]; [exact E|].
      simpl in Lv, Lw. apply andb_true_iff in Lv, Lw. destruct Lv as [_ Lv], Lw as [_ Lw].
      rewrite Lv, Lw in E. discriminate.
  Qed.

  (* ---- equal values have the same shape ---- *)
  Lemma val_list_eqb_same (l : list value) :
    Forall (fun v => forall w, lit v = true -> lit w = true -> val_eqb fo v w = true -> same w v = true) l ->
    forall l0, forallb lit l = true -> forallb lit l0 = true ->
               val_list_eqb fo (fun v w => val_eqb fo v w) l l0 = true ->
               forallb (fun x => existsb (fun y => same x y) l) l0 = true.
  Proof.
    induction 1 as [|v l Hv Hl IH]; intros l0 L1 L2 E; destruct l0 as [|w l0]; simpl in *; try discriminate; auto.
    apply andb_true_iff in L1, L2, E. destruct L1 as [Lv L1], L2 as [Lw L2], E as [E1 E2].
    rewrite (Hv w Lv Lw E1). simpl.
    specialize (IH l0 L1 L2 E2). rewrite forallb_forall in *. intros x I. rewrite (IH x I). apply orb_true_r.
  Qed.

  Lemma val_fields_eqb_names (fs fs0 : list (bytes * value)) :
    val_fields_eqb fo (fun v w => val_eqb fo v w) fs fs0 = true -> names fs = names fs0.
  Proof.
    revert fs0. induction fs as [|[k v] fs IH]; intros [|[k' w] fs0] E; simpl in *; try discriminate; auto.
    apply andb_true_iff in E. destruct E as [E E2]. apply andb_true_iff in E. destruct E as [E0 E1].
    apply bytes_eqb_spec in E0. subst. f_equal. auto.
  Qed.

  Lemma val_fields_eqb_in (fs fs0 : list (bytes * value)) k x :
    val_fields_eqb fo (fun v w => val_eqb fo v w) fs fs0 = true -> In (k, x) fs0 ->
    exists a, In (k, a) fs /\ val_eqb fo a x = true.
  Proof.
    revert fs0. induction fs as [|[k0 v] fs IH]; intros [|[k' w] fs0] E I; simpl in *; try discriminate; try contradiction.
    apply andb_true_iff in E. destruct E as [E E2]. apply andb_true_iff in E. destruct E as [E0 E1].
    apply bytes_eqb_spec in E0. subst. destruct I as [I|I].
    - inversion I; subst. eauto.
    - destruct (IH fs0 E2 I) as (a & Ia & Ea). eauto.
  Qed.

  Lemma subset_names_refl l : subset_names l l = true.
  Proof.
    unfold subset_names. rewrite forallb_forall. intros k I. rewrite existsb_exists.
    exists k. split; auto. apply bytes_eqb_refl.
  Qed.

  Lemma val_eqb_same : forall v w, lit v = true -> lit w = true -> val_eqb fo v w = true -> same w v = true.
  Proof.
    induction v as [| | | | |l IH|fs IH| |] using value_ind2; intros w Lv Lw E;
      destruct w as [| | | | |l'|fs'| |]; try discriminate; try reflexivity.
    - simpl in E. simpl in Lv, Lw.
      change (same (VList l') (VList l))
        with (forallb (fun x => existsb (fun y => same x y) l) l'
              || forallb (fun y => existsb (fun x => same x y) l') l).
      rewrite (val_list_eqb_same l IH l' Lv Lw E). reflexivity.
    - simpl in E.
      change (same (VTuple fs') (VTuple fs))
        with ((subset_names (names fs') (names fs) || subset_names (names fs) (names fs'))
              && forallb (fun '(k, x) => match lookup fo k fs with
                                         | Some y => same x y
                                         | None => true end) fs').
      rewrite (val_fields_eqb_names _ _ E), subset_names_refl. simpl.
      rewrite forallb_forall. intros [k x] I.
      destruct (val_fields_eqb_in _ _ k x E I) as (a & Ia & Ea).
      rewrite (nodup_in_lookup fo fs k a (lit_tuple_nodup fo fs Lv) Ia).
      rewrite Forall_forall in IH. apply (IH (k, a) Ia); auto.
      + apply (lit_tuple_in fo fs k a Lv Ia).
      + apply (lit_tuple_in fo fs' k x Lw I).
  Qed.

  (* ---- one arm ---- *)
  Definition arm_admits (v : value) (a : varm fo) : bool :=
    match a with
    | VRange lo hi => in_range fo lo hi v
    | VExact w => val_eqb fo v w
    end.

  Lemma conforms_alt arms v : conforms fo (VAlt arms) v = existsb (arm_admits v) arms.
  Proof. reflexivity. Qed.

  Lemma arm_admits_same a v :
    arm_grammar fo a = true -> lit v = true -> arm_admits v a = true -> same (arm_witness a) v = true.
  Proof.
    destruct a as [lo hi|w]; simpl; intros G Lv E.
    - destruct v; simpl in E; try discriminate;
        destruct lo as [[]|], hi as [[]|]; try discriminate; reflexivity.
    - apply val_eqb_same; auto.
  Qed.

  Definition rarm_check (v : rval fo) (a : rarm fo) : bool :=
    match a with
    | RRangeI lo hi => match v with
                       | RInt z => le_opt_lo Z.leb lo z && le_opt_hi Z.leb z hi
                       | _ => false end
    | RRangeF lo hi => match v with
                       | RFloat x => le_opt_lo (fleb fo) lo x && le_opt_hi (fleb fo) x hi
                       | _ => false end
    | RExact expected => match rv_equal fo v expected with Some true => true | _ => false end
    end.

  Lemma cv_check_nonempty a arms v : cv_check fo (a :: arms) v = existsb (rarm_check v) (a :: arms).
  Proof. reflexivity. Qed.

  Lemma no_empty_constraint : forall v : value, contains_empty_constraint fo (rv v) = false.
  Proof.
    induction v as [| | | | |l IH|fs IH| |] using value_ind2; try reflexivity.
    - simpl. induction IH as [|x l Hx Hl IHl]; simpl; auto. now rewrite Hx.
    - simpl. induction IH as [|[k x] fs Hx Hf IHf]; simpl in *; auto. now rewrite Hx.
  Qed.

  Lemma rarm_of_spec a :
    arm_grammar fo a = true ->
    exists ra, rarm_of fo a = Some ra
               /\ (match ra with RExact w => contains_empty_constraint fo w | _ => false end) = false
               /\ forall v, lit v = true -> rarm_check (rv v) ra = arm_admits v a.
  Proof.
    destruct a as [lo hi|w]; simpl; intros G.
    - destruct lo as [[]|], hi as [[]|]; try discriminate; eexists; (split; [reflexivity|]); (split; [reflexivity|]);
        intros v Lv; destruct v; simpl; rewrite ?andb_true_r; reflexivity.
    - eexists. split; [reflexivity|]. split; [apply no_empty_constraint|].
      intros v Lv. simpl. apply (rv_equal_val_eqb v w Lv G).
  Qed.

  Lemma rarms_of_spec arms :
    forallb (arm_grammar fo) arms = true ->
    exists rs, rarms_of fo arms = Some rs
               /\ List.length rs = List.length arms
               /\ contains_self_ref fo rs = false
               /\ forall v, lit v = true -> existsb (rarm_check (rv v)) rs = existsb (arm_admits v) arms.
  Proof.
    induction arms as [|a arms IH]; simpl; intros G.
    - exists []. repeat split; auto.
    - apply andb_true_iff in G. destruct G as [Ga G].
      destruct (rarm_of_spec a Ga) as (ra & Ea & Ca & Ha).
      destruct (IH G) as (rs & Es & Ls & Cs & Hs).
      rewrite Ea, Es. exists (ra :: rs). split; [reflexivity|]. split; [simpl; congruence|]. split.
      + unfold contains_self_ref in *. simpl. rewrite Cs. rewrite orb_false_r. exact Ca.
      + intros v Lv. simpl. now rewrite Ha, Hs.
  Qed.

  Lemma runtime_alt arms v :
    forallb (arm_grammar fo) arms = true -> arms <> [] -> lit v = true ->
    runtime_ok fo (VAlt arms) v = conforms fo (VAlt arms) v.
  Proof.
    intros G Hne Lv. rewrite conforms_alt. unfold runtime_ok.
    destruct (rarms_of_spec arms G) as (rs & Es & Ls & Cs & Hs). rewrite Es.
    unfold check_constraint. rewrite Cs.
    destruct rs as [|r rs]; [destruct arms; [congruence|discriminate]|].
    rewrite cv_check_nonempty. apply Hs, Lv.
  Qed.

  Lemma conforms_static_alt arms v :
    constraint_grammar fo (VAlt arms) = true -> lit v = true ->
    conforms fo (VAlt arms) v = true -> static_ok fo (VAlt arms) v = true.
  Proof.
    intros G Lv C. simpl in G. apply andb_true_iff in G. destruct G as [G Gl].
    rewrite conforms_alt in C.
    destruct arms as [|a1 [|a2 arms]]; try discriminate.
    - destruct a1 as [lo hi|w]; try discriminate.
      simpl in G. rewrite andb_true_r in G.
      rewrite static_single_range by auto.
      simpl in C. rewrite orb_false_r in C. apply (arm_admits_same (VRange lo hi) v); auto.
    - rewrite static_alt by (auto; simpl; lia).
      apply orb_true_iff. right. apply existsb_exists in C. destruct C as (a & Ia & Ha).
      apply existsb_exists. exists a. split; auto. apply arm_admits_same; auto.
      rewrite forallb_forall in G. auto.
  Qed.

  (* ---- C06, the heart: a constraint admits exactly the conforming values ---- *)
  Theorem let_constraint_exact_lit : forall c v,
    constraint_grammar fo c = true -> literal_value fo v = true ->
    build_accepts fo c v = conforms fo c v.
  Proof.
    intros [ex|arms] v G Lv; unfold build_accepts.
    - simpl runtime_ok. rewrite andb_true_r. apply static_ok_exemplar; auto.
    - assert (Hne : arms <> []).
      { simpl in G. apply andb_true_iff in G. destruct G as [_ G]. destruct arms; [discriminate|discriminate]. }
      assert (Ga : forallb (arm_grammar fo) arms = true).
      { simpl in G. apply andb_true_iff in G. tauto. }
      rewrite (runtime_alt arms v Ga Hne Lv).
      destruct (conforms fo (VAlt arms) v) eqn:C.
      + now rewrite (conforms_static_alt arms v G Lv C).
      + apply andb_false_r.
  Qed.
End C06.

(* ------------------------------------------------------------------------------------------ *)
(* 5. C06 through the statement pipeline: inline, named constraint, let-bound exemplar          *)
(* ------------------------------------------------------------------------------------------ *)
Section Prog.
  Variable fo : float_ops.
  (* a float literal denotes the float it was printed from *)
  Hypothesis float_roundtrip : forall x : F fo, f_of_bits fo (f_to_bits fo x) = x.
  Notation value := (value fo).
  Notation sh := (shape_of_value fo).
  Notation rv := (rv_of_value fo).
  Notation same := (same_shape fo true).
  Notation lit := (literal_value fo).
  Notation lex := (lit_expr fo).

  Lemma depth_list_in (d : expr -> nat) es e : In e es -> d e <= depth_list d es.
  Proof. induction es as [|x es IH]; simpl; intros H; [contradiction|]. destruct H as [->|H]; [lia|]. specialize (IH H). lia. Qed.
  Lemma depth_fields_in (d : expr -> nat) fs k e : In (k, e) fs -> d e <= depth_fields d fs.
  Proof.
    induction fs as [|[k' x] fs IH]; simpl; intros H; [contradiction|].
    destruct H as [H|H]; [inversion H; subst; lia|]. specialize (IH H). lia.
  Qed.

  Lemma derive_list_lit f (l : list value) :
    Forall (fun v => lit v = true -> forall fuel st, expr_depth (lex v) <= fuel -> derive_f fuel (lex v) st = (sh v, st)) l ->
    forallb lit l = true -> (forall x, In x l -> expr_depth (lex x) <= f) ->
    forall st, derive_list (derive_f f) (map lex l) st = (map sh l, st).
  Proof.
    induction 1 as [|v l Hv Hl IH]; simpl; intros L D st; auto.
    apply andb_true_iff in L. destruct L as [Lv L].
    rewrite (Hv Lv f st) by (apply D; now left).
    rewrite IH by (auto; intros; apply D; now right). reflexivity.
  Qed.

  Lemma derive_fields_lit f (fs : list (bytes * value)) :
    Forall (fun kv => lit (snd kv) = true -> forall fuel st, expr_depth (lex (snd kv)) <= fuel ->
                                                          derive_f fuel (lex (snd kv)) st = (sh (snd kv), st)) fs ->
    forallb (fun '(_, x) => lit x) fs = true -> (forall k x, In (k, x) fs -> expr_depth (lex x) <= f) ->
    forall st, derive_fields (derive_f f) (map (fun '(k, x) => (k, lex x)) fs) st
               = (map (fun '(k, x) => (k, sh x)) fs, st).
  Proof.
    induction 1 as [|[k v] fs Hv Hf IH]; simpl; intros L D st; auto.
    apply andb_true_iff in L. destruct L as [Lv L]. simpl in Hv.
    rewrite (Hv Lv f st) by (eapply D; now left).
    rewrite IH by (auto; intros; eapply D; right; eauto). reflexivity.
  Qed.

  Lemma derive_f_lit : forall v, lit v = true ->
    forall fuel st, expr_depth (lex v) <= fuel -> derive_f fuel (lex v) st = (sh v, st).
  Proof.
    induction v as [| | | | |l IH|fs IH| |] using value_ind2; intros L fuel st D;
      try discriminate L; (destruct fuel as [|f]; [simpl in D; lia|]); try reflexivity.
    - simpl lit_expr. simpl lit_expr in D. simpl in D. apply le_S_n in D.
      simpl derive_f. rewrite (derive_list_lit f l IH L); auto.
      intros x I. eapply Nat.le_trans; [|exact D].
      apply (depth_list_in (fun e1 => expr_depth e1) (map lex l) (lex x)). now apply in_map.
    - simpl lit_expr. simpl lit_expr in D. simpl in D. apply le_S_n in D.
      simpl in L. apply andb_true_iff in L. destruct L as [_ L].
      simpl derive_f. rewrite (derive_fields_lit f fs IH L); auto.
      intros k x I. eapply Nat.le_trans; [|exact D].
      apply (depth_fields_in (fun e1 => expr_depth e1) (map (fun '(k, x) => (k, lex x)) fs) k (lex x)).
      apply in_map_iff. exists (k, x). auto.
  Qed.

  Lemma derive_st_lit v st : lit v = true -> derive_st (lex v) st = (sh v, st).
  Proof. intros L. unfold derive_st. apply derive_f_lit; auto. lia. Qed.

  (* ---- run-time evaluation of literal expressions ---- *)
  Lemma has_key_map k (fs : list (bytes * value)) :
    has_key k (map (fun '(k, x) => (k, rv x)) fs) = existsb (bytes_eqb k) (names fs).
  Proof. induction fs as [|[k' x] fs IH]; simpl; auto. now rewrite IH. Qed.

  Lemma lit_eval_lit : forall v, lit v = true -> forall re, lit_eval fo re (lex v) = Ok (rv v).
  Proof.
    induction v as [| | | | |l IH|fs IH| |] using value_ind2; intros L re; try discriminate L; try reflexivity.
    - simpl. now rewrite float_roundtrip.
    - simpl in L. simpl lit_expr. simpl lit_eval.
      assert (E : lit_eval_list fo (fun e1 => lit_eval fo re e1) (map lex l) = Ok (map rv l)).
      { induction IH as [|x l Hx Hl IHl]; simpl in *; auto.
        apply andb_true_iff in L. destruct L as [Lx L]. rewrite (Hx Lx re). simpl. rewrite (IHl L). reflexivity. }
      rewrite E. reflexivity.
    - simpl in L. apply andb_true_iff in L. destruct L as [N L]. simpl lit_expr. simpl lit_eval.
      assert (E : lit_eval_fields fo (fun e1 => lit_eval fo re e1) (map (fun '(k, x) => (k, lex x)) fs)
                  = Ok (map (fun '(k, x) => (k, rv x)) fs)).
      { induction IH as [|[k x] fs Hx Hf IHf]; simpl in *; auto.
        apply andb_true_iff in L, N. destruct L as [Lx L], N as [N1 N]. rewrite (Hx Lx re). simpl.
        rewrite (IHf N L). simpl. rewrite has_key_map.
        apply negb_true_iff in N1. now rewrite N1. }
      rewrite E. reflexivity.
  Qed.

  (* ---- the shape of a grammar constraint ---- *)
  Definition arm_shape (a : varm fo) : shape :=
    match a with
    | VRange (Some lo) _ => sh lo
    | VRange None (Some hi) => sh hi
    | VRange None None => SErr EType
    | VExact v => sh v
    end.

  Lemma derive_arms_grammar arms : forallb (arm_grammar fo) arms = true ->
    forall acc st, derive_arms (map (carm_of fo) arms) acc st = (inr (acc ++ map arm_shape arms), st).
  Proof.
    induction arms as [|a arms IH]; simpl; intros G acc st.
    - now rewrite app_nil_r.
    - apply andb_true_iff in G. destruct G as [Ga G].
      destruct a as [lo hi|w].
      + assert (B : exists bd : value,
                   (match option_map lex lo with Some e => Some e | None => option_map lex hi end) = Some (lex bd)
                   /\ is_num fo bd = true /\ arm_shape (VRange lo hi) = sh bd).
        { destruct lo as [lo|], hi as [hi|]; simpl in Ga; try discriminate.
          - exists lo. repeat split; auto. destruct lo, hi; simpl in *; auto; discriminate.
          - exists lo. repeat split; auto.
          - exists hi. repeat split; auto. }
        destruct B as (bd & B1 & B2 & B3).
        cbn [map]. change (carm_of fo (VRange lo hi)) with (ARange (option_map lex lo) (option_map lex hi)).
        cbn [derive_arms]. rewrite B1. rewrite derive_st_lit by (now apply num_lit).
        rewrite B3. destruct bd; simpl in B2; try discriminate; simpl; rewrite IH by auto; now rewrite <- app_assoc.
      + simpl. rewrite derive_st_lit by auto. rewrite IH by auto. now rewrite <- app_assoc.
  Qed.

  Lemma derive_cexpr_grammar c st :
    constraint_grammar fo c = true -> derive_cexpr (cexpr_of fo c) st = (vshape_of_constraint fo c, st).
  Proof.
    destruct c as [ex|arms]; simpl; intros G.
    - now apply derive_st_lit.
    - apply andb_true_iff in G. destruct G as [G _].
      rewrite (derive_arms_grammar arms G). reflexivity.
  Qed.

  (* ---- the static half does not depend on the symbol table ---- *)
  Lemma narrow_st_grammar st c v :
    constraint_grammar fo c = true -> lit v = true ->
    exists r, narrow_st st (sh v) (vshape_of_constraint fo c) = (r, st) /\ negb (is_err r) = static_ok fo c v.
  Proof.
    intros G Lv. destruct c as [ex|arms].
    - simpl in G. rewrite (static_ok_exemplar fo ex v G Lv).
      apply (narrow_st_lit fo st ex v G Lv).
    - simpl in G. apply andb_true_iff in G. destruct G as [G Gl].
      destruct arms as [|a1 [|a2 arms]]; try discriminate.
      + destruct a1 as [lo hi|w]; try discriminate. simpl in G. rewrite andb_true_r in G.
        rewrite (static_single_range fo lo hi v G Lv).
        replace (vshape_of_constraint fo (VAlt [VRange lo hi])) with (sh (arm_witness fo (VRange lo hi)))
          by (destruct lo, hi; simpl in *; auto; discriminate).
        apply narrow_st_lit; auto. apply arm_witness_lit. exact G.
      + rewrite (static_alt fo (a1 :: a2 :: arms) v G Lv) by (simpl; lia).
        unfold vshape_of_constraint. rewrite (arm_shapes fo _ G).
        change (match map sh (map (arm_witness fo) (a1 :: a2 :: arms)) with
                | [x] => x | _ => SNarrowed (map sh (map (arm_witness fo) (a1 :: a2 :: arms))) end)
          with (SNarrowed (map sh (map (arm_witness fo) (a1 :: a2 :: arms)))).
        destruct (narrow_st_narrowed fo st (map (arm_witness fo) (a1 :: a2 :: arms)) v) as (r & E & C); auto.
        * rewrite forallb_forall. intros w I. apply in_map_iff in I. destruct I as (a & <- & Ia).
          apply arm_witness_lit. rewrite forallb_forall in G. auto.
        * discriminate.
        * exists r. split; auto. rewrite C. f_equal. apply bool_eq_iff. rewrite !existsb_exists. split.
          -- intros (w & I & H). apply in_map_iff in I. destruct I as (a & <- & Ia). eauto.
          -- intros (a & Ia & H). exists (arm_witness fo a). split; auto. now apply in_map.
  Qed.

  Lemma sh_not_import v (X Y : option symtab) :
    match sh v with SImportU _ => Y | _ => X end = X.
  Proof. destruct v; reflexivity. Qed.

  (* ---- the run-time half ---- *)
  Lemma build_arm_grammar re a ra :
    arm_grammar fo a = true -> rarm_of fo a = Some ra -> build_arm fo re (carm_of fo a) = Ok ra.
  Proof.
    destruct a as [lo hi|w]; simpl; intros G E.
    - destruct lo as [[]|], hi as [[]|]; simpl in *; try discriminate; inversion E; subst;
        rewrite ?float_roundtrip; reflexivity.
    - inversion E; subst. now rewrite lit_eval_lit.
  Qed.

  Lemma build_arms_grammar re arms rs :
    forallb (arm_grammar fo) arms = true -> rarms_of fo arms = Some rs ->
    build_arms fo re (map (carm_of fo) arms) = Ok rs.
  Proof.
    revert rs. induction arms as [|a arms IH]; simpl; intros rs G E.
    - now inversion E.
    - apply andb_true_iff in G. destruct G as [Ga G].
      destruct (rarm_of fo a) as [ra|] eqn:Ea; [|discriminate].
      destruct (rarms_of fo arms) as [rs'|] eqn:Es; [|discriminate]. inversion E; subst.
      rewrite (build_arm_grammar re a ra Ga Ea). simpl. rewrite (IH rs' G eq_refl). reflexivity.
  Qed.

  Lemma check_plain_value (ex : value) x : check_constraint fo (rv ex) x = true.
  Proof. destruct ex; reflexivity. Qed.

  (* the run-time check, for the constraint value [k] that the constraint expression evaluates to *)
  Lemma eval_cexpr_grammar re c v :
    constraint_grammar fo c = true ->
    exists k, eval_cexpr fo re (cexpr_of fo c) = Ok k /\ check_constraint fo k (rv v) = runtime_ok fo c v.
  Proof.
    destruct c as [ex|arms]; simpl; intros G.
    - exists (rv ex). split; [now apply lit_eval_lit|apply check_plain_value].
    - apply andb_true_iff in G. destruct G as [G _].
      destruct (rarms_of_spec fo arms G) as (rs & Es & _).
      rewrite (build_arms_grammar re arms rs G Es). simpl. exists (RCon rs). split; auto. now rewrite Es.
  Qed.

  Lemma xname_not_reserved : is_reserved xname = false.
  Proof. reflexivity. Qed.

  (* ---- `let x :: c = v;` ---- *)
  Theorem build_accepts_prog_eq c v :
    constraint_grammar fo c = true -> lit v = true -> build_accepts_prog fo c v = build_accepts fo c v.
  Proof.
    intros G Lv. unfold build_accepts_prog, builds, build_prog, prog_inline, build_accepts.
    simpl check_stmts. rewrite (derive_st_lit v [] Lv). rewrite sh_not_import.
    rewrite (derive_cexpr_grammar c [] G).
    destruct (narrow_st_grammar [] c v G Lv) as (r & E & C). rewrite E. rewrite <- C.
    destruct (is_err r); simpl; auto.
    rewrite (lit_eval_lit v Lv). simpl.
    destruct (eval_cexpr_grammar [] c v G) as (k & Ek & Ck). rewrite Ek. simpl. rewrite Ck.
    destruct (runtime_ok fo c v); reflexivity.
  Qed.

  Local Opaque bytes_eqb is_reserved xname.

  (* ---- `constraint n = c; let x :: n = v;` ---- *)
  Definition name_ok (n : bytes) : bool := negb (is_reserved n) && negb (bytes_eqb xname n).

  Lemma no_ref_in_value_shape n : forall v : value,
    shape_contains_ref n (sh v) = false /\ forall g, bad_constraint_ref n (sh v) g = false.
  Proof.
    induction v as [| | | | |l IH|fs IH| |] using value_ind2; try (split; [reflexivity|intros; reflexivity]).
    - split; [|intro g]; simpl; induction IH as [|x l Hx Hl IHl]; simpl; auto; destruct Hx as [H1 H2];
        rewrite ?H1, ?H2; auto.
    - split; [|intro g]; simpl; induction IH as [|[k x] fs Hx Hf IHf]; simpl in *; auto; destruct Hx as [H1 H2];
        rewrite ?H1, ?H2; auto.
  Qed.

  Lemma vshape_no_bad_ref n c :
    constraint_grammar fo c = true -> bad_constraint_ref n (vshape_of_constraint fo c) false = false.
  Proof.
    destruct c as [ex|arms]; simpl; intros G.
    - apply no_ref_in_value_shape.
    - apply andb_true_iff in G. destruct G as [G _]. rewrite (arm_shapes fo arms G).
      assert (H : forall g, existsb (fun t => bad_constraint_ref n t g) (map sh (map (arm_witness fo) arms)) = false).
      { intro g. induction (map (arm_witness fo) arms) as [|w ws IHw]; simpl; auto.
        rewrite (proj2 (no_ref_in_value_shape n w)). exact IHw. }
      destruct (map sh (map (arm_witness fo) arms)) as [|x [|y l]] eqn:E.
      + reflexivity.
      + specialize (H false). simpl in H. now rewrite orb_false_r in H.
      + simpl. apply H.
  Qed.

  Lemma vshape_not_err c : constraint_grammar fo c = true -> is_err (vshape_of_constraint fo c) = false.
  Proof.
    destruct c as [ex|arms]; simpl; intros G.
    - destruct ex; simpl in *; auto; discriminate.
    - apply andb_true_iff in G. destruct G as [G Gl]. rewrite (arm_shapes fo arms G).
      destruct arms as [|a1 [|a2 arms]]; try discriminate; simpl.
      + destruct a1 as [lo hi|w]; try discriminate. simpl in G. rewrite andb_true_r in G.
        destruct lo as [[]|], hi as [[]|]; simpl in *; auto; discriminate.
      + reflexivity.
  Qed.

  Theorem named_constraint_transparent : forall n c v,
    name_ok n = true -> constraint_grammar fo c = true -> literal_value fo v = true ->
    build_accepts_named fo n c v = build_accepts fo c v.
  Proof.
    intros n c v Hn G Lv. unfold name_ok in Hn. apply andb_true_iff in Hn. destruct Hn as [Hr Hx].
    apply negb_true_iff in Hr, Hx.
    unfold build_accepts_named, builds, build_prog, prog_named, build_accepts.
    simpl check_stmts. unfold st_set.
    rewrite (derive_cexpr_grammar c _ G). rewrite (vshape_not_err c G), (vshape_no_bad_ref n c G).
    rewrite (derive_st_lit v _ Lv). rewrite sh_not_import.
    unfold derive_cexpr, derive_st. simpl derive_f. cbn [st_get]. rewrite bytes_eqb_refl.
    destruct (narrow_st_grammar ((n, vshape_of_constraint fo c) :: [(n, SRef n)]) c v G Lv) as (r & E & C).
    rewrite E. rewrite <- C.
    destruct (is_err r); simpl; auto.
    rewrite Hr.
    destruct (eval_cexpr_grammar [(n, RCon [])] c v G) as (k & Ek & Ck). rewrite Ek. simpl.
    rewrite (lit_eval_lit v Lv). simpl. rewrite bytes_eqb_refl. simpl. rewrite Ck.
    destruct (runtime_ok fo c v); simpl; auto.
    rewrite xname_not_reserved. simpl. rewrite Hx. reflexivity.
  Qed.

  (* ---- `let n = ex; let x :: n = v;` : a let-bound exemplar is the exemplar ---- *)
  Theorem let_bound_exemplar_transparent : forall n ex v,
    name_ok n = true -> literal_value fo ex = true -> literal_value fo v = true ->
    build_accepts_let_named fo n ex v = build_accepts fo (VExemplar ex) v.
  Proof.
    intros n ex v Hn Le Lv. unfold name_ok in Hn. apply andb_true_iff in Hn. destruct Hn as [Hr Hx].
    apply negb_true_iff in Hr, Hx.
    unfold build_accepts_let_named, builds, build_prog, prog_let_named, build_accepts.
    simpl check_stmts. unfold st_set.
    rewrite (derive_st_lit ex _ Le). rewrite sh_not_import.
    assert (Ne : is_err (sh ex) = false) by (destruct ex; simpl in *; auto; discriminate).
    rewrite Ne.
    rewrite (derive_st_lit v _ Lv). rewrite sh_not_import.
    unfold derive_cexpr, derive_st. simpl derive_f. cbn [st_get]. rewrite bytes_eqb_refl.
    destruct (narrow_st_grammar [(n, sh ex)] (VExemplar ex) v Le Lv) as (r & E & C).
    simpl vshape_of_constraint in E. rewrite E. rewrite <- C.
    destruct (is_err r); simpl; auto.
    rewrite (lit_eval_lit ex Le). simpl. rewrite Hr. simpl.
    rewrite (lit_eval_lit v Lv). simpl. rewrite bytes_eqb_refl. simpl.
    rewrite check_plain_value. simpl. rewrite xname_not_reserved. simpl. rewrite Hx. reflexivity.
  Qed.
End Prog.

(* ------------------------------------------------------------------------------------------ *)
(* 6. C06: refutations of the unrestricted statements, and sanity lemmas                        *)
(* ------------------------------------------------------------------------------------------ *)
Section C06More.
  Variable fo : float_ops.
  Notation value := (value fo).
  Notation sh := (shape_of_value fo).
  Notation same := (same_shape fo true).
  Notation lit := (literal_value fo).

  (* Under the strict reading "NULL is a type of its own" the statement is false:
       let x :: 0 = NULL;          builds, although NULL is not an integer. *)
  Lemma let_constraint_exact_strict_refuted :
    exists c v, constraint_grammar fo c = true /\ literal_value fo v = true
                /\ build_accepts fo c v = true /\ conforms_strict fo c v = false.
  Proof. exists (VExemplar (VInt 0)), VNull. repeat split; reflexivity. Qed.
  (*   let x :: {a = 0} = {a = NULL};   likewise for a NULL inside a tuple *)
  Lemma let_constraint_exact_strict_refuted_nested :
    build_accepts fo (VExemplar (VTuple [(b "a", VInt 0)])) (VTuple [(b "a", VNull)]) = true
    /\ conforms_strict fo (VExemplar (VTuple [(b "a", VInt 0)])) (VTuple [(b "a", VNull)]) = false.
  Proof. split; reflexivity. Qed.

  (* ... and it is exact again once no NULL occurs in the exemplar or in the value *)
  Lemma same_shape_null_free : forall ex v nb,
    null_free fo ex = true -> null_free fo v = true -> same_shape fo nb ex v = same ex v.
  Proof.
    induction ex as [| | | | |l IH|fs IH| |] using (value_ind2 fo); intros v nb Ne Nv;
      destruct v as [| | | | |l'|fs'| |]; try discriminate; try reflexivity.
    - simpl in Ne, Nv.
      change (same_shape fo nb (VList l) (VList l'))
        with (forallb (fun x => existsb (fun y => same_shape fo nb x y) l') l
              || forallb (fun y => existsb (fun x => same_shape fo nb x y) l) l').
      change (same (VList l) (VList l'))
        with (forallb (fun x => existsb (fun y => same x y) l') l
              || forallb (fun y => existsb (fun x => same x y) l) l').
      rewrite Forall_forall in IH. rewrite forallb_forall in Ne, Nv.
      f_equal.
      + apply forallb_ext_in. intros x Ix. apply existsb_ext_in. intros y Iy. apply IH; auto.
      + apply forallb_ext_in. intros y Iy. apply existsb_ext_in. intros x Ix. apply IH; auto.
    - simpl in Ne, Nv.
      change (same_shape fo nb (VTuple fs) (VTuple fs'))
        with ((subset_names (names fs) (names fs') || subset_names (names fs') (names fs))
              && forallb (fun '(k, x) => match lookup fo k fs' with
                                         | Some y => same_shape fo nb x y | None => true end) fs).
      change (same (VTuple fs) (VTuple fs'))
        with ((subset_names (names fs) (names fs') || subset_names (names fs') (names fs))
              && forallb (fun '(k, x) => match lookup fo k fs' with
                                         | Some y => same x y | None => true end) fs).
      f_equal. rewrite Forall_forall in IH. rewrite forallb_forall in Ne, Nv.
      apply forallb_ext_in. intros [k x] I. destruct (lookup fo k fs') as [y|] eqn:E; auto.
      apply (IH (k, x) I); auto.
      + apply (Ne (k, x) I).
      + apply (Nv (k, y)). now apply lookup_in.
  Qed.

  Theorem let_constraint_exact_strict_null_free : forall c v,
    constraint_grammar fo c = true -> literal_value fo v = true ->
    (match c with VExemplar ex => null_free fo ex | VAlt _ => true end) = true -> null_free fo v = true ->
    build_accepts fo c v = conforms_strict fo c v.
  Proof.
    intros c v G Lv Nc Nv. rewrite (let_constraint_exact_lit fo c v G Lv).
    destruct c as [ex|arms]; [|reflexivity].
    unfold conforms, conforms_strict, conforms_gen. symmetry. now apply same_shape_null_free.
  Qed.

  (* Outside constraint_grammar: a range whose bounds have different numeric types cannot be built at run
     time and takes the whole alternation with it:
       let x :: in 0..2.5 | "x" = "x";      is rejected although the value equals an alternative. *)
  Lemma let_constraint_mixed_range_refuted :
    let c := VAlt [VRange (Some (VInt 0)) (Some (VFloat (f_of_bits fo 4612811918334230528))); VExact (VStr (b "x"))] in
    constraint_grammar fo c = false /\ build_accepts fo c (VStr (b "x")) = false /\ conforms fo c (VStr (b "x")) = true.
  Proof. repeat split; reflexivity. Qed.

  (* The name of a constraint must be a legal new binding: with n = "x"
       constraint x = 0; let x :: x = 1;       fails (x is already bound) while  let x :: 0 = 1;  builds. *)
  Lemma named_constraint_transparent_refuted :
    build_accepts_named fo (b "x") (VExemplar (VInt 0)) (VInt 1) = false
    /\ build_accepts fo (VExemplar (VInt 0)) (VInt 1) = true.
  Proof. split; reflexivity. Qed.

  (* ---- sanity: narrowing literal shapes ---- *)
  Lemma same_refl : forall v, lit v = true -> same v v = true.
  Proof.
    induction v as [| | | | |l IH|fs IH| |] using (value_ind2 fo); intros L; try discriminate; try reflexivity.
    - change (same (VList l) (VList l))
        with (forallb (fun x => existsb (fun y => same x y) l) l
              || forallb (fun y => existsb (fun x => same x y) l) l).
      apply orb_true_iff. left. rewrite Forall_forall in IH. rewrite forallb_forall. intros x I.
      rewrite existsb_exists. exists x. split; auto. apply IH; auto. eapply lit_list_in; eauto.
    - change (same (VTuple fs) (VTuple fs))
        with ((subset_names (names fs) (names fs) || subset_names (names fs) (names fs))
              && forallb (fun '(k, x) => match lookup fo k fs with
                                         | Some y => same x y | None => true end) fs).
      rewrite subset_names_refl. simpl. rewrite Forall_forall in IH. rewrite forallb_forall. intros [k x] I.
      rewrite (nodup_in_lookup fo fs k x (lit_tuple_nodup fo fs L) I).
      apply (IH (k, x) I). eapply lit_tuple_in; eauto.
  Qed.

  (* narrow_refl: a literal shape narrows against itself *)
  Theorem narrow_refl_lit st v : lit v = true -> ~ is_type_err (narrow st (sh v) (sh v)).
  Proof.
    intros L. unfold is_type_err, narrow.
    destruct (narrow_st_lit fo st v v L L) as (r & E & C). rewrite E. simpl.
    rewrite (same_refl v L) in C. destruct (is_err r); [discriminate|congruence].
  Qed.

  (* compatibility of literal shapes is symmetric *)
  Theorem narrow_sym_lit st a c : lit a = true -> lit c = true ->
    is_err (narrow st (sh a) (sh c)) = is_err (narrow st (sh c) (sh a)).
  Proof.
    intros La Lc. unfold narrow, narrow_st.
    destruct (narrow_lit fo (narrow_fuel st (sh a) (sh c)) a c) as [H1 _]; auto.
    { apply narrow_fuel_ge. }
    destruct (narrow_lit fo (narrow_fuel st (sh c) (sh a)) a c) as [_ H2]; auto.
    { pose proof (narrow_fuel_ge st (sh c) (sh a)). lia. }
    destruct (H1 (mk_nst st [])) as (r1 & E1 & C1). destruct (H2 (mk_nst st [])) as (r2 & E2 & C2).
    rewrite E1, E2. simpl. destruct (is_err r1), (is_err r2); simpl in *; congruence.
  Qed.

  (* narrowing a literal shape never touches the symbol table *)
  Theorem narrow_lit_pure st a c : lit a = true -> lit c = true -> snd (narrow_st st (sh a) (sh c)) = st.
  Proof.
    intros La Lc. destruct (narrow_st_lit fo st c a Lc La) as (r & E & _). now rewrite E.
  Qed.

  (* TypeErr propagates, NULL (Narrowed Any) and a hole not in the table give the other side *)
  Lemma narrow_err_l st k r : narrow st (SErr k) r = SErr k.
  Proof. unfold narrow, narrow_st, narrow_fuel. rewrite Nat.add_comm. reflexivity. Qed.
  Lemma narrow_any_l st r : is_err r = false -> ref_name r = None -> hole_name r = None -> narrow st SAny r = r.
  Proof.
    intros H1 H2 H3. unfold narrow, narrow_st, narrow_fuel. rewrite Nat.add_comm. simpl.
    rewrite H1, H2. destruct r; try discriminate; reflexivity.
  Qed.
End C06More.

(* ------------------------------------------------------------------------------------------ *)
(* 7. C07: inhabitation, narrowing two shapes of one value, soundness of derive                 *)
(* ------------------------------------------------------------------------------------------ *)
Section C07.
  Variable fo : float_ops.
  Notation value := (value fo).
  Notation inh := (inhabitsb fo).
  Notation sh := (shape_of_value fo).
  Notation lit := (literal_value fo).

  (* Hole, Narrowed(Any) and the empty Narrowed are top *)
  Lemma inhabits_hole (v : value) x : inhabits fo v (SHole x).
  Proof. reflexivity. Qed.
  Lemma inhabits_any (v : value) : inhabits fo v SAny.
  Proof. reflexivity. Qed.
  Lemma inhabits_empty_narrowed (v : value) : inhabits fo v (SNarrowed []).
  Proof. reflexivity. Qed.

  (* a literal value inhabits its own shape *)
  Lemma first_decl_nodup (fs : list (bytes * value)) (g : value -> shape) k x (P : shape -> bool) :
    nodup_names (names fs) = true -> In (k, x) fs ->
    (fix first (l : list (bytes * shape)) : bool :=
       match l with
       | [] => false
       | (k', t) :: l' => if bytes_eqb k k' then P t else first l'
       end) (map (fun '(k, y) => (k, g y)) fs) = P (g x).
  Proof.
    induction fs as [|[k' y] fs IH]; simpl; intros N I; [contradiction|].
    apply andb_true_iff in N. destruct N as [N1 N2]. destruct I as [I|I].
    - inversion I; subst. now rewrite bytes_eqb_refl.
    - destruct (bytes_eqb k k') eqn:E; [|auto].
      apply bytes_eqb_spec in E. subst k'. exfalso. apply negb_true_iff in N1.
      assert (existsb (bytes_eqb k) (names fs) = true).
      { apply existsb_exists. exists k. split; [|apply bytes_eqb_refl]. change k with (fst (k, x)). now apply in_map. }
      congruence.
  Qed.

  Lemma value_inhabits_own_shape : forall v, lit v = true -> inhabits fo v (sh v).
  Proof.
    unfold inhabits.
    induction v as [| | | | |l IH|fs IH| |] using (value_ind2 fo); intros L; try discriminate; try reflexivity.
    - simpl. rewrite Forall_forall in IH. rewrite forallb_forall. intros x I.
      rewrite existsb_exists. exists (sh x). split; [now apply in_map|].
      apply IH; auto. eapply lit_list_in; eauto.
    - simpl. rewrite Forall_forall in IH. rewrite forallb_forall. intros [k x] I.
      rewrite (first_decl_nodup fs sh k x (inh x) (lit_tuple_nodup fo fs L) I).
      apply (IH (k, x) I). eapply lit_tuple_in; eauto.
  Qed.

  (* ---- narrow_compat is FALSE: one value, two shapes it inhabits, narrowing fails ---- *)
  (* the empty list inhabits [int] and [str]; ucg witness:
       let r = filter(func(x) => false, [1]) + filter(func(x) => false, ["a"]);   evaluates to [], build: type error *)
  Lemma narrow_compat_refuted_list :
    exists (v : value) s1 s2, inhabits fo v s1 /\ inhabits fo v s2 /\ is_type_err (narrow [] s1 s2).
  Proof. exists (VList []), (SList [SInt]), (SList [SStr]). repeat split; reflexivity. Qed.
  (* [1] inhabits List[int,str] and List[int,bool]: neither element set is contained in the other *)
  Lemma narrow_compat_refuted_list_incomparable :
    exists (v : value) s1 s2, inhabits fo v s1 /\ inhabits fo v s2 /\ is_type_err (narrow [] s1 s2).
  Proof. exists (VList [VInt 1]), (SList [SInt; SStr]), (SList [SInt; SBool]). repeat split; reflexivity. Qed.
  (* {a = 1} inhabits {a:int, b:str} and {a:int, c:str}: incomparable field sets *)
  Lemma narrow_compat_refuted_tuple :
    exists (v : value) s1 s2, inhabits fo v s1 /\ inhabits fo v s2 /\ is_type_err (narrow [] s1 s2).
  Proof.
    exists (VTuple [(b "a", VInt 1)]), (STuple [(b "a", SInt); (b "b", SStr)]), (STuple [(b "a", SInt); (b "c", SStr)]).
    repeat split; reflexivity.
  Qed.

  (* ---- repaired statements ---- *)
  (* (1) primitive shapes: two primitive shapes of one value are the same shape and narrow to it *)
  Theorem narrow_compat_prim : forall (v : value) s1 s2 st,
    is_prim s1 = true -> is_prim s2 = true -> inhabits fo v s1 -> inhabits fo v s2 ->
    narrow_st st s1 s2 = (s1, st) /\ s1 = s2.
  Proof.
    unfold inhabits. intros v s1 s2 st P1 P2 I1 I2.
    destruct s1; try discriminate; destruct s2; try discriminate; destruct v; try discriminate;
      (split; [unfold narrow_st, narrow_fuel; rewrite Nat.add_comm; reflexivity | reflexivity]).
  Qed.
  (* (2) the exact shapes of literal values: see narrow_refl_lit (a value against itself) and narrow_lit
     (two values: compatible iff same_shape) above. *)
  (* (3) a top on either side *)
  Theorem narrow_compat_top_l : forall s2 st, is_err s2 = false -> ref_name s2 = None -> hole_name s2 = None ->
    ~ is_type_err (narrow st SAny s2).
  Proof. intros s2 st H1 H2 H3. rewrite narrow_any_l; auto. unfold is_type_err. congruence. Qed.

  (* ---- soundness of derive on the first-order fragment ---- *)
  Definition env_ok (sc : scope fo) (st : symtab) : Prop :=
    forall x v, lookup fo x sc = Some v ->
                exists s, st_get x st = Some s /\ groundb s = true /\ inh v s = true.

  Lemma ground_not_err s : groundb s = true -> is_err s = false.
  Proof. destruct s; simpl; auto; discriminate. Qed.

  Lemma narrow_st_prim st s : is_prim s = true -> narrow_st st s s = (s, st).
  Proof.
    destruct s; try discriminate; intros _; unfold narrow_st, narrow_fuel; rewrite Nat.add_comm; reflexivity.
  Qed.

  Lemma le_S_depth e df : expr_depth e <= df -> exists df', df = S df'.
  Proof. destruct e; simpl; intros H; (destruct df; [lia|eauto]). Qed.

  (* mapM over a list *)
  Lemma mapM_ok {A B} (f : A -> res B) l r : mapM f l = Ok r -> Forall2 (fun a x => f a = Ok x) l r.
  Proof.
    revert r. induction l as [|a l IH]; simpl; intros r H.
    - inversion H. constructor.
    - destruct (f a) eqn:E; try discriminate. simpl in H.
      destruct (mapM f l) eqn:E2; try discriminate. simpl in H. inversion H; subst. constructor; auto.
  Qed.

  (* tuple literals without repeated field *)
  Fixpoint nodupE (l : list (bytes * expr)) : bool :=
    match l with
    | [] => true
    | (k, _) :: l' => negb (existsb (fun '(k', _) => bytes_eqb k k') l') && nodupE l'
    end.

  Lemma merge_field_fresh (a : list (bytes * value)) k v :
    existsb (bytes_eqb k) (names a) = false -> merge_field fo a k v = Ok (a ++ [(k, v)]).
  Proof.
    induction a as [|[k' w] a IH]; simpl; intros H; auto.
    apply orb_false_iff in H. destruct H as [H1 H2]. rewrite H1. rewrite (IH H2). reflexivity.
  Qed.

  Lemma fold_not_ok (ev : expr -> res value) fs (x : res (list (bytes * value))) :
    (forall r, x <> Ok r) ->
    forall r, fold_left (fun acc '(k, e) => do a <- acc; do v <- ev e; merge_field fo a k v) fs x <> Ok r.
  Proof.
    revert x. induction fs as [|[k e] fs IH]; simpl; intros x H r; auto.
    apply IH. intros r'. destruct x; simpl; try discriminate. exfalso. eapply H; eauto.
  Qed.

  Lemma tuple_lit_spec (ev : expr -> res value) fs :
    forall acc r,
      fold_left (fun acc '(k, e) => do a <- acc; do v <- ev e; merge_field fo a k v) fs (Ok acc) = Ok r ->
      nodupE fs = true ->
      (forall k e, In (k, e) fs -> existsb (bytes_eqb k) (names acc) = false) ->
      exists vs, Forall2 (fun ke kv => fst ke = fst kv /\ ev (snd ke) = Ok (snd kv)) fs vs /\ r = acc ++ vs.
  Proof.
    induction fs as [|[k e] fs IH]; simpl; intros acc r H N D.
    - inversion H. exists []. split; [constructor|now rewrite app_nil_r].
    - apply andb_true_iff in N. destruct N as [N1 N2].
      destruct (ev e) as [v| | |] eqn:E; simpl in H;
        try (exfalso; eapply (fold_not_ok ev fs); [|exact H]; intros; discriminate).
      rewrite (merge_field_fresh acc k v) in H by (eapply D; left; reflexivity).
      destruct (IH (acc ++ [(k, v)]) r H N2) as (vs & F & R).
      + intros k' e' I. replace (names (acc ++ [(k, v)])) with (names acc ++ [k]) by (unfold names; now rewrite map_app).
        rewrite existsb_app. simpl.
        rewrite (D k' e') by (right; exact I). simpl. rewrite orb_false_r.
        apply negb_true_iff in N1. destruct (bytes_eqb k' k) eqn:E'; auto.
        apply bytes_eqb_spec in E'. subst k'. exfalso.
        assert (existsb (fun '(k', _) => bytes_eqb k k') fs = true).
        { apply existsb_exists. exists (k, e'). split; auto. apply bytes_eqb_refl. }
        congruence.
      + exists ((k, v) :: vs). split.
        * constructor; auto.
        * rewrite R. now rewrite <- app_assoc.
  Qed.

  Lemma nodupE_names (fs : list (bytes * expr)) : nodupE fs = nodup_names (map fst fs).
  Proof.
    induction fs as [|[k e] fs IH]; simpl; auto. rewrite IH. f_equal. f_equal.
    clear IH. induction fs as [|[k' e'] fs IH]; simpl; auto. now rewrite IH.
  Qed.

  Lemma first_st_get (ss : list (bytes * shape)) k (P : shape -> bool) :
    (fix first (l : list (bytes * shape)) : bool :=
       match l with
       | [] => false
       | (k', t) :: l' => if bytes_eqb k k' then P t else first l'
       end) ss = match st_get k ss with Some t => P t | None => false end.
  Proof. induction ss as [|[k' t] ss IH]; simpl; auto. destruct (bytes_eqb k k'); auto. Qed.

  Lemma inh_tuple_forall2 (vs : list (bytes * value)) (ss : list (bytes * shape)) :
    Forall2 (fun kv ks => fst kv = fst ks /\ inh (snd kv) (snd ks) = true) vs ss ->
    nodup_names (names vs) = true -> inh (VTuple vs) (STuple ss) = true.
  Proof.
    intros F N. simpl. rewrite forallb_forall. intros [k x] I. rewrite first_st_get.
    revert N k x I. induction F as [|[k0 x0] [k1 s1] vs ss [H1 H2] F IH]; intros N k x I; [contradiction|].
    simpl in *. subst k1. apply andb_true_iff in N. destruct N as [N1 N2].
    destruct I as [I|I].
    - inversion I; subst. now rewrite bytes_eqb_refl.
    - destruct (bytes_eqb k k0) eqn:E.
      + apply bytes_eqb_spec in E. subst k0. exfalso. apply negb_true_iff in N1.
        assert (existsb (bytes_eqb k) (names vs) = true).
        { apply existsb_exists. exists k. split; [|apply bytes_eqb_refl]. change k with (fst (k, x)). now apply in_map. }
        congruence.
      + apply IH; auto.
  Qed.

  Lemma inh_list_forall2 (vs : list value) (ss : list shape) :
    Forall2 (fun v s => inh v s = true) vs ss -> inh (VList vs) (SList ss) = true.
  Proof.
    intros F. simpl. induction F as [|v s vs ss H F IH]; simpl; auto.
    rewrite H. simpl. rewrite forallb_forall in *. intros x I. rewrite (IH x I). apply orb_true_r.
  Qed.

  Lemma range_from_ints n a stp z :
    forallb (fun x => existsb (inh x) [SInt]) (range_from fo n a stp z) = true.
  Proof.
    revert a. induction n as [|n IH]; simpl; intros a; auto.
    destruct (Z.ltb z a); simpl; auto. destruct (in_i64 (a + stp)); simpl; auto.
  Qed.

  Lemma arith_prim o lv rv v sl sr :
    arith' fo o lv rv = Ok v -> is_prim sl = true -> is_prim sr = true ->
    inh lv sl = true -> inh rv sr = true -> sl = sr /\ inh v sl = true.
  Proof.
    intros H Pl Pr Il Ir.
    destruct sl; try discriminate; destruct sr; try discriminate;
      destruct lv; try discriminate; destruct rv; try discriminate;
        destruct o; simpl in H; try discriminate; unfold chk in H;
          repeat match type of H with
                 | (if ?c then _ else _) = Ok _ => destruct c; try discriminate
                 end;
          inversion H; subst; split; reflexivity.
  Qed.

  Lemma ground_inh_bool s x : groundb s = true -> inh (VBool x) s = true -> s = SBool \/ s = SAny.
  Proof. destruct s; simpl; intros; try discriminate; auto. Qed.

  Lemma ground_inh_tuple s (fs : list (bytes * value)) :
    groundb s = true -> inh (VTuple fs) s = true -> (exists ss, s = STuple ss) \/ s = SAny.
  Proof. destruct s; simpl; intros; try discriminate; eauto. Qed.

  Lemma derive_st_of_f e st s :
    (forall df, expr_depth e <= df -> derive_f df e st = (s, st)) -> derive st e = s.
  Proof. intros H. unfold derive, derive_st. rewrite H by lia. reflexivity. Qed.

  Lemma derive_f_dot df l r st :
    derive_f (S df) (EBin DOT l r) st
    = let '(ls, st1) := derive_f df l st in
      let '(sh, st2) := dot_f df ls r st1 in
      (sh, match l with
           | ESym x =>
             if is_err sh then st2
             else match ls with
                  | SHole _ =>
                    st_set x (match r with
                              | ESym k | EStr k => STuple [(k, SAny)]
                              | EInt _ => SListAny
                              | _ => ls
                              end) st2
                  | _ => st2
                  end
           | _ => st2
           end).
  Proof. reflexivity. Qed.
  Lemma dot_f_tuple_sym n ss k st :
    dot_f (S n) (STuple ss) (ESym k) st = (match st_get k ss with Some s => s | None => SErr EType end, st).
  Proof. reflexivity. Qed.
  Lemma dot_f_tuple_str n ss k st :
    dot_f (S n) (STuple ss) (EStr k) st = (match st_get k ss with Some s => s | None => SErr EType end, st).
  Proof. reflexivity. Qed.
  Lemma dot_f_any_sym n k st : dot_f (S n) SAny (ESym k) st = (SAny, st).
  Proof. reflexivity. Qed.
  Lemma dot_f_any_str n k st : dot_f (S n) SAny (EStr k) st = (SAny, st).
  Proof. reflexivity. Qed.

  Local Opaque bytes_eqb arith'.

  Ltac break_H H :=
    unfold bind in H;
    repeat match type of H with
           | context [match ?x with _ => _ end] => destruct x eqn:?; simpl in H; try discriminate H
           end.

  (* soundness of derive on the fragment: if the expression evaluates, its derived shape is not a type
     error, the value inhabits it, and the symbol table is left as it was *)
  Lemma derive_sound_aux : forall fuel c e v st,
    strict fo c = true -> env_ok (sc fo c) st -> fragment_fo st e = true -> eval fo fuel c e = Ok v ->
    exists s, (forall df, expr_depth e <= df -> derive_f df e st = (s, st))
              /\ groundb s = true /\ inh v s = true.
  Proof.
    induction fuel as [|f IH]; intros c e v st Hs Henv F H; [discriminate|].
    destruct e; simpl in F; try discriminate.
    - (* ENull *) simpl in H. inversion H; subst. exists SAny. repeat split; auto.
      intros df D. destruct df; [simpl in D; lia|reflexivity].
    - simpl in H. inversion H; subst. exists SBool. repeat split; auto.
      intros df D. destruct df; [simpl in D; lia|reflexivity].
    - simpl in H. inversion H; subst. exists SInt. repeat split; auto.
      intros df D. destruct df; [simpl in D; lia|reflexivity].
    - simpl in H. inversion H; subst. exists SFloat. repeat split; auto.
      intros df D. destruct df; [simpl in D; lia|reflexivity].
    - simpl in H. inversion H; subst. exists SStr. repeat split; auto.
      intros df D. destruct df; [simpl in D; lia|reflexivity].
    - (* ESym *)
      apply andb_true_iff in F. destruct F as [F1 F2]. apply negb_true_iff in F1, F2.
      simpl in H. rewrite F1 in H.
      destruct (lookup fo x (sc fo c)) as [w|] eqn:L.
      + inversion H; subst. destruct (Henv x v L) as (s & G1 & G2 & G3). exists s. repeat split; auto.
        intros df D. destruct df; [simpl in D; lia|]. simpl. now rewrite G1.
      + rewrite F2 in H. discriminate.
    - (* ETuple *)
      apply andb_true_iff in F. destruct F as [F1 F2].
      simpl in H.
      destruct (fold_left _ fs (Ok [])) as [r| | |] eqn:T; simpl in H; try discriminate. inversion H; subst. clear H.
      destruct (tuple_lit_spec (eval fo f c) fs [] r T F1) as (vs & FA & R); [reflexivity|]. simpl in R. subst r.
      assert (K : exists ss,
                 (forall df, depth_fields (fun e1 => expr_depth e1) fs <= df ->
                             derive_fields (derive_f df) fs st = (ss, st))
                 /\ Forall2 (fun kv ks => fst kv = fst ks /\ inh (snd kv) (snd ks) = true) vs ss
                 /\ forallb (fun '(_, t) => groundb t) ss = true
                 /\ map fst vs = map fst fs).
      { clear T F1. induction FA as [|[k e1] [k' w] fs vs [H1 H2] FA IHf].
        - exists []. repeat split; auto; try constructor.
        - simpl in *. subst k'. apply andb_true_iff in F2. destruct F2 as [Fe F2].
          destruct (IH c e1 w st Hs Henv Fe H2) as (s1 & D1 & G1 & I1).
          destruct (IHf F2) as (ss & Ds & FS & GS & NS).
          exists ((k, s1) :: ss). repeat split.
          + intros df D. rewrite D1 by lia. rewrite Ds by lia. reflexivity.
          + constructor; auto.
          + simpl. now rewrite G1, GS.
          + now rewrite NS. }
      destruct K as (ss & Ds & FS & GS & NS).
      exists (STuple ss). repeat split; auto.
      + intros df D. destruct df; [simpl in D; lia|]. simpl in D. apply le_S_n in D.
        simpl. rewrite Ds by lia. reflexivity.
      + apply inh_tuple_forall2; auto. unfold names. rewrite NS. now rewrite <- nodupE_names.
    - (* EList *)
      simpl in H. destruct (mapM (eval fo f c) es) as [r| | |] eqn:M; simpl in H; try discriminate.
      inversion H; subst. clear H. apply mapM_ok in M.
      assert (K : exists ss,
                 (forall df, depth_list (fun e1 => expr_depth e1) es <= df ->
                             derive_list (derive_f df) es st = (ss, st))
                 /\ Forall2 (fun v s => inh v s = true) r ss /\ forallb groundb ss = true).
      { induction M as [|e1 w es r H1 M IHm].
        - exists []. repeat split; auto; try constructor.
        - simpl in F. apply andb_true_iff in F. destruct F as [Fe F].
          destruct (IH c e1 w st Hs Henv Fe H1) as (s1 & D1 & G1 & I1).
          destruct (IHm F) as (ss & Ds & FS & GS).
          exists (s1 :: ss). repeat split.
          + intros df D. simpl in D. simpl. rewrite D1 by lia. rewrite Ds by lia. reflexivity.
          + constructor; auto.
          + simpl. now rewrite G1, GS. }
      destruct K as (ss & Ds & FS & GS).
      exists (SList ss). repeat split; auto.
      + intros df D. destruct df; [simpl in D; lia|]. simpl in D. apply le_S_n in D.
        simpl. rewrite Ds by lia. reflexivity.
      + now apply inh_list_forall2.
    - (* EBin *)
      destruct o; simpl in F.
      1-5: (* arithmetic *)
        (apply andb_true_iff in F; destruct F as [F F3]; apply andb_true_iff in F; destruct F as [F1 F2];
         apply andb_true_iff in F3; destruct F3 as [P1 P2];
         simpl in H;
         destruct (eval fo f c e2) as [rv| | |] eqn:E2; simpl in H; try discriminate;
         destruct (eval fo f c e1) as [lv| | |] eqn:E1; simpl in H; try discriminate;
         destruct (IH c e1 lv st Hs Henv F1 E1) as (sl & Dl & Gl & Il);
         destruct (IH c e2 rv st Hs Henv F2 E2) as (sr & Dr & Gr & Ir);
         rewrite (derive_st_of_f e1 st sl Dl) in P1; rewrite (derive_st_of_f e2 st sr Dr) in P2;
         destruct (arith_prim _ lv rv v sl sr H P1 P2 Il Ir) as [<- Iv];
         exists sl; repeat split; auto;
         intros df D; destruct df; [simpl in D; lia|]; simpl in D; apply le_S_n in D;
         simpl; rewrite Dl by lia; rewrite Dr by lia; simpl; apply narrow_st_prim; exact P1).
      1-2: (* && || : outside the fragment *)
        (rewrite andb_false_r in F; discriminate).
      1-6: (* == > < != >= <= *)
        (rewrite andb_true_r in F; apply andb_true_iff in F; destruct F as [F1 F2];
         simpl in H;
         destruct (eval fo f c e2) as [rv| | |] eqn:E2; simpl in H; try discriminate;
         destruct (eval fo f c e1) as [lv| | |] eqn:E1; simpl in H; try discriminate;
         destruct (IH c e1 lv st Hs Henv F1 E1) as (sl & Dl & Gl & Il);
         destruct (IH c e2 rv st Hs Henv F2 E2) as (sr & Dr & Gr & Ir);
         assert (Bv : exists x, v = VBool x)
           by (unfold compare_num in H; break_H H; inversion H; eauto);
         destruct Bv as [x ->];
         exists SBool; repeat split; auto;
         intros df D; destruct df; [simpl in D; lia|]; simpl in D; apply le_S_n in D;
         simpl; rewrite Dl by lia; rewrite Dr by lia; reflexivity).
      1-3: (* =~ !~ in : outside the fragment *)
        (rewrite andb_false_r in F; discriminate).
      + (* is *)
        rewrite andb_true_r in F. apply andb_true_iff in F. destruct F as [F1 F2].
        simpl in H.
        destruct (eval fo f c e2) as [rv| | |] eqn:E2; simpl in H; try discriminate.
        destruct (eval fo f c e1) as [lv| | |] eqn:E1; simpl in H; try discriminate.
        destruct (IH c e1 lv st Hs Henv F1 E1) as (sl & Dl & Gl & Il).
        destruct (IH c e2 rv st Hs Henv F2 E2) as (sr & Dr & Gr & Ir).
        assert (Bv : exists x, v = VBool x) by (break_H H; inversion H; eauto).
        destruct Bv as [x ->].
        exists SBool. repeat split; auto.
        intros df D. destruct df; [simpl in D; lia|]. simpl in D. apply le_S_n in D.
        simpl. rewrite Dl by lia. rewrite Dr by lia. reflexivity.
      + (* . *)
        assert (K : exists k, (e2 = ESym k \/ e2 = EStr k) /\ fragment_fo st e1 = true).
        { destruct e2; try (rewrite andb_false_r in F; discriminate); eauto. }
        destruct K as (k & Ek & F1). clear F.
        assert (Hi : exists lv, eval fo f c e1 = Ok lv /\ index fo c lv (VStr k) = Ok v).
        { destruct Ek as [-> | ->]; simpl in H.
          - destruct (eval fo f c e1) as [lv| | |] eqn:E1; simpl in H; try discriminate. eauto.
          - destruct (eval fo f c e1) as [lv| | |] eqn:E1; simpl in H; try discriminate.
            destruct f; simpl in H; try discriminate. eauto. }
        destruct Hi as (lv & E1 & Hi).
        destruct (IH c e1 lv st Hs Henv F1 E1) as (sl & Dl & Gl & Il).
        unfold index in Hi. rewrite Hs in Hi.
        destruct lv; try discriminate Hi.
        destruct (lookup fo k fs) as [w|] eqn:L; try discriminate Hi. inversion Hi; subst w. clear Hi.
        destruct (ground_inh_tuple sl fs Gl Il) as [[ss ->] | ->].
        * simpl in Il. rewrite forallb_forall in Il. specialize (Il (k, v) (lookup_in fo fs k v L)).
          simpl in Il. rewrite first_st_get in Il.
          destruct (st_get k ss) as [t|] eqn:G; [|discriminate].
          exists t. split; [|split; auto].
          -- intros df D. destruct df; [simpl in D; lia|]. simpl in D. apply le_S_n in D.
             assert (D1 : expr_depth e1 <= df) by lia.
             assert (D2 : exists df', df = S df') by (destruct df; [exfalso; destruct Ek as [-> | ->]; simpl in D; lia | eauto]).
             rewrite derive_f_dot. rewrite (Dl df D1).
             destruct D2 as [df' ->].
             destruct Ek as [-> | ->]; [rewrite dot_f_tuple_sym | rewrite dot_f_tuple_str]; rewrite G;
               destruct e1; try reflexivity; destruct (is_err t); reflexivity.
          -- simpl in Gl. rewrite forallb_forall in Gl.
             assert (In (k, t) ss).
             { clear -G. induction ss as [|[k' t'] ss IHs]; simpl in *; [discriminate|].
               destruct (bytes_eqb k k') eqn:E; [apply bytes_eqb_spec in E; inversion G; subst; now left|right; auto]. }
             apply (Gl (k, t) H0).
        * exists SAny. split; [|split; auto].
          intros df D. destruct df; [simpl in D; lia|]. simpl in D. apply le_S_n in D.
          assert (D1 : expr_depth e1 <= df) by lia.
          assert (D2 : exists df', df = S df') by (destruct df; [exfalso; destruct Ek as [-> | ->]; simpl in D; lia | eauto]).
          rewrite derive_f_dot. rewrite (Dl df D1).
          destruct D2 as [df' ->].
          destruct Ek as [-> | ->]; [rewrite dot_f_any_sym | rewrite dot_f_any_str]; destruct e1; reflexivity.
    - (* ENot *)
      simpl in H. destruct (eval fo f c e) as [w| | |] eqn:E1; simpl in H; try discriminate.
      destruct w; try discriminate. inversion H; subst.
      destruct (IH c e (VBool v0) st Hs Henv F E1) as (s1 & D1 & G1 & I1).
      exists SBool. repeat split; auto.
      intros df D. destruct df; [simpl in D; lia|]. simpl in D. apply le_S_n in D.
      simpl. rewrite D1 by lia. destruct (ground_inh_bool s1 v0 G1 I1) as [-> | ->]; reflexivity.
    - (* EGroup *)
      simpl in H. destruct (IH c e v st Hs Henv F H) as (s1 & D1 & G1 & I1).
      exists s1. repeat split; auto.
      intros df D. destruct df; [simpl in D; lia|]. simpl in D. apply le_S_n in D. simpl. now apply D1.
    - (* ERange *)
      simpl in H.
      assert (K : exists n a stp z, v = VList (range_from fo n a stp z)).
      { break_H H; inversion H; eauto. }
      destruct K as (n & a & stp & z & ->).
      exists (SList [SInt]). repeat split; auto.
      + intros df D. destruct df; [simpl in D; lia|]. reflexivity.
      + simpl. apply range_from_ints.
    - (* EFormatL *)
      simpl in H.
      destruct (negb (Nat.eqb (List.length (filter (fun p => match p with PHole => true | _ => false end) parts))
                              (List.length args))); try discriminate.
      assert (K : exists t, v = VStr t).
      { revert v H. generalize args as es. induction parts as [|p ps IHp]; intros es v H; simpl in H.
        - inversion H; eauto.
        - destruct p; simpl in H.
          + break_H H. inversion H; eauto.
          + destruct es; try discriminate. break_H H. inversion H; eauto.
          + discriminate. }
      destruct K as [t ->]. exists SStr. repeat split; auto.
      intros df D. destruct df; [simpl in D; lia|]. reflexivity.
    - (* EFormatS *)
      simpl in H. destruct (eval fo f c e) as [item| | |] eqn:E1; simpl in H; try discriminate.
      assert (K : exists t, v = VStr t).
      { revert v H. induction parts as [|p ps IHp]; intros v H; simpl in H.
        - inversion H; eauto.
        - destruct p; simpl in H.
          + break_H H. inversion H; eauto.
          + discriminate.
          + break_H H. inversion H; eauto. }
      destruct K as [t ->]. exists SStr. repeat split; auto.
      intros df D. destruct df; [simpl in D; lia|]. reflexivity.
    - (* ECast *)
      simpl in H. destruct (eval fo f c e) as [w| | |] eqn:E1; simpl in H; try discriminate.
      destruct c0.
      + assert (K : exists z, v = VInt z) by (unfold cast in H; break_H H; inversion H; eauto).
        destruct K as [z ->]. exists SInt. repeat split; auto.
        intros df D. destruct df; [simpl in D; lia|]. reflexivity.
      + assert (K : exists z, v = VFloat z) by (unfold cast in H; break_H H; inversion H; eauto).
        destruct K as [z ->]. exists SFloat. repeat split; auto.
        intros df D. destruct df; [simpl in D; lia|]. reflexivity.
      + assert (K : exists z, v = VStr z) by (unfold cast in H; break_H H; inversion H; eauto).
        destruct K as [z ->]. exists SStr. repeat split; auto.
        intros df D. destruct df; [simpl in D; lia|]. reflexivity.
      + assert (K : exists z, v = VBool z) by (unfold cast in H; break_H H; inversion H; eauto).
        destruct K as [z ->]. exists SBool. repeat split; auto.
        intros df D. destruct df; [simpl in D; lia|]. reflexivity.
    - (* ETrace *)
      simpl in H. destruct (IH c e v st Hs Henv F H) as (s1 & D1 & G1 & I1).
      exists s1. repeat split; auto.
      intros df D. destruct df; [simpl in D; lia|]. simpl in D. apply le_S_n in D. simpl. now apply D1.
  Qed.

  Local Transparent bytes_eqb.

  (* C07 for one expression of the fragment *)
  Theorem derive_sound_fo : forall fuel c e v st,
    strict fo c = true -> env_ok (sc fo c) st -> fragment_fo st e = true -> eval fo fuel c e = Ok v ->
    ~ is_type_err (derive st e) /\ inhabits fo v (derive st e) /\ snd (derive_st e st) = st.
  Proof.
    intros fuel c e v st Hs Henv F H.
    destruct (derive_sound_aux fuel c e v st Hs Henv F H) as (s & D & G & I).
    rewrite (derive_st_of_f e st s D). unfold derive_st. rewrite D by lia.
    repeat split; auto. unfold is_type_err. rewrite (ground_not_err s G). discriminate.
  Qed.

  Lemma env_ok_cons sc0 st x v s :
    env_ok sc0 st -> groundb s = true -> inh v s = true -> env_ok ((x, v) :: sc0) (st_set x s st).
  Proof.
    intros He G I y w L. simpl in *. destruct (bytes_eqb y x).
    - inversion L; subst. eauto.
    - apply He; auto.
  Qed.

  (* C07 for programs: when evaluation (no checker) runs to completion, the checker accepts the program *)
  Theorem check_sound_prog : forall fuel p c st sc' cs,
    strict fo c = true -> env_ok (sc fo c) st -> fragment_prog st p = true -> cstmts_of p = Some cs ->
    exec_list fo fuel c p = Ok sc' ->
    exists st', check_stmts cs st = Some st' /\ env_ok sc' st'.
  Proof.
    induction fuel as [|f IH]; intros p c st sc' cs Hs Henv F C H; [discriminate|].
    destruct p as [|s p]; simpl in H.
    - inversion H; subst. inversion C; subst. simpl. eauto.
    - destruct s as [x e|e|e|t e]; simpl in F, C; try discriminate.
      + apply andb_true_iff in F. destruct F as [Fe Fp].
        destruct (cstmts_of p) as [cs'|] eqn:Cp; try discriminate. inversion C; subst cs. clear C.
        destruct (eval fo f c e) as [v| | |] eqn:E; simpl in H; try discriminate.
        destruct (is_reserved x); simpl in H; try discriminate.
        destruct (lookup fo x (sc fo c)) eqn:L; simpl in H; try discriminate.
        destruct (derive_sound_aux f c e v st Hs Henv Fe E) as (s & D & G & I).
        assert (Henv' : env_ok (sc fo (with_scope fo c ((x, v) :: sc fo c))) (st_set x s st)).
        { simpl. apply env_ok_cons; auto. }
        rewrite <- (derive_st_of_f e st s D) in Henv' at 1.
        destruct (IH p (with_scope fo c ((x, v) :: sc fo c)) (st_set x (derive st e) st) sc' cs') as (st' & K1 & K2); auto.
        exists st'. split; auto.
        simpl. unfold derive_st. rewrite D by lia.
        rewrite (derive_st_of_f e st s D) in K1.
        rewrite (ground_not_err s G).
        destruct s; try discriminate G; exact K1.
      + apply andb_true_iff in F. destruct F as [Fe Fp].
        destruct (cstmts_of p) as [cs'|] eqn:Cp; try discriminate. inversion C; subst cs. clear C.
        destruct (eval fo f c e) as [v| | |] eqn:E; simpl in H; try discriminate.
        destruct (derive_sound_aux f c e v st Hs Henv Fe E) as (s & D & G & I).
        assert (Wc : with_scope fo c (sc fo c) = c) by (destruct c; reflexivity).
        rewrite Wc in H.
        destruct (IH p c st sc' cs') as (st' & K1 & K2); auto.
        exists st'. split; auto.
        simpl. unfold derive_st. rewrite D by lia. rewrite (ground_not_err s G). exact K1.
  Qed.
End C07.

(* ------------------------------------------------------------------------------------------ *)
(* 8. Not proved (statements only)                                                              *)
(* ------------------------------------------------------------------------------------------ *)
(* derive_sound_fo_calls_partial :
     the statement of derive_sound_fo with fragment_fo extended by
       - ECall (ESym f) args  where f is let-bound to an EFunc whose parameters are not let-bound names
         (otherwise Known class k_param_shadow) and whose body is in the fragment,
       - ECopy (ESym t) fs    where no overriding field value is NULL (otherwise Known class k_copy_null),
       - EBin DOT l (EInt i)  where the list shape of l has no Narrowed/Any element (otherwise k_nested_narrowed),
       - EBin AND/OR l r      where r is a comparison, a `not`, a boolean literal or again such an AND/OR
                              (otherwise k_and_rhs),
       - EBin IN l r,
       - ESelect v None arms  (with a default: Known class k_select_default),
       - EBin Add l r on lists whose derived element shape lists are equal (otherwise the k_list_concat classes).
     For these the invariant "derived shape is ground" (groundb) no longer holds: shapes are Narrowed
     (list elements, select) or Func, and narrowing against a Hole parameter updates the symbol table;
     the proof needs the purity and inhabitation lemmas for that larger class.

   narrow_compat_flat_partial :
     forall (v : value fo) s1 s2 st, flat s1 -> flat s2 -> inhabits fo v s1 -> inhabits fo v s2 ->
       ~ is_type_err (narrow st s1 s2) /\ inhabits fo v (narrow st s1 s2)
     where flat s := s is primitive, Hole, Narrowed(Any), or Narrowed of primitives.
     (narrow_compat_prim is the primitive/primitive case, narrow_compat_top_l the Any case.) *)
