(* MODEL of the language server's document store (src/lsp/mod.rs: ServerState, handle_notification; src/lsp/workspace.rs:
   update_from_content, update_from_disk).  Full-text sync: didOpen/didChange replace the text of a document and publish the
   analysis of the new text; didClose removes the document, falls back to the file on disk (or forgets it when there is none)
   and publishes an empty list.  The analysis itself is abstract: a function of the document, its text and the workspace view.
   Abstraction: the workspace index holds texts here; the implementation holds analysis results computed from those texts.
   Executable definitions only; proofs are in Docs_Lemmas.v. *)
From Coq Require Import List Bool.
From Ucg Require Import base.Bytes.
Import ListNotations.

Definition uri := bytes.
Definition text := bytes.

Inductive msg : Type :=
| Open (u : uri) (t : text)
| Change (u : uri) (t : text)
| Close (u : uri)
| Request (u : uri).            (* hover / definition / completion / tokens / symbols: no effect on the store *)

Definition store := list (uri * text).

Fixpoint lookup (s : store) (u : uri) : option text :=
  match s with
  | [] => None
  | (k, t) :: s' => if bytes_eqb k u then Some t else lookup s' u
  end.

Fixpoint remove (s : store) (u : uri) : store :=
  match s with
  | [] => []
  | (k, t) :: s' => if bytes_eqb k u then remove s' u else (k, t) :: remove s' u
  end.

Definition set (s : store) (u : uri) (t : text) : store := (u, t) :: remove s u.

Record state := mkState {
  docs : store;         (* ServerState.documents: the open documents *)
  ws : store            (* WorkspaceIndex.files: every known file, open documents first *)
}.

Section Server.
  Variable D : Type.                                   (* a list of diagnostics *)
  Variable analyze : store -> uri -> text -> D.        (* analysis of a text against a workspace view *)
  Variable none : D.                                   (* the empty list *)
  Variable disk : store.                               (* the files on disk, fixed during a session *)

  Definition init : state := mkState [] disk.

  (* one message: new state and what is published (document, diagnostics) *)
  Definition step (s : state) (m : msg) : state * option (uri * D) :=
    match m with
    | Open u t | Change u t =>
        let w := set (ws s) u t in
        (mkState (set (docs s) u t) w, Some (u, analyze w u t))
    | Close u =>
        let w := match lookup disk u with
                 | Some t => set (ws s) u t
                 | None => remove (ws s) u
                 end in
        (mkState (remove (docs s) u) w, Some (u, none))
    | Request _ => (s, None)
    end.

  Fixpoint run (s : state) (ms : list msg) : state * list (uri * D) :=
    match ms with
    | [] => (s, [])
    | m :: ms' =>
        let '(s1, p) := step s m in
        let '(s2, ps) := run s1 ms' in
        (s2, match p with Some x => x :: ps | None => ps end)
    end.

  (* the diagnostics published last for u *)
  Fixpoint last_published (ps : list (uri * D)) (u : uri) : option D :=
    match ps with
    | [] => None
    | (k, d) :: ps' =>
        match last_published ps' u with
        | Some d' => Some d'
        | None => if bytes_eqb k u then Some d else None
        end
    end.
End Server.

(* ---- specification vocabulary, independent of the step function ---- *)

(* what the messages say about u: Some (Some t) = open with text t, Some None = closed, None = never mentioned;
   the last message about u decides *)
Fixpoint current_text_after (ms : list msg) (u : uri) : option (option text) :=
  match ms with
  | [] => None
  | m :: ms' =>
      match current_text_after ms' u with
      | Some r => Some r
      | None =>
          match m with
          | Open k t | Change k t => if bytes_eqb k u then Some (Some t) else None
          | Close k => if bytes_eqb k u then Some None else None
          | Request _ => None
          end
      end
  end.

(* the current text of u according to the message history alone (None = not open) *)
Definition current_text (ms : list msg) (u : uri) : option text :=
  match current_text_after ms u with Some r => r | None => None end.

(* the workspace view a history must produce: the open documents over the disk *)
Definition overlay (disk : store) (ms : list msg) (u : uri) : option text :=
  match current_text ms u with
  | Some t => Some t
  | None => lookup disk u
  end.
