(* Proofs about the document store of the language server (lsp/Docs.v). *)
From Coq Require Import List Bool.
From Ucg Require Import base.Bytes base.Bytes_Lemmas lsp.Docs.
Import ListNotations.

Lemma eqb_neq x y : x <> y -> bytes_eqb x y = false.
Proof. intros H. destruct (bytes_eqb x y) eqn:E; [|reflexivity]. apply bytes_eqb_spec in E. contradiction. Qed.

Lemma eqb_sym x y : bytes_eqb x y = bytes_eqb y x.
Proof.
  destruct (bytes_eqb x y) eqn:E.
  - apply bytes_eqb_spec in E. subst. symmetry. apply bytes_eqb_refl.
  - destruct (bytes_eqb y x) eqn:E2; [|reflexivity]. apply bytes_eqb_spec in E2. subst. rewrite bytes_eqb_refl in E. discriminate.
Qed.

Lemma lookup_remove_same s u : lookup (remove s u) u = None.
Proof.
  induction s as [|[k t] s IH]; cbn; [reflexivity|].
  destruct (bytes_eqb k u) eqn:E; [exact IH|]. cbn. rewrite E. exact IH.
Qed.

Lemma lookup_remove_other s u v : u <> v -> lookup (remove s u) v = lookup s v.
Proof.
  intros H. induction s as [|[k t] s IH]; cbn; [reflexivity|].
  destruct (bytes_eqb k u) eqn:E.
  - apply bytes_eqb_spec in E. subst k. rewrite (eqb_neq _ _ H). exact IH.
  - cbn. destruct (bytes_eqb k v); [reflexivity|exact IH].
Qed.

Lemma lookup_set_same s u t : lookup (set s u t) u = Some t.
Proof. unfold set. cbn. now rewrite bytes_eqb_refl. Qed.

Lemma lookup_set_other s u t v : u <> v -> lookup (set s u t) v = lookup s v.
Proof. intros H. unfold set. cbn. rewrite (eqb_neq _ _ H). now apply lookup_remove_other. Qed.

(* two stores that answer every lookup alike *)
Definition same_view (a b : store) : Prop := forall u, lookup a u = lookup b u.

Lemma same_view_set a b u t : same_view a b -> same_view (set a u t) (set b u t).
Proof.
  intros H v. destruct (bytes_eqb u v) eqn:E.
  - apply bytes_eqb_spec in E. subst. now rewrite !lookup_set_same.
  - assert (u <> v) by (intros ->; rewrite bytes_eqb_refl in E; discriminate).
    rewrite !lookup_set_other by assumption. apply H.
Qed.

Lemma same_view_remove a b u : same_view a b -> same_view (remove a u) (remove b u).
Proof.
  intros H v. destruct (bytes_eqb u v) eqn:E.
  - apply bytes_eqb_spec in E. subst. now rewrite !lookup_remove_same.
  - assert (u <> v) by (intros ->; rewrite bytes_eqb_refl in E; discriminate).
    rewrite !lookup_remove_other by assumption. apply H.
Qed.

Section Server.
  Variable D : Type.
  Variable analyze : store -> uri -> text -> D.
  Variable none : D.
  Variable disk : store.
  (* the analysis sees the workspace only through lookups *)
  Hypothesis analyze_ext : forall w1 w2 u t, same_view w1 w2 -> analyze w1 u t = analyze w2 u t.

  Notation step := (step D analyze none disk).
  Notation run := (run D analyze none disk).

  (* the invariant: the workspace is the disk overlaid by the open documents *)
  Definition ws_ok (s : state) : Prop :=
    forall u, lookup (ws s) u = match lookup (docs s) u with Some t => Some t | None => lookup disk u end.

  Lemma init_ok : ws_ok (init disk).
  Proof. intros u. reflexivity. Qed.

  Lemma step_ok s m : ws_ok s -> ws_ok (fst (step s m)).
  Proof.
    intros H. destruct m as [u t|u t|u|u]; unfold Docs.step; cbn [fst docs ws]; try exact H.
    - intros v; cbn [docs ws]. destruct (bytes_eqb u v) eqn:E.
      + apply bytes_eqb_spec in E. subst. now rewrite !lookup_set_same.
      + assert (u <> v) by (intros ->; rewrite bytes_eqb_refl in E; discriminate).
        rewrite !lookup_set_other by assumption. apply H.
    - intros v; cbn [docs ws]. destruct (bytes_eqb u v) eqn:E.
      + apply bytes_eqb_spec in E. subst. now rewrite !lookup_set_same.
      + assert (u <> v) by (intros ->; rewrite bytes_eqb_refl in E; discriminate).
        rewrite !lookup_set_other by assumption. apply H.
    - intros v; cbn [docs ws]. destruct (bytes_eqb u v) eqn:E.
      + apply bytes_eqb_spec in E. subst v. rewrite lookup_remove_same.
        destruct (lookup disk u) as [t|] eqn:Ed.
        * now rewrite lookup_set_same.
        * now rewrite lookup_remove_same.
      + assert (Hn : u <> v) by (intros ->; rewrite bytes_eqb_refl in E; discriminate).
        rewrite (lookup_remove_other _ _ _ Hn).
        destruct (lookup disk u) as [t|].
        * rewrite (lookup_set_other _ _ _ _ Hn). apply H.
        * rewrite (lookup_remove_other _ _ _ Hn). apply H.
  Qed.

  Lemma run_ok ms : forall s, ws_ok s -> ws_ok (fst (run s ms)).
  Proof.
    induction ms as [|m ms IH]; intros s H; cbn; [exact H|].
    destruct (step s m) as [s1 p] eqn:E1. destruct (run s1 ms) as [s2 ps] eqn:E2. cbn.
    specialize (IH s1). rewrite E2 in IH. apply IH. pose proof (step_ok s m H) as H1. now rewrite E1 in H1.
  Qed.

  (* the open documents are what the history says, whatever happened before *)
  Lemma run_docs ms : forall s u,
    lookup (docs (fst (run s ms))) u =
    match current_text_after ms u with Some r => r | None => lookup (docs s) u end.
  Proof.
    induction ms as [|m ms IH]; intros s u; cbn [run current_text_after]; [reflexivity|].
    destruct (step s m) as [s1 p] eqn:E1. destruct (run s1 ms) as [s2 ps] eqn:E2. cbn [fst].
    specialize (IH s1 u). rewrite E2 in IH. cbn [fst] in IH. rewrite IH.
    destruct (current_text_after ms u) as [r|]; [reflexivity|].
    destruct m as [k t|k t|k|k]; cbn in E1; inversion E1; subst; cbn [docs].
    - destruct (bytes_eqb k u) eqn:E.
      + apply bytes_eqb_spec in E. subst. now rewrite lookup_set_same.
      + apply lookup_set_other. intros ->. rewrite bytes_eqb_refl in E. discriminate.
    - destruct (bytes_eqb k u) eqn:E.
      + apply bytes_eqb_spec in E. subst. now rewrite lookup_set_same.
      + apply lookup_set_other. intros ->. rewrite bytes_eqb_refl in E. discriminate.
    - destruct (bytes_eqb k u) eqn:E.
      + apply bytes_eqb_spec in E. subst. now rewrite lookup_remove_same.
      + apply lookup_remove_other. intros ->. rewrite bytes_eqb_refl in E. discriminate.
    - reflexivity.
  Qed.

  Lemma current_text_spec ms u :
    current_text ms u = match current_text_after ms u with Some r => r | None => None end.
  Proof. reflexivity. Qed.

  (* after any session the store is a function of the current texts only *)
  Lemma docs_are_current_lemma ms u : lookup (docs (fst (run (init disk) ms))) u = current_text ms u.
  Proof. rewrite run_docs, current_text_spec. cbn. destruct (current_text_after ms u); reflexivity. Qed.

  Lemma ws_is_overlay_lemma ms u : lookup (ws (fst (run (init disk) ms))) u = overlay disk ms u.
  Proof.
    pose proof (run_ok ms (init disk) init_ok u) as H. rewrite H. unfold overlay. now rewrite docs_are_current_lemma.
  Qed.

  (* two servers whose open documents agree publish the same diagnostics for the same notification *)
  Lemma same_docs_same_publish_lemma s1 s2 m :
    ws_ok s1 -> ws_ok s2 -> same_view (docs s1) (docs s2) -> snd (step s1 m) = snd (step s2 m).
  Proof.
    intros H1 H2 Hd. assert (Hw : same_view (ws s1) (ws s2)).
    { intros u. rewrite H1, H2, Hd. reflexivity. }
    destruct m as [u t|u t|u|u]; cbn; try reflexivity.
    - f_equal. f_equal. apply analyze_ext. now apply same_view_set.
    - f_equal. f_equal. apply analyze_ext. now apply same_view_set.
  Qed.

  (* ... in particular the session's server and a fresh server that was sent the current texts *)
  Lemma session_vs_fresh_lemma ms ms' m :
    (forall u, current_text ms u = current_text ms' u) ->
    snd (step (fst (run (init disk) ms)) m) = snd (step (fst (run (init disk) ms')) m).
  Proof.
    intros H. apply same_docs_same_publish_lemma; try (apply run_ok; apply init_ok).
    intros u. rewrite !docs_are_current_lemma. apply H.
  Qed.

  (* what a notification publishes is the analysis of the text it carries against the overlay it produces *)
  Lemma publish_is_analysis_lemma ms u t :
    snd (step (fst (run (init disk) ms)) (Change u t)) =
    Some (u, analyze (ws (fst (run (init disk) (ms ++ [Change u t])))) u t).
  Proof.
    cbn. f_equal. f_equal.
    assert (E : forall s, fst (run s (ms ++ [Change u t])) = fst (step (fst (run s ms)) (Change u t))).
    { clear. induction ms as [|m ms IH]; intros s; [reflexivity|].
      cbn [app run]. destruct (Docs.step D analyze none disk s m) as [s1 p]. specialize (IH s1).
      destruct (run s1 (ms ++ [Change u t])) as [s2 ps]. destruct (run s1 ms) as [s3 ps3]. cbn [fst] in *. exact IH. }
    rewrite E. reflexivity.
  Qed.

  (* a closed document publishes the empty list *)
  Lemma close_publishes_none_lemma s u : snd (step s (Close u)) = Some (u, none).
  Proof. reflexivity. Qed.

  (* requests do not touch the store *)
  Lemma request_no_effect_lemma s u : step s (Request u) = (s, None).
  Proof. reflexivity. Qed.
End Server.
