(* The abstract statement-level ops: what `translate_stmt` (src/build/opcode/translate.rs) pushes around the
   code of a statement's sub-expressions.  This small file exists only so that the GENERATED tables
   (gen/StmtOps.v, written by translate/t_stmt.py) can mention the type while the model (bind/Bind.v) can
   import the tables: Bind_Ops <- gen/StmtOps <- Bind.  Bind.v re-exports it. *)

Inductive sop :=
| SOSym                      (* ops.push(Op::Sym(<the statement's name>), ..) *)
| SOCode (k : nat)           (* Self::translate_expr of the k-th sub-expression: 0 = value (def.value / expr),
                                1 = the optional constraint of a let *)
| SOBind                     (* Op::Bind *)
| SOBindOver                 (* Op::BindOver *)
| SOCheckConstraint          (* Op::CheckConstraint *)
| SOBuildConstraintEmpty     (* Op::BuildConstraint(vec![]) *)
| SOPop                      (* Op::Pop *)
| SOHookAssert               (* Op::Runtime(Hook::Assert) *)
| SOHookOut                  (* Op::Runtime(Hook::Out) *)
| SOValTypeName.             (* Op::Val(Primitive::Str(tok.fragment)): the converter name of an out statement *)
