(* M-BIND: executable model of the STATEMENT layer of the compiled form.

   `translate_stmt` (src/build/opcode/translate.rs) turns every statement form into a fixed sequence of
   opcodes around the code of its sub-expressions; those sequences are not written down here, they are the
   GENERATED tables of gen/StmtOps.v (translate/t_stmt.py reads them off the token stream of the function).
   This file says what each of the statement-level ops does to the machine (vm.rs: run, op_bind, binding_push,
   op_check_constraint, op_build_constraint, pop; runtime.rs: assert, out; scope.rs) and runs the tables.

   What is reused from the existing VM model (vm/Ops.v, vm/Vm.v): the value type [wval], the symbol table
   [symtab] with [sym_get]/[sym_add]/[sym_bound] (scope.rs), [pop] (VM::pop), [binding_push] (VM::binding_push,
   with the reserved-word list [vm_is_reserved]) and the outcome monad.  [Bind_Lemmas.sop_agrees_with_vm] shows
   that Sym / Pop / Bind / BindOver here do to (stack, symbols) exactly what [exec_instr] of vm/Vm.v does.

   What is ABSTRACT (Section variables; they become premises of the closed theorems):
   * [sub_expression] and [eval_code]: the code of a sub-expression, run in the current symbol table, pushes
     exactly one value and leaves the symbol table alone, or fails with some outcome.  (That is what
     vm/Compile_Correct.v establishes for the code of the modelled expression fragment: function calls, format
     scopes and module bodies run in nested VMs; the only ops that write the CURRENT table are Bind/BindOver,
     and translate_expr emits those only inside code that a nested VM runs.)
   * [conforms c v]: op_check_constraint's verdict (ConstraintVal::check / contains_self_ref /
     conforms_to_exemplar) for constraint value [c] and value [v].
   * [k_empty]: the value Op::BuildConstraint(vec![]) pushes, K(ConstraintVal { arms: [] }).  The existing
     [wval] has no constraint constructor (vm/Ops.v predates constraints), so the value is a parameter.
   * [out_ok typ v]: does converter [typ] exist and convert [v] (Hook::Out). *)
From Ucg Require Export vm.Vm.
From Ucg Require Export bind.Bind_Ops.
From UcgGen Require Export StmtOps.

Section Bind.
  Variable fo : float_ops.
  Notation value := (wval fo).
  Notation symtab := (symtab fo).

  Variable sub_expression : Type.
  Variable eval_code : symtab -> sub_expression -> outcome value.
  Variable conforms : value -> value -> bool.
  Variable k_empty : value.
  Variable out_ok : bytes -> value -> bool.

  (* the part of struct VM the statement layer reads or writes: the value stack (top at the head), the
     symbols of the current scope, and the "one output per file" lock of the file being evaluated *)
  Record bstate := { bstk : list value; bsyms : symtab; bout : bool }.

  Definition with_bstk (st : bstate) (s : list value) : bstate :=
    {| bstk := s; bsyms := bsyms st; bout := bout st |}.
  Definition bpush (v : value) (st : bstate) : bstate := with_bstk st (v :: bstk st).

  (* what a statement supplies to its table: its name, its sub-expressions by index, its converter name *)
  Record stmt_instance := {
    si_name : option bytes;
    si_code : nat -> option sub_expression;
    si_typ : option bytes
  }.

  (* op_bind(strict): pop the value, pop the name (unreachable!() unless a symbol), binding_push *)
  Definition op_bind (strict_bind : bool) (st : bstate) : outcome bstate :=
    vdo (v, s1) <- pop fo (bstk st);
    vdo (name, s2) <- pop fo s1;
    match name with
    | WSym nm =>
      vdo t <- binding_push fo (bsyms st) nm v strict_bind;
      VOk {| bstk := s2; bsyms := t; bout := bout st |}
    | _ => VBug
    end.

  (* a table entry that refers to a part the statement does not have is a Bug of the MODEL (the Rust source
     would not compile); no generated table does, see Bind_Lemmas.tables_well_formed *)
  Definition run_sop (o : sop) (si : stmt_instance) (st : bstate) : outcome bstate :=
    match o with
    | SOSym => match si_name si with Some x => VOk (bpush (WSym x) st) | None => VBug end
    | SOCode k =>
      match si_code si k with
      | Some e => vdo v <- eval_code (bsyms st) e; VOk (bpush v st)
      | None => VBug
      end
    | SOBind => op_bind gen_bind_strict st            (* Op::Bind => self.op_bind(<generated>) *)
    | SOBindOver => op_bind gen_bindover_strict st    (* Op::BindOver => self.op_bind(<generated>) *)
    | SOCheckConstraint =>
      (* op_check_constraint: pop the constraint; PEEK at the value ("No value on stack" is an Err) *)
      vdo (c, s1) <- pop fo (bstk st);
      match s1 with
      | [] => VErr
      | v :: _ => if conforms c v then VOk (with_bstk st s1) else VErr
      end
    | SOBuildConstraintEmpty => VOk (bpush k_empty st)
    | SOPop => vdo (_, s1) <- pop fo (bstk st); VOk (with_bstk st s1)
    | SOHookAssert =>
      (* Builtins::assert: pops one value, records the verdict in the environment, never an Err;
         panic!("BUG: stack underflow in assert") on an empty stack *)
      match bstk st with
      | _ :: s1 => VOk (with_bstk st s1)
      | [] => VBug
      end
    | SOHookOut =>
      (* Builtins::out: the lock is tested (and taken) first, then the value and the converter name are popped *)
      if bout st then VErr
      else match bstk st with
           | v :: ty :: s2 =>
             match ty with
             | WStr t => if out_ok t v then VOk {| bstk := s2; bsyms := bsyms st; bout := true |} else VErr
             | _ => VErr                                (* "Not a conversion type" *)
             end
           | _ => VBug                                  (* panic!("BUG: all branches should return in out") *)
           end
    | SOValTypeName => match si_typ si with Some t => VOk (bpush (WStr t) st) | None => VBug end
    end.

  Fixpoint run_sops (l : list sop) (si : stmt_instance) (st : bstate) : outcome bstate :=
    match l with
    | [] => VOk st
    | o :: l' => vdo st' <- run_sop o si st; run_sops l' si st'
    end.

  (* ---------------- statements ---------------- *)
  Inductive bstmt :=
  | BLet (x : bytes) (e : sub_expression)                  (* let x = e; *)
  | BLetC (x : bytes) (e c : sub_expression)               (* let x :: c = e; *)
  | BConstraint (x : bytes) (c : sub_expression)           (* constraint x = c; *)
  | BExpr (e : sub_expression)                             (* e; *)
  | BAssert (e : sub_expression)                           (* assert e; *)
  | BOut (typ : bytes) (e : sub_expression).               (* out typ e; *)

  Definition code1 (e : sub_expression) : nat -> option sub_expression :=
    fun k => match k with 0 => Some e | _ => None end.
  Definition code2 (e c : sub_expression) : nat -> option sub_expression :=
    fun k => match k with 0 => Some e | 1 => Some c | _ => None end.

  Definition instance_of (s : bstmt) : stmt_instance :=
    match s with
    | BLet x e => {| si_name := Some x; si_code := code1 e; si_typ := None |}
    | BLetC x e c => {| si_name := Some x; si_code := code2 e c; si_typ := None |}
    | BConstraint x c => {| si_name := Some x; si_code := code1 c; si_typ := None |}
    | BExpr e | BAssert e => {| si_name := None; si_code := code1 e; si_typ := None |}
    | BOut typ e => {| si_name := None; si_code := code1 e; si_typ := Some typ |}
    end.

  Definition stmt_name (s : bstmt) : option bytes := si_name (instance_of s).

  (* the GENERATED table of each form *)
  Definition table_of (s : bstmt) : list sop :=
    match s with
    | BLet _ _ => gen_let_ops
    | BLetC _ _ _ => gen_let_constrained_ops
    | BConstraint _ _ => gen_constraint_ops
    | BExpr _ => gen_expr_ops
    | BAssert _ => gen_assert_ops
    | BOut _ _ => gen_out_ops
    end.

  (* statements and programs over an arbitrary table assignment (Bind_Mutants.v runs a changed one) *)
  Definition exec_stmt_with (tbl : bstmt -> list sop) (s : bstmt) (st : bstate) : outcome bstate :=
    run_sops (tbl s) (instance_of s) st.
  Fixpoint exec_prog_with (tbl : bstmt -> list sop) (p : list bstmt) (st : bstate) : outcome bstate :=
    match p with
    | [] => VOk st
    | s :: p' => vdo st' <- exec_stmt_with tbl s st; exec_prog_with tbl p' st'
    end.

  Definition exec_stmt : bstmt -> bstate -> outcome bstate := exec_stmt_with table_of.
  Definition exec_prog : list bstmt -> bstate -> outcome bstate := exec_prog_with table_of.

  Definition binit : bstate := {| bstk := []; bsyms := []; bout := false |}.

  (* For the REPL (Builder::repl keeps its VM after a failed statement): the state in which a table stops,
     which is the final state on success and the state BEFORE the failing op otherwise. *)
  Fixpoint run_sops_upto (l : list sop) (si : stmt_instance) (st : bstate) : bstate :=
    match l with
    | [] => st
    | o :: l' => match run_sop o si st with VOk st' => run_sops_upto l' si st' | _ => st end
    end.
End Bind.

Arguments bstk {fo}. Arguments bsyms {fo}. Arguments bout {fo}. Arguments Build_bstate {fo}.
Arguments si_name {sub_expression}. Arguments si_code {sub_expression}. Arguments si_typ {sub_expression}.
Arguments Build_stmt_instance {sub_expression}.
Arguments BLet {sub_expression}. Arguments BLetC {sub_expression}. Arguments BConstraint {sub_expression}.
Arguments BExpr {sub_expression}. Arguments BAssert {sub_expression}. Arguments BOut {sub_expression}.
Arguments instance_of {sub_expression}. Arguments stmt_name {sub_expression}. Arguments table_of {sub_expression}.
Arguments code1 {sub_expression}. Arguments code2 {sub_expression}.
