(* REFUTATION sanity checks: the theorems of Bind_Lemmas.v are theorems about the GENERATED tables.
   Each claim below is the statement of one of them with the table assignment made a parameter; it holds for
   the generated assignment [table_of] and is FALSE (witness by computation) for an assignment in which one
   table has been changed the way a change of translate.rs would change it. *)
From Ucg Require Import bind.Bind_Lemmas.
Import BindToy.

(* a table assignment: for every type of sub-expressions, statement form -> table *)
Definition assignment := forall E : Type, bstmt E -> list sop.
Definition generated : assignment := fun E => @table_of E.

(* rebind_is_error_every_form *)
Definition rebind_claim (tbl : assignment) : Prop :=
  forall fo E eval_code conforms k_empty out_ok (st : bstate fo) x v0,
    sym_get x (bsyms st) = Some v0 ->
    (forall e st', exec_stmt_with fo E eval_code conforms k_empty out_ok (tbl E) (BLet x e) st <> VOk st') /\
    (forall e c st', exec_stmt_with fo E eval_code conforms k_empty out_ok (tbl E) (BLetC x e c) st <> VOk st') /\
    (forall c st', exec_stmt_with fo E eval_code conforms k_empty out_ok (tbl E) (BConstraint x c) st <> VOk st').

(* stack_balanced *)
Definition balance_claim (tbl : assignment) : Prop :=
  forall fo E eval_code conforms k_empty out_ok (s : bstmt E) (st st' : bstate fo),
    exec_stmt_with fo E eval_code conforms k_empty out_ok (tbl E) s st = VOk st' -> bstk st' = bstk st.

Theorem generated_rebind_claim : rebind_claim generated.
Proof. intros fo E ev cf k ok st x v0 Hb. exact (rebind_is_error_every_form fo E ev cf k ok st x v0 Hb). Qed.

Theorem generated_balance_claim : balance_claim generated.
Proof. intros fo E ev cf k ok s st st' H. exact (stack_balanced fo E ev cf k ok s st st' H). Qed.

Local Open Scope string_scope.
Definition st_x_bound : bstate toy_floats := {| bstk := []; bsyms := [(b "x", WInt 1)]; bout := false |}.

(* Mutant 1 (the one the task names): the constraint statement pre-binds with BindOver instead of Bind *)
Definition m1_constraint_ops : list sop := [SOSym; SOBuildConstraintEmpty; SOBindOver; SOSym; SOCode 0; SOBindOver].
Definition mutant1 : assignment :=
  fun E s => match s with BConstraint _ _ => m1_constraint_ops | _ => table_of s end.

(* `let x = 1; constraint x = 5;` goes through and x changes its value *)
Example mutant1_rebinds :
  exec_stmt_with toy_floats texp toy_eval toy_conforms toy_k_empty toy_out_ok (mutant1 texp)
                 (BConstraint (b "x") (TLit (WInt 5))) st_x_bound
  = VOk {| bstk := []; bsyms := [(b "x", WInt 5)]; bout := false |}.
Proof. vm_compute. reflexivity. Qed.

Theorem mutant1_refutes_rebind_claim : ~ rebind_claim mutant1.
Proof.
  intros H.
  destruct (H toy_floats texp toy_eval toy_conforms toy_k_empty toy_out_ok st_x_bound (b "x") (WInt 1) eq_refl)
    as (_ & _ & Hc).
  exact (Hc _ _ mutant1_rebinds).
Qed.

(* Mutant 2: the Let arm ends in BindOver *)
Definition mutant2 : assignment :=
  fun E s => match s with BLet _ _ => [SOSym; SOCode 0; SOBindOver] | _ => table_of s end.

Example mutant2_rebinds :
  exec_stmt_with toy_floats texp toy_eval toy_conforms toy_k_empty toy_out_ok (mutant2 texp)
                 (BLet (b "x") (TLit (WInt 5))) st_x_bound
  = VOk {| bstk := []; bsyms := [(b "x", WInt 5)]; bout := false |}.
Proof. vm_compute. reflexivity. Qed.

Theorem mutant2_refutes_rebind_claim : ~ rebind_claim mutant2.
Proof.
  intros H.
  destruct (H toy_floats texp toy_eval toy_conforms toy_k_empty toy_out_ok st_x_bound (b "x") (WInt 1) eq_refl)
    as (Hl & _ & _).
  exact (Hl _ _ mutant2_rebinds).
Qed.

(* Mutant 3: the constrained Let drops its CheckConstraint.  The constraint is then taken for the value and the
   value for the NAME: op_bind's unreachable!() -- a panic, not an error message *)
Definition no_bug_claim (tbl : assignment) : Prop :=
  forall fo E eval_code conforms k_empty out_ok (s : bstmt E) (st : bstate fo),
    (forall t e, eval_code t e <> VBug) ->
    exec_stmt_with fo E eval_code conforms k_empty out_ok (tbl E) s st <> VBug.

Theorem generated_no_bug_claim : no_bug_claim generated.
Proof. intros fo E ev cf k ok s st H. exact (stmt_no_bug fo E ev cf k ok s st H). Qed.

Definition mutant3 : assignment :=
  fun E s => match s with BLetC _ _ _ => [SOSym; SOCode 0; SOCode 1; SOBind] | _ => table_of s end.

(* sub-expressions that are their own value *)
Definition lit_eval (t : symtab toy_floats) (e : tval) : outcome tval := VOk e.

Theorem mutant3_refutes_no_bug_claim : ~ no_bug_claim mutant3.
Proof.
  intros H.
  apply (H toy_floats tval lit_eval toy_conforms toy_k_empty toy_out_ok
           (BLetC (b "y") (WInt 7) (WList [WInt 7])) (binit toy_floats)).
  - intros t e. discriminate.
  - vm_compute. reflexivity.
Qed.

(* Mutant 5: the expression statement loses its Pop: the value stays on the stack *)
Definition mutant5 : assignment :=
  fun E s => match s with BExpr _ => [SOCode 0] | _ => table_of s end.

Example mutant5_unbalanced :
  exec_stmt_with toy_floats texp toy_eval toy_conforms toy_k_empty toy_out_ok (mutant5 texp)
                 (BExpr (TLit (WInt 7))) (binit toy_floats)
  = VOk {| bstk := [WInt 7]; bsyms := []; bout := false |}.
Proof. vm_compute. reflexivity. Qed.

Theorem mutant5_refutes_balance_claim : ~ balance_claim mutant5.
Proof.
  intros H.
  pose proof (H toy_floats texp toy_eval toy_conforms toy_k_empty toy_out_ok _ _ _ mutant5_unbalanced) as Hs.
  discriminate Hs.
Qed.

(* Mutant 4: the pre-binding of the constraint statement is dropped altogether (no Sym / BuildConstraint /
   Bind): a rebinding `constraint x = ..` is then accepted as well *)
Definition mutant4 : assignment :=
  fun E s => match s with BConstraint _ _ => [SOSym; SOCode 0; SOBindOver] | _ => table_of s end.

Theorem mutant4_refutes_rebind_claim : ~ rebind_claim mutant4.
Proof.
  intros H.
  destruct (H toy_floats texp toy_eval toy_conforms toy_k_empty toy_out_ok st_x_bound (b "x") (WInt 1) eq_refl)
    as (_ & _ & Hc).
  apply (Hc (TLit (WInt 5)) {| bstk := []; bsyms := [(b "x", WInt 5)]; bout := false |}).
  vm_compute. reflexivity.
Qed.
