(* Theorems about the statement layer (bind/Bind.v) run on the GENERATED tables (gen/StmtOps.v).

   Everything below that talks about [exec_stmt] / [exec_prog] goes through the six characterisation lemmas
   [exec_*_eq], which are proved by unfolding the generated table of the form; a change of an opcode, of the
   order, or of the strictness flags in the source changes the tables and breaks those lemmas (and
   Bind_Mutants.v shows the headline theorem is then really false, not just unproved). *)
From Ucg Require Import base.Bytes_Lemmas.
From Ucg Require Export bind.Bind.

(* ---------------- the symbol table (scope.rs as modelled in vm/Ops.v) ---------------- *)
Section Symtab.
  Variable fo : float_ops.

  Lemma ltb_irrefl x : bytes_ltb x x = false.
  Proof. induction x as [|c x IH]; cbn [bytes_ltb]; [reflexivity|]. rewrite N.ltb_irrefl. exact IH. Qed.

  Lemma sym_get_add x k (v : wval fo) t :
    sym_get x (sym_add k v t) = if bytes_eqb x k then Some v else sym_get x t.
  Proof.
    induction t as [|[k' w] t IH]; cbn [sym_add sym_get].
    - destruct (bytes_eqb x k); reflexivity.
    - destruct (bytes_ltb k k') eqn:E1.
      + cbn [sym_get]. destruct (bytes_eqb x k); reflexivity.
      + destruct (bytes_eqb k k') eqn:E2.
        * apply bytes_eqb_spec in E2; subst k'. cbn [sym_get]. destruct (bytes_eqb x k); reflexivity.
        * cbn [sym_get]. rewrite IH.
          destruct (bytes_eqb x k') eqn:E3; [|reflexivity].
          destruct (bytes_eqb x k) eqn:E4; [|reflexivity].
          apply bytes_eqb_spec in E3, E4. subst k k'. rewrite bytes_eqb_refl in E2. discriminate.
  Qed.

  (* inserting twice under the same name leaves no trace of the first value *)
  Lemma sym_add_add x (v1 v2 : wval fo) t : sym_add x v2 (sym_add x v1 t) = sym_add x v2 t.
  Proof.
    induction t as [|[k' w] t IH]; cbn [sym_add].
    - rewrite ltb_irrefl, bytes_eqb_refl. reflexivity.
    - destruct (bytes_ltb x k') eqn:E1.
      + cbn [sym_add]. rewrite ltb_irrefl, bytes_eqb_refl. reflexivity.
      + destruct (bytes_eqb x k') eqn:E2.
        * cbn [sym_add]. rewrite ltb_irrefl, bytes_eqb_refl. reflexivity.
        * cbn [sym_add]. rewrite E1, E2, IH. reflexivity.
  Qed.

  Lemma sym_bound_get x (t : symtab fo) : sym_bound x t = false <-> sym_get x t = None.
  Proof. unfold sym_bound. destruct (sym_get x t); split; intros H; try reflexivity; discriminate. Qed.

  (* VM::binding_push *)
  Lemma binding_push_inv t x (v : wval fo) strict_bind t' :
    binding_push fo t x v strict_bind = VOk t' ->
    vm_is_reserved x = false /\ (strict_bind = true -> sym_get x t = None) /\ t' = sym_add x v t.
  Proof.
    unfold binding_push. destruct (vm_is_reserved x); [discriminate|].
    destruct (sym_bound x t) eqn:Eb; destruct strict_bind; cbn [andb]; try discriminate;
      intros H; inversion H; subst t'; (split; [reflexivity|split; [|reflexivity]]); intros Hs; try discriminate.
    apply sym_bound_get. exact Eb.
  Qed.

  Lemma binding_push_ok t x (v : wval fo) strict_bind :
    vm_is_reserved x = false -> (strict_bind = true -> sym_get x t = None) ->
    binding_push fo t x v strict_bind = VOk (sym_add x v t).
  Proof.
    intros Hr Hb. unfold binding_push. rewrite Hr. destruct strict_bind.
    - apply sym_bound_get in Hb; [|reflexivity]. rewrite Hb. reflexivity.
    - rewrite andb_false_r. reflexivity.
  Qed.

  Lemma binding_push_reserved t x (v : wval fo) strict_bind :
    vm_is_reserved x = true -> binding_push fo t x v strict_bind = VErr.
  Proof. intros Hr. unfold binding_push. rewrite Hr. reflexivity. Qed.

  Lemma binding_push_bound t x (v v0 : wval fo) :
    sym_get x t = Some v0 -> binding_push fo t x v true = VErr.
  Proof.
    intros Hb. unfold binding_push, sym_bound. rewrite Hb. destruct (vm_is_reserved x); reflexivity.
  Qed.

  (* binding_push either succeeds or is a build error: never a panic *)
  Lemma binding_push_cases t x (v : wval fo) strict_bind :
    binding_push fo t x v strict_bind = VErr \/ exists t', binding_push fo t x v strict_bind = VOk t'.
  Proof.
    unfold binding_push. destruct (vm_is_reserved x); [left; reflexivity|].
    destruct (sym_bound x t && strict_bind); [left; reflexivity|right; eauto].
  Qed.
End Symtab.

Lemma vbind_ok {A B} (r : outcome A) (k : A -> outcome B) (y : B) :
  vbind r k = VOk y -> exists a, r = VOk a /\ k a = VOk y.
Proof. destruct r as [a| | | |]; cbn [vbind]; try discriminate. intros H. exists a. split; [reflexivity|exact H]. Qed.

Section BindLemmas.
  Variable fo : float_ops.
  Variable sub_expression : Type.
  Variable eval_code : symtab fo -> sub_expression -> outcome (wval fo).
  Variable conforms : wval fo -> wval fo -> bool.
  Variable k_empty : wval fo.
  Variable out_ok : bytes -> wval fo -> bool.

  Notation exec_stmt := (Bind.exec_stmt fo sub_expression eval_code conforms k_empty out_ok).
  Notation exec_prog := (Bind.exec_prog fo sub_expression eval_code conforms k_empty out_ok).
  Notation run_sops := (Bind.run_sops fo sub_expression eval_code conforms k_empty out_ok).
  Notation run_sop := (Bind.run_sop fo sub_expression eval_code conforms k_empty out_ok).
  Notation run_sops_upto := (Bind.run_sops_upto fo sub_expression eval_code conforms k_empty out_ok).
  Notation bstate := (bstate fo).
  Notation bstmt := (bstmt sub_expression).

  (* ---------------- the tables only mention parts their statement form has ---------------- *)
  Definition sop_ok (si : stmt_instance sub_expression) (o : sop) : Prop :=
    match o with
    | SOSym => si_name si <> None
    | SOCode k => si_code si k <> None
    | SOValTypeName => si_typ si <> None
    | _ => True
    end.

  Lemma tables_well_formed (s : bstmt) : Forall (sop_ok (instance_of s)) (table_of s).
  Proof. destruct s; repeat constructor; cbn; discriminate. Qed.

  (* ---------------- what each form does, read off its generated table ---------------- *)
  Ltac run_table :=
    unfold Bind.exec_stmt, exec_stmt_with;
    cbn [table_of instance_of gen_let_ops gen_let_constrained_ops gen_constraint_ops gen_expr_ops gen_assert_ops
         gen_out_ops Bind.run_sops Bind.run_sop si_name si_code si_typ code1 code2 bpush with_bstk bstk bsyms bout
         op_bind pop vbind];
    unfold gen_bind_strict, gen_bindover_strict.

  Lemma exec_let_eq x e (st : bstate) :
    exec_stmt (BLet x e) st =
    (vdo v <- eval_code (bsyms st) e;
     vdo t <- binding_push fo (bsyms st) x v true;
     VOk {| bstk := bstk st; bsyms := t; bout := bout st |}).
  Proof.
    run_table. destruct (eval_code (bsyms st) e) as [v| | | |]; run_table; try reflexivity.
    destruct (binding_push fo (bsyms st) x v true); reflexivity.
  Qed.

  Lemma exec_letc_eq x e c (st : bstate) :
    exec_stmt (BLetC x e c) st =
    (vdo v <- eval_code (bsyms st) e;
     vdo cv <- eval_code (bsyms st) c;
     if conforms cv v
     then vdo t <- binding_push fo (bsyms st) x v true;
          VOk {| bstk := bstk st; bsyms := t; bout := bout st |}
     else VErr).
  Proof.
    run_table. destruct (eval_code (bsyms st) e) as [v| | | |]; run_table; try reflexivity.
    destruct (eval_code (bsyms st) c) as [cv| | | |]; run_table; try reflexivity.
    destruct (conforms cv v); run_table; try reflexivity.
    destruct (binding_push fo (bsyms st) x v true); reflexivity.
  Qed.

  Lemma exec_constraint_eq x c (st : bstate) :
    exec_stmt (BConstraint x c) st =
    (vdo t1 <- binding_push fo (bsyms st) x k_empty true;
     vdo v <- eval_code t1 c;
     vdo t2 <- binding_push fo t1 x v false;
     VOk {| bstk := bstk st; bsyms := t2; bout := bout st |}).
  Proof.
    run_table. destruct (binding_push fo (bsyms st) x k_empty true) as [t1| | | |]; run_table; try reflexivity.
    destruct (eval_code t1 c) as [v| | | |]; run_table; try reflexivity.
    destruct (binding_push fo t1 x v false); reflexivity.
  Qed.

  Lemma exec_expr_eq e (st : bstate) :
    exec_stmt (BExpr e) st = (vdo _ <- eval_code (bsyms st) e; VOk st).
  Proof.
    run_table. destruct (eval_code (bsyms st) e) as [v| | | |]; run_table; try reflexivity.
    destruct st; reflexivity.
  Qed.

  Lemma exec_assert_eq e (st : bstate) :
    exec_stmt (BAssert e) st = (vdo _ <- eval_code (bsyms st) e; VOk st).
  Proof.
    run_table. destruct (eval_code (bsyms st) e) as [v| | | |]; run_table; try reflexivity.
    destruct st; reflexivity.
  Qed.

  Lemma exec_out_eq typ e (st : bstate) :
    exec_stmt (BOut typ e) st =
    (vdo v <- eval_code (bsyms st) e;
     if bout st then VErr
     else if out_ok typ v then VOk {| bstk := bstk st; bsyms := bsyms st; bout := true |} else VErr).
  Proof.
    run_table. destruct (eval_code (bsyms st) e) as [v| | | |]; run_table; try reflexivity.
    destruct (bout st); [reflexivity|]. destruct (out_ok typ v); reflexivity.
  Qed.

  (* ---------------- one statement ---------------- *)
  (* The whole effect of a successful statement: the stack is as before; a form without a name leaves the
     table alone; a form with name x needs x unreserved and UNBOUND, and the new table is the old one with
     exactly one entry added under x. *)
  Lemma stmt_effect (s : bstmt) (st st' : bstate) :
    exec_stmt s st = VOk st' ->
    bstk st' = bstk st /\
    match stmt_name s with
    | None => bsyms st' = bsyms st
    | Some x => vm_is_reserved x = false /\ sym_get x (bsyms st) = None /\
                exists v, bsyms st' = sym_add x v (bsyms st)
    end.
  Proof.
    destruct s as [x e|x e c|x c|e|e|typ e]; intros H;
      cbn [stmt_name instance_of si_name].
    - rewrite exec_let_eq in H.
      apply vbind_ok in H as (v & Hv & H). apply vbind_ok in H as (t & Ht & H).
      inversion H; subst st'; clear H. cbn [bstk bsyms].
      apply binding_push_inv in Ht as (Hr & Hb & ->). repeat split; eauto.
    - rewrite exec_letc_eq in H.
      apply vbind_ok in H as (v & Hv & H). apply vbind_ok in H as (cv & Hc & H).
      destruct (conforms cv v); [|discriminate].
      apply vbind_ok in H as (t & Ht & H).
      inversion H; subst st'; clear H. cbn [bstk bsyms].
      apply binding_push_inv in Ht as (Hr & Hb & ->). repeat split; eauto.
    - rewrite exec_constraint_eq in H.
      apply vbind_ok in H as (t1 & Ht1 & H). apply vbind_ok in H as (v & Hv & H).
      apply vbind_ok in H as (t2 & Ht2 & H).
      inversion H; subst st'; clear H. cbn [bstk bsyms].
      apply binding_push_inv in Ht1 as (Hr & Hb & ->). apply binding_push_inv in Ht2 as (_ & _ & ->).
      rewrite sym_add_add. repeat split; eauto.
    - rewrite exec_expr_eq in H. apply vbind_ok in H as (v & Hv & H). inversion H; subst st'. split; reflexivity.
    - rewrite exec_assert_eq in H. apply vbind_ok in H as (v & Hv & H). inversion H; subst st'. split; reflexivity.
    - rewrite exec_out_eq in H. apply vbind_ok in H as (v & Hv & H).
      destruct (bout st); [discriminate|]. destruct (out_ok typ v); [|discriminate].
      inversion H; subst st'. split; reflexivity.
  Qed.

  (* stack_balanced: every statement form leaves the value stack as it found it *)
  Theorem stack_balanced (s : bstmt) (st st' : bstate) :
    exec_stmt s st = VOk st' -> bstk st' = bstk st.
  Proof. intros H. apply stmt_effect in H. tauto. Qed.

  (* stmt_binds_only_its_name, strongest form: a name other than the statement's own has the same lookup
     (bound to the same value, or unbound) before and after *)
  Theorem stmt_binds_only_its_name (s : bstmt) (st st' : bstate) :
    exec_stmt s st = VOk st' ->
    forall y, stmt_name s <> Some y -> sym_get y (bsyms st') = sym_get y (bsyms st).
  Proof.
    intros H y Hy. apply stmt_effect in H as (_ & H). destruct (stmt_name s) as [x|].
    - destruct H as (_ & _ & v & ->). rewrite sym_get_add.
      destruct (bytes_eqb y x) eqn:E; [|reflexivity].
      apply bytes_eqb_spec in E; subst y. exfalso; apply Hy; reflexivity.
    - rewrite H. reflexivity.
  Qed.

  (* ... and as stated in the task: the names bound afterwards are those bound before plus at most the
     statement's own name *)
  Corollary stmt_new_binding_is_its_name (s : bstmt) (st st' : bstate) :
    exec_stmt s st = VOk st' ->
    forall y w, sym_get y (bsyms st') = Some w ->
                sym_get y (bsyms st) = Some w \/ (stmt_name s = Some y /\ sym_get y (bsyms st) = None).
  Proof.
    intros H y w Hy. pose proof (stmt_effect _ _ _ H) as (_ & He).
    destruct (stmt_name s) as [x|] eqn:En.
    - destruct (bytes_eqb y x) eqn:E.
      + apply bytes_eqb_spec in E; subst y. right. split; [reflexivity|tauto].
      + left. rewrite <- Hy. symmetry. apply (stmt_binds_only_its_name _ _ _ H). rewrite En.
        intros Heq; inversion Heq; subst. rewrite bytes_eqb_refl in E. discriminate.
    - left. rewrite <- He. exact Hy.
  Qed.

  (* stmt_keeps_bindings: every name bound before is bound to the same value after *)
  Theorem stmt_keeps_bindings (s : bstmt) (st st' : bstate) :
    exec_stmt s st = VOk st' ->
    forall x v, sym_get x (bsyms st) = Some v -> sym_get x (bsyms st') = Some v.
  Proof.
    intros H x v Hx. rewrite <- Hx. apply (stmt_binds_only_its_name _ _ _ H).
    intros Hn. apply stmt_effect in H as (_ & H). rewrite Hn in H. destruct H as (_ & Hb & _). congruence.
  Qed.

  (* a statement with a name does bind it, and the name was free *)
  Theorem stmt_binds_its_name (s : bstmt) (st st' : bstate) x :
    exec_stmt s st = VOk st' -> stmt_name s = Some x ->
    sym_get x (bsyms st) = None /\ exists v, sym_get x (bsyms st') = Some v.
  Proof.
    intros H Hn. apply stmt_effect in H as (_ & H). rewrite Hn in H. destruct H as (_ & Hb & v & ->).
    split; [exact Hb|]. exists v. rewrite sym_get_add, bytes_eqb_refl. reflexivity.
  Qed.

  (* rebinding, whichever form does it, is never a success ... *)
  Theorem rebind_is_error (s : bstmt) (st : bstate) x v0 :
    stmt_name s = Some x -> sym_get x (bsyms st) = Some v0 -> forall st', exec_stmt s st <> VOk st'.
  Proof.
    intros Hn Hb st' H. apply stmt_effect in H as (_ & H). rewrite Hn in H. destruct H as (_ & Hb' & _). congruence.
  Qed.

  (* rebind_is_error_every_form.  [eval_code] (and [conforms]) are Section variables: after the Section the
     statement is quantified over every behaviour of the sub-expressions. *)
  Theorem rebind_is_error_every_form (st : bstate) x v0 :
    sym_get x (bsyms st) = Some v0 ->
    (forall e st', exec_stmt (BLet x e) st <> VOk st') /\
    (forall e c st', exec_stmt (BLetC x e c) st <> VOk st') /\
    (forall c st', exec_stmt (BConstraint x c) st <> VOk st').
  Proof.
    intros Hb. repeat split; intros; eapply rebind_is_error; eauto; reflexivity.
  Qed.

  (* ... and it is the build error of binding_push ("Binding x already exists"), not a panic, as soon as the
     sub-expressions themselves evaluate; the constraint statement does not even get to evaluate anything *)
  Theorem rebind_reports_build_error (st : bstate) x v0 :
    sym_get x (bsyms st) = Some v0 ->
    (forall e v, eval_code (bsyms st) e = VOk v -> exec_stmt (BLet x e) st = VErr) /\
    (forall e c v cv, eval_code (bsyms st) e = VOk v -> eval_code (bsyms st) c = VOk cv ->
                      exec_stmt (BLetC x e c) st = VErr) /\
    (forall c, exec_stmt (BConstraint x c) st = VErr).
  Proof.
    intros Hb. repeat split.
    - intros e v Hv. rewrite exec_let_eq, Hv. cbn [vbind]. rewrite (binding_push_bound fo _ _ _ _ Hb). reflexivity.
    - intros e c v cv Hv Hc. rewrite exec_letc_eq, Hv. cbn [vbind]. rewrite Hc. cbn [vbind].
      destruct (conforms cv v); [|reflexivity]. rewrite (binding_push_bound fo _ _ _ _ Hb). reflexivity.
    - intros c. rewrite exec_constraint_eq. rewrite (binding_push_bound fo _ _ _ _ Hb). reflexivity.
  Qed.

  (* reserved words cannot be bound by any form *)
  Theorem reserved_is_error (s : bstmt) (st : bstate) x :
    stmt_name s = Some x -> vm_is_reserved x = true -> forall st', exec_stmt s st <> VOk st'.
  Proof.
    intros Hn Hr st' H. apply stmt_effect in H as (_ & H). rewrite Hn in H. destruct H as (Hr' & _). congruence.
  Qed.

  Theorem reserved_is_error_every_form (st : bstate) x :
    vm_is_reserved x = true ->
    (forall e st', exec_stmt (BLet x e) st <> VOk st') /\
    (forall e c st', exec_stmt (BLetC x e c) st <> VOk st') /\
    (forall c st', exec_stmt (BConstraint x c) st <> VOk st').
  Proof.
    intros Hr. repeat split; intros; eapply reserved_is_error; eauto; reflexivity.
  Qed.

  (* what let binds *)
  Theorem let_stmt_result x e (st st' : bstate) :
    exec_stmt (BLet x e) st = VOk st' ->
    exists v, eval_code (bsyms st) e = VOk v /\
              st' = {| bstk := bstk st; bsyms := sym_add x v (bsyms st); bout := bout st |}.
  Proof.
    intros H. rewrite exec_let_eq in H.
    apply vbind_ok in H as (v & Hv & H). apply vbind_ok in H as (t & Ht & H).
    apply binding_push_inv in Ht as (_ & _ & ->). inversion H. eauto.
  Qed.

  Theorem letc_stmt_result x e c (st st' : bstate) :
    exec_stmt (BLetC x e c) st = VOk st' ->
    exists v cv, eval_code (bsyms st) e = VOk v /\ eval_code (bsyms st) c = VOk cv /\ conforms cv v = true /\
                 st' = {| bstk := bstk st; bsyms := sym_add x v (bsyms st); bout := bout st |}.
  Proof.
    intros H. rewrite exec_letc_eq in H.
    apply vbind_ok in H as (v & Hv & H). apply vbind_ok in H as (cv & Hc & H).
    destruct (conforms cv v) eqn:Ec; [|discriminate].
    apply vbind_ok in H as (t & Ht & H).
    apply binding_push_inv in Ht as (_ & _ & ->). inversion H. exists v, cv. auto.
  Qed.

  (* constraint_stmt_result: on success, `constraint x = c` binds x to the value of c evaluated in the scope
     extended with x |-> empty constraint (the recursive pre-binding).  The final table is the ORIGINAL table
     with the single entry x |-> v added: the pre-binding x |-> k_empty is overwritten and is not part of
     the state after the statement (it can only survive inside v, if c chose to mention x). *)
  Theorem constraint_stmt_result x c (st st' : bstate) :
    exec_stmt (BConstraint x c) st = VOk st' ->
    vm_is_reserved x = false /\ sym_get x (bsyms st) = None /\
    exists v, eval_code (sym_add x k_empty (bsyms st)) c = VOk v /\
              st' = {| bstk := bstk st; bsyms := sym_add x v (bsyms st); bout := bout st |} /\
              sym_get x (bsyms st') = Some v /\
              (forall y, y <> x -> sym_get y (bsyms st') = sym_get y (bsyms st)).
  Proof.
    intros H. rewrite exec_constraint_eq in H.
    apply vbind_ok in H as (t1 & Ht1 & H). apply vbind_ok in H as (v & Hv & H).
    apply vbind_ok in H as (t2 & Ht2 & H).
    apply binding_push_inv in Ht1 as (Hr & Hb & ->). apply binding_push_inv in Ht2 as (_ & _ & ->).
    rewrite sym_add_add in H. inversion H; subst st'; clear H. cbn [bsyms].
    split; [exact Hr|]. split; [apply Hb; reflexivity|]. exists v. repeat split; auto.
    - rewrite sym_get_add, bytes_eqb_refl. reflexivity.
    - intros y Hy. rewrite sym_get_add. destruct (bytes_eqb y x) eqn:E; [|reflexivity].
      apply bytes_eqb_spec in E. contradiction.
  Qed.

  (* the same fact as an equivalence: a constraint statement succeeds exactly like the plain `let x = e` whose
     value is what c yields under the pre-binding, and reaches the same state *)
  Theorem constraint_as_let x c e (st : bstate) :
    eval_code (bsyms st) e = eval_code (sym_add x k_empty (bsyms st)) c ->
    forall st', exec_stmt (BConstraint x c) st = VOk st' <-> exec_stmt (BLet x e) st = VOk st'.
  Proof.
    intros He st'. split; intros H.
    - apply constraint_stmt_result in H as (Hr & Hb & v & Hv & -> & _).
      rewrite exec_let_eq, He, Hv. cbn [vbind]. rewrite binding_push_ok; auto.
    - pose proof (stmt_effect _ _ _ H) as (_ & Hr & Hb & _). cbn [stmt_name instance_of si_name] in Hr, Hb.
      apply let_stmt_result in H as (v & Hv & ->).
      rewrite exec_constraint_eq, binding_push_ok by auto. cbn [vbind]. rewrite <- He, Hv. cbn [vbind].
      rewrite binding_push_ok by (auto; discriminate). cbn [vbind]. rewrite sym_add_add. reflexivity.
  Qed.

  (* a second `out` in the same file is an error (the statement-level part of "one output per file") *)
  Theorem out_sets_lock typ e (st st' : bstate) :
    exec_stmt (BOut typ e) st = VOk st' -> bout st = false /\ bout st' = true.
  Proof.
    intros H. rewrite exec_out_eq in H. apply vbind_ok in H as (v & Hv & H).
    destruct (bout st); [discriminate|]. destruct (out_ok typ v); [|discriminate].
    inversion H. split; reflexivity.
  Qed.

  Theorem stmt_keeps_lock (s : bstmt) (st st' : bstate) :
    exec_stmt s st = VOk st' -> bout st = true -> bout st' = true.
  Proof.
    intros H Hl. destruct s as [x e|x e c|x c|e|e|typ e].
    - apply let_stmt_result in H as (v & _ & ->). exact Hl.
    - apply letc_stmt_result in H as (v & cv & _ & _ & _ & ->). exact Hl.
    - apply constraint_stmt_result in H as (_ & _ & v & _ & -> & _). exact Hl.
    - rewrite exec_expr_eq in H. apply vbind_ok in H as (v & _ & H). inversion H; subst; exact Hl.
    - rewrite exec_assert_eq in H. apply vbind_ok in H as (v & _ & H). inversion H; subst; exact Hl.
    - apply out_sets_lock in H. tauto.
  Qed.

  (* the statement layer itself never drives the VM into unreachable!() / a stack-underflow panic: if the
     code of the sub-expressions does not, no statement does, from any state *)
  Theorem stmt_no_bug (s : bstmt) (st : bstate) :
    (forall t e, eval_code t e <> VBug) -> exec_stmt s st <> VBug.
  Proof.
    intros Hnb. destruct s as [x e|x e c|x c|e|e|typ e].
    - rewrite exec_let_eq. pose proof (Hnb (bsyms st) e). destruct (eval_code (bsyms st) e) as [v| | | |];
        cbn [vbind]; try congruence; try discriminate.
      destruct (binding_push_cases fo (bsyms st) x v true) as [->|(t & ->)]; discriminate.
    - rewrite exec_letc_eq. pose proof (Hnb (bsyms st) e). pose proof (Hnb (bsyms st) c).
      destruct (eval_code (bsyms st) e) as [v| | | |]; cbn [vbind]; try congruence; try discriminate.
      destruct (eval_code (bsyms st) c) as [cv| | | |]; cbn [vbind]; try congruence; try discriminate.
      destruct (conforms cv v); [|discriminate].
      destruct (binding_push_cases fo (bsyms st) x v true) as [->|(t & ->)]; discriminate.
    - rewrite exec_constraint_eq.
      destruct (binding_push_cases fo (bsyms st) x k_empty true) as [->|(t & ->)]; [discriminate|]. cbn [vbind].
      pose proof (Hnb t c). destruct (eval_code t c) as [v| | | |]; cbn [vbind]; try congruence; try discriminate.
      destruct (binding_push_cases fo t x v false) as [->|(t' & ->)]; discriminate.
    - rewrite exec_expr_eq. pose proof (Hnb (bsyms st) e).
      destruct (eval_code (bsyms st) e); cbn [vbind]; try congruence; discriminate.
    - rewrite exec_assert_eq. pose proof (Hnb (bsyms st) e).
      destruct (eval_code (bsyms st) e); cbn [vbind]; try congruence; discriminate.
    - rewrite exec_out_eq. pose proof (Hnb (bsyms st) e).
      destruct (eval_code (bsyms st) e) as [v| | | |]; cbn [vbind]; try congruence; try discriminate.
      destruct (bout st); [discriminate|]. destruct (out_ok typ v); discriminate.
  Qed.

  (* ---------------- programs ---------------- *)
  Lemma exec_prog_cons s p (st : bstate) :
    exec_prog (s :: p) st = (vdo st1 <- exec_stmt s st; exec_prog p st1).
  Proof. reflexivity. Qed.

  Lemma exec_prog_app p1 p2 (st : bstate) :
    exec_prog (p1 ++ p2) st = (vdo st1 <- exec_prog p1 st; exec_prog p2 st1).
  Proof.
    revert st. induction p1 as [|s p1 IH]; intros st; [reflexivity|].
    cbn [app]. rewrite !exec_prog_cons. destruct (exec_stmt s st) as [st1| | | |]; cbn [vbind]; auto.
  Qed.

  Theorem prog_keeps_bindings p (st st' : bstate) :
    exec_prog p st = VOk st' ->
    forall x v, sym_get x (bsyms st) = Some v -> sym_get x (bsyms st') = Some v.
  Proof.
    revert st. induction p as [|s p IH]; intros st H x v Hx.
    - inversion H; subst. exact Hx.
    - rewrite exec_prog_cons in H. apply vbind_ok in H as (st1 & H1 & H2).
      eapply IH; eauto. eapply stmt_keeps_bindings; eauto.
  Qed.

  Theorem prog_stack_balanced p (st st' : bstate) : exec_prog p st = VOk st' -> bstk st' = bstk st.
  Proof.
    revert st. induction p as [|s p IH]; intros st H.
    - inversion H; reflexivity.
    - rewrite exec_prog_cons in H. apply vbind_ok in H as (st1 & H1 & H2).
      rewrite (IH _ H2). eapply stack_balanced; eauto.
  Qed.

  (* the names a program binds are among the names of its statements *)
  Theorem prog_binds_only_its_names p (st st' : bstate) :
    exec_prog p st = VOk st' ->
    forall y, ~ In (Some y) (map stmt_name p) -> sym_get y (bsyms st') = sym_get y (bsyms st).
  Proof.
    revert st. induction p as [|s p IH]; intros st H y Hy.
    - inversion H; reflexivity.
    - rewrite exec_prog_cons in H. apply vbind_ok in H as (st1 & H1 & H2). cbn [map In] in Hy.
      rewrite (IH _ H2 y) by tauto. apply (stmt_binds_only_its_name _ _ _ H1). tauto.
  Qed.

  (* prog_prefix_stable: a program is its prefix followed by the rest run in the state the prefix produced, so
     every binding made by a prefix has the same value at the end of the whole program *)
  Theorem prog_prefix_stable p1 p2 (st st2 : bstate) :
    exec_prog (p1 ++ p2) st = VOk st2 ->
    exists st1, exec_prog p1 st = VOk st1 /\ exec_prog p2 st1 = VOk st2 /\
                forall x v, sym_get x (bsyms st1) = Some v -> sym_get x (bsyms st2) = Some v.
  Proof.
    intros H. rewrite exec_prog_app in H. apply vbind_ok in H as (st1 & H1 & H2).
    exists st1. repeat split; auto. apply (prog_keeps_bindings _ _ _ H2).
  Qed.

  Theorem prog_prefix_failure_propagates p1 p2 (st : bstate) :
    (forall st1, exec_prog p1 st <> VOk st1) -> exec_prog (p1 ++ p2) st = exec_prog p1 st.
  Proof.
    intros H. rewrite exec_prog_app. destruct (exec_prog p1 st) as [st1| | | |]; cbn [vbind]; try reflexivity.
    exfalso. apply (H st1). reflexivity.
  Qed.

  (* "a second binding of a name in the same scope is an error, whichever statement form makes it":
     no program that contains two statements with the same name, in any position and of any two forms, runs *)
  Theorem prog_rebind_is_error p1 s1 p2 s2 p3 x (st : bstate) :
    stmt_name s1 = Some x -> stmt_name s2 = Some x ->
    forall st', exec_prog (p1 ++ s1 :: p2 ++ s2 :: p3) st <> VOk st'.
  Proof.
    intros Hn1 Hn2 st' H.
    rewrite exec_prog_app in H. apply vbind_ok in H as (sta & _ & H).
    rewrite exec_prog_cons in H. apply vbind_ok in H as (stb & Hs1 & H).
    rewrite exec_prog_app in H. apply vbind_ok in H as (stc & Hp2 & H).
    rewrite exec_prog_cons in H. apply vbind_ok in H as (std & Hs2 & _).
    destruct (stmt_binds_its_name _ _ _ _ Hs1 Hn1) as (_ & v & Hv).
    pose proof (prog_keeps_bindings _ _ _ Hp2 _ _ Hv) as Hv'.
    exact (rebind_is_error _ _ _ _ Hn2 Hv' _ Hs2).
  Qed.

  (* ---------------- the REPL: a FAILED constraint statement leaves its placeholder behind ----------------
     `ucg build` aborts on the first error, so the intermediate states of a statement are never seen.
     Builder::repl keeps its VM after a failed statement; there the state in which the table stopped is the
     state the next statement starts from.  For the constraint statement whose body fails that state has the
     name bound to the EMPTY constraint (which check() accepts everything against) and one stray symbol on the
     stack.  This is a statement about the real tool (see STATUS.md for the session), recorded here as a fact
     about the generated table. *)
  Theorem failed_constraint_leaves_placeholder x c (st : bstate) :
    vm_is_reserved x = false -> sym_get x (bsyms st) = None ->
    (forall v, eval_code (sym_add x k_empty (bsyms st)) c <> VOk v) ->
    (forall st', exec_stmt (BConstraint x c) st <> VOk st') /\
    let stop := run_sops_upto gen_constraint_ops (instance_of (BConstraint x c)) st in
    sym_get x (bsyms stop) = Some k_empty /\ bstk stop = WSym x :: bstk st.
  Proof.
    intros Hr Hb Hf. split.
    - intros st' H. apply constraint_stmt_result in H as (_ & _ & v & Hv & _). exact (Hf v Hv).
    - cbv zeta.
      cbn [gen_constraint_ops Bind.run_sops_upto Bind.run_sop instance_of si_name si_code code1 bpush with_bstk
           bstk bsyms bout op_bind pop vbind].
      unfold gen_bind_strict. rewrite binding_push_ok by auto.
      cbn [vbind Bind.run_sops_upto Bind.run_sop instance_of si_name si_code code1 bpush with_bstk bstk bsyms bout].
      destruct (eval_code (sym_add x k_empty (bsyms st)) c) as [v| | | |] eqn:E;
        [exfalso; exact (Hf v eq_refl)| | | |]; cbn [vbind bsyms bstk bpush with_bstk];
        (split; [rewrite sym_get_add, bytes_eqb_refl; reflexivity|reflexivity]).
  Qed.

  (* ---------------- agreement with the existing VM model ----------------
     On the four opcodes that vm/Vm.v models, a statement-level op does to (stack, symbols) what [exec_instr]
     does (pc and the self stack are not part of the statement layer). *)
  Definition vm_view (r : outcome (state fo)) : outcome (list (wval fo) * symtab fo) :=
    vdo s <- r; VOk (stk s, syms s).
  Definition b_view (r : outcome bstate) : outcome (list (wval fo) * symtab fo) :=
    vdo s <- r; VOk (bstk s, bsyms s).
  Definition of_vm (vst : state fo) (lock : bool) : bstate :=
    {| bstk := stk vst; bsyms := syms vst; bout := lock |}.

  Theorem sop_agrees_with_vm C strict_ envv run (vst : state fo) lock (si : stmt_instance sub_expression) :
    (forall x, si_name si = Some x ->
               vm_view (exec_instr fo C strict_ envv run (ISym x) vst) = b_view (run_sop SOSym si (of_vm vst lock))) /\
    vm_view (exec_instr fo C strict_ envv run IPop vst) = b_view (run_sop SOPop si (of_vm vst lock)) /\
    vm_view (exec_instr fo C strict_ envv run IBind vst) = b_view (run_sop SOBind si (of_vm vst lock)) /\
    vm_view (exec_instr fo C strict_ envv run IBindOver vst) = b_view (run_sop SOBindOver si (of_vm vst lock)).
  Proof.
    unfold vm_view, b_view, of_vm. repeat split.
    - intros x Hx. cbn [Bind.run_sop]. rewrite Hx. reflexivity.
    - cbn [exec_instr Bind.run_sop bstk]. destruct (stk vst) as [|v s]; reflexivity.
    - cbn [exec_instr Bind.run_sop]. unfold op_bind, gen_bind_strict. cbn [bstk bsyms bout].
      destruct (stk vst) as [|v [|n s]]; try reflexivity. cbn [pop vbind].
      destruct n as [nm| | | | | | | | | |]; try reflexivity.
      destruct (binding_push fo (syms vst) nm v true); reflexivity.
    - cbn [exec_instr Bind.run_sop]. unfold op_bind, gen_bindover_strict. cbn [bstk bsyms bout].
      destruct (stk vst) as [|v [|n s]]; try reflexivity. cbn [pop vbind].
      destruct n as [nm| | | | | | | | | |]; try reflexivity.
      destruct (binding_push fo (syms vst) nm v false); reflexivity.
  Qed.
End BindLemmas.

(* ---------------- examples: the hypotheses are satisfiable ----------------
   A toy instance of the abstract parts (defined here only): sub-expressions are literals, names and list
   displays; a list value used as a constraint is an alternation of exact values; the empty constraint is a
   symbol nothing else produces and accepts everything; only the "json" converter exists. *)
Module BindToy.
  Definition toy_floats : float_ops := {|
    F := Z;
    f_of_bits := fun z => z; f_to_bits := fun z => z;
    fadd := Z.add; fsub := Z.sub; fmul := Z.mul; fdiv := fun x y => Z.quot x y;
    feqb := Z.eqb; fltb := Z.ltb; fleb := Z.leb;
    f_of_int := fun z => z; f_to_int := fun z => Some z; f_text := fun z => Some (dec_Z z)
  |}.
  Notation tval := (wval toy_floats).

  Inductive texp := TLit (v : tval) | TVar (x : bytes) | TList (es : list texp).

  Fixpoint toy_eval (t : symtab toy_floats) (e : texp) : outcome tval :=
    match e with
    | TLit v => VOk v
    | TVar x => match sym_get x t with Some v => VOk v | None => VErr end       (* "No such binding" *)
    | TList es =>
      vdo vs <- (fix go (es : list texp) : outcome (list tval) :=
                   match es with
                   | [] => VOk []
                   | e1 :: es' => vdo v <- toy_eval t e1; vdo r <- go es'; VOk (v :: r)
                   end) es;
      VOk (WList vs)
    end.

  Local Open Scope string_scope.
  Definition toy_k_empty : tval := WSym (b "<empty constraint>").
  Definition toy_conforms (c v : tval) : bool :=
    match c with
    | WList alts => existsb (fun a => match weq a v with Some true => true | _ => false end) alts
    | _ => true
    end.
  Definition toy_out_ok (typ : bytes) (v : tval) : bool := bytes_eqb typ (b "json").

  Definition toy_stmt := Bind.exec_stmt toy_floats texp toy_eval toy_conforms toy_k_empty toy_out_ok.
  Definition toy_prog := Bind.exec_prog toy_floats texp toy_eval toy_conforms toy_k_empty toy_out_ok.
  Definition toy_init : bstate toy_floats := binit toy_floats.

  (* let a = 1;  constraint c = 1 | 2 | c;  let x :: c = 2;  x;  assert a;  out json x; *)
  Definition p_ok : list (bstmt texp) :=
    [ BLet (b "a") (TLit (WInt 1));
      BConstraint (b "c") (TList [TLit (WInt 1); TLit (WInt 2); TVar (b "c")]);
      BLetC (b "x") (TLit (WInt 2)) (TVar (b "c"));
      BExpr (TVar (b "x"));
      BAssert (TVar (b "a"));
      BOut (b "json") (TVar (b "x")) ].

  Example p_ok_runs :
    toy_prog p_ok toy_init =
    VOk {| bstk := [];
           bsyms := [ (b "a", WInt 1);
                      (b "c", WList [WInt 1; WInt 2; toy_k_empty]);   (* the self-reference saw the placeholder *)
                      (b "x", WInt 2) ];
           bout := true |}.
  Proof. vm_compute. reflexivity. Qed.

  (* the three-statement prefix binds the same values as the whole program *)
  Example p_ok_prefix :
    toy_prog (firstn 3 p_ok) toy_init =
    VOk {| bstk := [];
           bsyms := [ (b "a", WInt 1); (b "c", WList [WInt 1; WInt 2; toy_k_empty]); (b "x", WInt 2) ];
           bout := false |}.
  Proof. vm_compute. reflexivity. Qed.

  (* a second binding of a name is an error in all nine combinations of forms *)
  Definition binders (x : bytes) : list (bstmt texp) :=
    [ BLet x (TLit (WInt 1)); BLetC x (TLit (WInt 1)) (TList [TLit (WInt 1)]); BConstraint x (TList [TLit (WInt 1)]) ].
  Example rebinding_fails_in_every_combination :
    forallb (fun s1 => forallb (fun s2 => match toy_prog [s1; s2] toy_init with VErr => true | _ => false end)
                               (binders (b "n")))
            (binders (b "n")) = true.
  Proof. vm_compute. reflexivity. Qed.
  Example each_binder_alone_succeeds :
    forallb (fun s1 => match toy_prog [s1] toy_init with VOk _ => true | _ => false end) (binders (b "n")) = true.
  Proof. vm_compute. reflexivity. Qed.

  (* reserved words *)
  Example reserved_fails :
    forallb (fun s1 => match toy_prog [s1] toy_init with VErr => true | _ => false end) (binders (b "self")) = true.
  Proof. vm_compute. reflexivity. Qed.

  (* a value outside the constraint; a second out *)
  Example constraint_violation :
    toy_prog [BConstraint (b "c") (TList [TLit (WInt 1); TLit (WInt 2)]); BLetC (b "x") (TLit (WInt 3)) (TVar (b "c"))]
             toy_init = VErr.
  Proof. vm_compute. reflexivity. Qed.
  Example second_out_fails :
    toy_prog [BOut (b "json") (TLit (WInt 1)); BOut (b "json") (TLit (WInt 1))] toy_init = VErr.
  Proof. vm_compute. reflexivity. Qed.

  (* the REPL observation: `constraint c = 1 | nosuch;` fails and leaves c bound to the empty constraint *)
  Example failed_constraint_in_repl :
    let s := BConstraint (b "c") (TList [TLit (WInt 1); TVar (b "nosuch")]) in
    toy_stmt s toy_init = VErr /\
    run_sops_upto toy_floats texp toy_eval toy_conforms toy_k_empty toy_out_ok gen_constraint_ops (instance_of s) toy_init =
    {| bstk := [WSym (b "c")]; bsyms := [(b "c", toy_k_empty)]; bout := false |}.
  Proof. vm_compute. split; reflexivity. Qed.
End BindToy.
