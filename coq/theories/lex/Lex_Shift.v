(* C17 support: how token positions move when text is put in front of / behind
   a source.  If [pre] ends with a line feed and lexes on its own, then lexing
   [pre ++ src] gives the tokens of [pre] (without its END) followed by the tokens
   of [src] with line + (number of LF in pre), the SAME column, and
   offset + length pre.  Text added behind a source that ends with a line feed
   does not change the earlier tokens at all. *)
From Coq Require Import Sorting.Sorted.
From Ucg Require Import base.Bytes base.Bytes_Lemmas lex.Lex_Types lex.Vocab lex.Lex lex.Lex_Lemmas.
From UcgGen Require Import LexVocab.
Local Open Scope list_scope.

Definition shift_tok (dl doff : N) (t : token) : token :=
  {| typ := typ t; frag := frag t; line := (line t + dl)%N; col := col t; off := (off t + doff)%N |}.

(* last byte is LF *)
Definition ends_with_newline (p : bytes) : Prop := exists q, p = q ++ [nl].

(* the END token that [lex pre] puts at the end *)
Definition end_tok_of (pre : bytes) : token := mk_tok END [] (advance ps0 pre).

Definition nt (t : token) : bool := negb (is_trivia t).

(* ------------------------------------------------------------------ *)
(** * lexing with exactly enough fuel, and its unfolding               *)
(* ------------------------------------------------------------------ *)

Definition lexA (ps : pos_state) (s : bytes) : lex_result := lex_from (List.length s + 1) ps s.

Definition res_filter (r : lex_result) : option (list token) :=
  match r with LexOk l => Some (filter nt l) | _ => None end.

Lemma lex_lexA s : lex s = res_filter (lexA ps0 s).
Proof. unfold lex, lex_all, lex_fuel, lexA. destruct (lex_from _ ps0 s); reflexivity. Qed.

Lemma lexA_nil ps : lexA ps [] = LexOk [mk_tok END [] ps].
Proof. reflexivity. Qed.

Lemma lexA_step ps s : s <> [] ->
  lexA ps s =
  match first_raw s with
  | RComplete ty f k rest =>
      match lexA (advance ps k) rest with
      | LexOk l => LexOk (mk_tok ty f ps :: l)
      | e => e
      end
  | _ => LexErr
  end.
Proof.
  intros Hs. unfold lexA. rewrite Nat.add_1_r. destruct s as [|c s]; [congruence|].
  cbn [lex_from]. unfold first_tok.
  destruct (first_raw (c :: s)) as [ty f k rest| |] eqn:E; try reflexivity.
  pose proof (first_raw_app _ _ _ _ _ E) as Happ.
  pose proof (first_raw_progress _ _ _ _ _ Hs E) as Hk.
  assert (Hlt : List.length rest < List.length (c :: s)).
  { rewrite Happ, app_length. destruct k; [congruence|cbn; lia]. }
  rewrite (lex_from_fuel_mono (List.length (c :: s)) (List.length rest + 1) _ rest) by lia.
  reflexivity.
Qed.

Lemma advance_app ps a c : advance (advance ps a) c = advance ps (a ++ c).
Proof. unfold advance. now rewrite fold_left_app. Qed.

Lemma lex_from_nonempty fuel : forall ps s l, lex_from fuel ps s = LexOk l -> l <> [].
Proof.
  intros ps s l H. destruct (lex_from_shape _ _ _ _ H) as (body & e & -> & _).
  destruct body; discriminate.
Qed.

Lemma res_filter_cons t r :
  res_filter (match r with LexOk l => LexOk (t :: l) | LexErr => LexErr | OutOfFuel => OutOfFuel end) =
  option_map (app (filter nt [t])) (res_filter r).
Proof. destruct r; cbn; try reflexivity. destruct (nt t); reflexivity. Qed.

Lemma option_map_app_nil {A} (o : option (list A)) : option_map (app []) o = o.
Proof. destruct o; reflexivity. Qed.

Lemma option_map_app_app {A} (x y : list A) o :
  option_map (app x) (option_map (app y) o) = option_map (app (x ++ y)) o.
Proof. destruct o; cbn; [now rewrite app_assoc|reflexivity]. Qed.

(* ------------------------------------------------------------------ *)
(** * positions shift uniformly                                        *)
(* ------------------------------------------------------------------ *)

Definition pos_rel (dl doff : N) (ps ps' : pos_state) : Prop :=
  p_line ps' = (p_line ps + dl)%N /\ p_col ps' = p_col ps /\ p_off ps' = (p_off ps + doff)%N.

Lemma pos_rel_advance dl doff k : forall ps ps',
  pos_rel dl doff ps ps' -> pos_rel dl doff (advance ps k) (advance ps' k).
Proof.
  induction k as [|c k IH]; intros ps ps' H; [exact H|].
  unfold advance. cbn [fold_left]. apply IH. destruct H as (H1 & H2 & H3).
  unfold advance1, pos_rel. destruct (Ascii.eqb c nl); cbn [p_line p_col p_off];
    rewrite ?H1, ?H2, ?H3; repeat split; lia.
Qed.

Lemma mk_tok_shift dl doff ty f ps ps' :
  pos_rel dl doff ps ps' -> mk_tok ty f ps' = shift_tok dl doff (mk_tok ty f ps).
Proof. intros (H1 & H2 & H3). unfold mk_tok, shift_tok. cbn. now rewrite H1, H2, H3. Qed.

Definition res_map (g : token -> token) (r : lex_result) : lex_result :=
  match r with LexOk l => LexOk (map g l) | e => e end.

Lemma lex_from_shift dl doff fuel : forall ps ps' s,
  pos_rel dl doff ps ps' ->
  lex_from fuel ps' s = res_map (shift_tok dl doff) (lex_from fuel ps s).
Proof.
  induction fuel as [|fuel IH]; intros ps ps' s H.
  - destruct s; cbn; [|reflexivity]. now rewrite (mk_tok_shift dl doff _ _ ps ps' H).
  - destruct s as [|c s]; cbn [lex_from].
    + cbn. now rewrite (mk_tok_shift dl doff _ _ ps ps' H).
    + unfold first_tok. destruct (first_raw (c :: s)) as [ty f k rest| |]; try reflexivity.
      rewrite (IH (advance ps k) (advance ps' k) rest (pos_rel_advance dl doff k _ _ H)).
      destruct (lex_from fuel (advance ps k) rest); cbn; try reflexivity.
      now rewrite (mk_tok_shift dl doff _ _ ps ps' H).
Qed.

Lemma filter_nt_shift dl doff l :
  filter nt (map (shift_tok dl doff) l) = map (shift_tok dl doff) (filter nt l).
Proof.
  induction l as [|t l IH]; [reflexivity|]. cbn [map filter].
  assert (E : nt (shift_tok dl doff t) = nt t) by reflexivity. rewrite E.
  destruct (nt t); cbn [map]; now rewrite IH.
Qed.

(* ------------------------------------------------------------------ *)
(** * extending an input that ends with a line feed                    *)
(* ------------------------------------------------------------------ *)

Lemma ends_nl_suffix p k rest :
  ends_with_newline p -> p = k ++ rest -> rest = [] \/ ends_with_newline rest.
Proof.
  intros [q Hq] Hp. destruct rest as [|a rest']; [left; reflexivity|right].
  assert (Hne : a :: rest' <> []) by discriminate.
  destruct (exists_last Hne) as (r' & c & E).
  rewrite E in Hp. rewrite Hp, app_assoc in Hq. apply app_inj_tail in Hq as [_ ->]. exists r'. exact E.
Qed.

Lemma ends_nl_nonempty p : ends_with_newline p -> p <> [].
Proof. intros [q ->]. destruct q; discriminate. Qed.

Lemma ends_nl_tail c p : ends_with_newline (c :: p) -> p = [] /\ c = nl \/ ends_with_newline p.
Proof.
  intros [q Hq]. destruct q as [|d q]; cbn in Hq; inversion Hq; subst.
  - left; auto.
  - right. exists q. reflexivity.
Qed.

Lemma no_nl_ends p : ends_with_newline p -> no_nl p = false.
Proof.
  intros [q ->]. unfold no_nl. rewrite forallb_app. cbn [forallb]. unfold is_nl at 2.
  rewrite Ascii.eqb_refl. cbn [negb andb]. apply andb_false_r.
Qed.

(* literals of the table contain no line feed *)
Definition lit_no_nl (r : recogniser) : bool :=
  match r with RText _ l | RTextWS _ l => no_nl (b l) | _ => true end.

Lemma recognisers_no_nl : forallb lit_no_nl recognisers = true.
Proof. vm_compute. reflexivity. Qed.

Lemma strip_prefix_none_ext l : forall p x,
  no_nl l = true -> ends_with_newline p -> strip_prefix l p = None -> strip_prefix l (p ++ x) = None.
Proof.
  induction l as [|c l IH]; intros p x Hl Hp H; [discriminate|].
  destruct p as [|d p]; [now apply ends_nl_nonempty in Hp|]. cbn in H |- *.
  cbn in Hl. apply andb_true_iff in Hl as [Hc Hl].
  destruct (Ascii.eqb c d) eqn:E; [|reflexivity]. apply Ascii.eqb_eq in E; subst d.
  destruct (ends_nl_tail _ _ Hp) as [[-> ->]|Hp'].
  - unfold is_nl in Hc. rewrite Ascii.eqb_refl in Hc. discriminate.
  - now apply IH.
Qed.

Lemma span_ext f s x a r : span f s = (a, r) ->
  (r <> [] -> span f (s ++ x) = (a, r ++ x)) /\
  (r = [] -> span f (s ++ x) = (a ++ fst (span f x), snd (span f x))).
Proof.
  revert a r; induction s as [|c s IH]; intros a r H.
  - cbn in H. inversion H; subst. split; [congruence|]. intros _. cbn. now destruct (span f x).
  - cbn in H. cbn [app span]. destruct (f c) eqn:Ec.
    + destruct (span f s) as [a' r'] eqn:E. inversion H; subst.
      destruct (IH _ _ eq_refl) as [I1 I2]. split; intros Hr.
      * now rewrite (I1 Hr).
      * now rewrite (I2 Hr).
    + inversion H; subst. split; [|discriminate]. intros _. reflexivity.
Qed.

Lemma escq_ext s x : forall e f k r,
  escq e s = Some (f, k, r) -> escq e (s ++ x) = Some (f, k, r ++ x).
Proof.
  induction s as [|c s IH]; intros e f k r H; [discriminate|]. cbn in H |- *.
  destruct e.
  - destruct (escq false s) as [[[f' k'] r']|] eqn:E; [|discriminate]. inversion H; subst.
    now rewrite (IH _ _ _ _ E).
  - destruct (Ascii.eqb c bsl).
    + destruct (escq true s) as [[[f' k'] r']|] eqn:E; [|discriminate]. inversion H; subst.
      now rewrite (IH _ _ _ _ E).
    + destruct (Ascii.eqb c dq); [inversion H; reflexivity|].
      destruct (escq false s) as [[[f' k'] r']|] eqn:E; [|discriminate]. inversion H; subst.
      now rewrite (IH _ _ _ _ E).
Qed.

Lemma until_eol_ext s x : forall a r,
  until_eol s = (a, r) -> r <> [] -> until_eol (s ++ x) = (a, r ++ x).
Proof.
  induction s as [|c s IH]; intros a r H Hr.
  - cbn in H. inversion H; subst. congruence.
  - rewrite until_eol_cons in H. cbn [app]. rewrite until_eol_cons.
    destruct (Ascii.eqb c nl) eqn:E1; cbn [orb] in H |- *; [inversion H; reflexivity|].
    destruct (Ascii.eqb c cr) eqn:E2; cbn [andb] in H |- *.
    + destruct s as [|d s].
      * cbn in H. inversion H; subst. congruence.
      * cbn [app starts_with_nl] in H |- *. destruct (Ascii.eqb d nl); [inversion H; reflexivity|].
        destruct (until_eol (d :: s)) as [a' r'] eqn:E. inversion H; subst.
        change (d :: s ++ x) with ((d :: s) ++ x). now rewrite (IH _ _ eq_refl Hr).
    + destruct (until_eol s) as [a' r'] eqn:E. inversion H; subst. now rewrite (IH _ _ eq_refl Hr).
Qed.

Lemma eat_eol_ext r x e r2 :
  r <> [] -> at_line_end r -> eat_eol r = (e, r2) -> eat_eol (r ++ x) = (e, r2 ++ x).
Proof.
  intros Hr Hl H. destruct r as [|c r]; [congruence|]. cbn [at_line_end] in Hl.
  unfold eat_eol in H |- *. cbn [app].
  destruct (Ascii.eqb c nl) eqn:E1; [inversion H; reflexivity|].
  destruct Hl as [->|[-> Hs]]; [rewrite Ascii.eqb_refl in E1; discriminate|].
  rewrite Ascii.eqb_refl in H |- *. destruct r as [|d r]; [discriminate|]. cbn [starts_with_nl] in Hs. rewrite Hs in H.
  cbn [app]. rewrite Hs. inversion H; reflexivity.
Qed.

Lemma comment_run_ext s x bd k rest :
  ends_with_newline s -> comment_run s = Some (bd, k, rest) ->
  comment_run (s ++ x) = Some (bd, k, rest ++ x).
Proof.
  intros Hs H. unfold comment_run in H |- *.
  destruct (strip_prefix (b "//") s) as [r0|] eqn:E; [|discriminate].
  rewrite (strip_prefix_ext _ _ _ x E). apply strip_prefix_some in E.
  destruct (until_eol r0) as [a r] eqn:E1. destruct (eat_eol r) as [eol r2] eqn:E2.
  inversion H; subst bd k rest; clear H.
  destruct (until_eol_spec _ _ _ E1) as [Hn Hl]. pose proof (until_eol_app _ _ _ E1) as Ha.
  assert (Hr : r <> []).
  { intros ->. rewrite app_nil_r in Ha. subst r0.
    destruct (ends_nl_suffix s (b "//") a Hs E) as [->|Hea]; [|apply no_nl_ends in Hea; congruence].
    rewrite app_nil_r in E. subst s. destruct Hs as [q Hq]. destruct q as [|? [|? [|? ?]]]; discriminate. }
  rewrite (until_eol_ext _ x _ _ E1 Hr), (eat_eol_ext _ x _ _ Hr Hl E2). reflexivity.
Qed.

Lemma comment_run_none_ext s x :
  ends_with_newline s -> comment_run s = None -> comment_run (s ++ x) = None.
Proof.
  intros Hs H. unfold comment_run in H |- *.
  destruct (strip_prefix (b "//") s) as [r0|] eqn:E.
  - destruct (until_eol r0), (eat_eol _); discriminate.
  - now rewrite (strip_prefix_none_ext (b "//") s x eq_refl Hs E).
Qed.

(* result of a whitespace run when the input is extended *)
Lemma ws_run_ext s x k rest : ws_run s = Some (k, rest) ->
  ws_run (s ++ x) = Some (k, rest ++ x) \/
  (rest = [] /\ ws_run (s ++ x) = Some (k ++ fst (span is_ws x), snd (span is_ws x))).
Proof.
  unfold ws_run. destruct s as [|c s]; [discriminate|]. cbn [app].
  destruct (is_ws c) eqn:Ec; [|discriminate]. intros H. injection H as H.
  change (c :: s ++ x) with ((c :: s) ++ x).
  destruct (span_ext is_ws (c :: s) x _ _ H) as [I1 I2].
  destruct rest as [|d rest].
  - right. split; [reflexivity|]. now rewrite (I2 eq_refl).
  - left. rewrite I1; [reflexivity|discriminate].
Qed.

Lemma ws_run_none_ext s x : s <> [] -> ws_run s = None -> ws_run (s ++ x) = None.
Proof.
  unfold ws_run. destruct s as [|c s]; [congruence|]. cbn [app]. intros _.
  destruct (is_ws c); [discriminate|reflexivity].
Qed.

(* how the outcome on p relates to the outcome on p ++ x *)
Definition ext_ok (r0 rx : rres) (x : bytes) : Prop :=
  match r0 with
  | RFail => rx = RFail
  | RIncomplete => True
  | RComplete ty f k rest =>
      rx = RComplete ty f k (rest ++ x) \/
      (rest = [] /\ rx = RComplete ty f (k ++ fst (span is_ws x)) (snd (span is_ws x)))
  end.

Lemma nl_facts : is_digit nl = false /\ is_symbol_char nl = false /\ Ascii.eqb nl dq = false.
Proof. repeat split; reflexivity. Qed.

Lemma span_rest_nonempty f s a r :
  ends_with_newline s -> f nl = false -> span f s = (a, r) -> r <> [].
Proof.
  intros [q ->] Hf H Hr. subst r. pose proof (span_app _ _ _ _ H) as Ha. rewrite app_nil_r in Ha.
  pose proof (span_all _ _ _ _ H) as Hall. rewrite <- Ha, forallb_app in Hall. cbn [forallb] in Hall.
  rewrite Hf in Hall. cbn [andb] in Hall. now rewrite andb_false_r in Hall.
Qed.

Lemma run_rec_ext r p x :
  ends_with_newline p -> lit_no_nl r = true -> ext_ok (run_rec r p) (run_rec r (p ++ x)) x.
Proof.
  intros Hp Hl. pose proof (ends_nl_nonempty p Hp) as Hne. destruct nl_facts as (Fd & Fs & Fq).
  destruct r; cbn [run_rec].
  - (* strtok *)
    destruct p as [|c p]; [congruence|]. cbn [app]. destruct (Ascii.eqb c dq); [|reflexivity].
    destruct (escq false p) as [[[f k] r]|] eqn:E; [|exact I].
    rewrite (escq_ext _ x _ _ _ _ E). left. reflexivity.
  - destruct (strip_prefix (b lit) p) as [r|] eqn:E.
    + rewrite (strip_prefix_ext _ _ _ x E). left. reflexivity.
    + cbn in Hl. now rewrite (strip_prefix_none_ext _ _ x Hl Hp E).
  - (* keyword *)
    cbn in Hl. destruct (strip_prefix (b lit) p) as [r1|] eqn:E.
    2:{ now rewrite (strip_prefix_none_ext _ _ x Hl Hp E). }
    rewrite (strip_prefix_ext _ _ _ x E). apply strip_prefix_some in E.
    assert (Hr1 : ends_with_newline r1).
    { destruct (ends_nl_suffix p (b lit) r1 Hp E) as [->|]; [|assumption].
      rewrite app_nil_r in E. subst p. apply no_nl_ends in Hp. congruence. }
    destruct (ws_run r1) as [[k rest]|] eqn:Ew.
    + destruct kw_lookahead_only.
      * (* only looked at: the keyword token ends inside p whatever follows *)
        destruct (ws_run_ext _ x _ _ Ew) as [->|[_ ->]]; left; reflexivity.
      * destruct (ws_run_ext _ x _ _ Ew) as [->|[-> ->]].
        -- left. reflexivity.
        -- right. split; [reflexivity|]. now rewrite app_assoc.
    + rewrite (ws_run_none_ext _ x (ends_nl_nonempty _ Hr1) Ew).
      destruct (comment_run r1) as [[[bd k] rest]|] eqn:Ec.
      * rewrite (comment_run_ext _ x _ _ _ Hr1 Ec). destruct kw_lookahead_only; left; reflexivity.
      * now rewrite (comment_run_none_ext _ x Hr1 Ec).
  - (* digittok *)
    destruct p as [|c p]; [congruence|]. cbn [app]. destruct (is_digit c) eqn:Ec; [|reflexivity].
    destruct (span is_digit (c :: p)) as [d r] eqn:E.
    pose proof (span_rest_nonempty _ _ _ _ Hp Fd E) as Hr.
    change (c :: p ++ x) with ((c :: p) ++ x).
    rewrite (proj1 (span_ext _ _ x _ _ E) Hr). left. reflexivity.
  - (* comment *)
    destruct (comment_run p) as [[[bd k] rest]|] eqn:Ec.
    + rewrite (comment_run_ext _ x _ _ _ Hp Ec). left. reflexivity.
    + now rewrite (comment_run_none_ext _ x Hp Ec).
  - (* barewordtok *)
    destruct p as [|c p]; [congruence|]. cbn [app]. destruct (is_alpha c) eqn:Ec; [|reflexivity].
    destruct (span is_symbol_char (c :: p)) as [d r] eqn:E.
    pose proof (span_rest_nonempty _ _ _ _ Hp Fs E) as Hr.
    change (c :: p ++ x) with ((c :: p) ++ x).
    rewrite (proj1 (span_ext _ _ x _ _ E) Hr). left. reflexivity.
  - (* whitespace *)
    destruct (ws_run p) as [[k rest]|] eqn:Ew.
    + destruct (ws_run_ext _ x _ _ Ew) as [->|[-> ->]]; [left|right]; auto.
    + now rewrite (ws_run_none_ext _ x Hne Ew).
  - (* eoi *)
    destruct p as [|c p]; [congruence|]. reflexivity.
Qed.

Lemma alt_ext rs p x :
  ends_with_newline p -> forallb lit_no_nl rs = true -> ext_ok (alt rs p) (alt rs (p ++ x)) x.
Proof.
  intros Hp. induction rs as [|r rs IH]; intros Hrs; [reflexivity|].
  cbn in Hrs. apply andb_true_iff in Hrs as [Hr Hrs]. rewrite !alt_cons.
  pose proof (run_rec_ext r p x Hp Hr) as H.
  destruct (run_rec r p) as [ty f k rest| |]; cbn [ext_ok] in H |- *.
  - destruct H as [->|[-> ->]]; [left|right]; auto.
  - rewrite H. now apply IH.
  - exact I.
Qed.

Lemma first_raw_ext p x :
  ends_with_newline p -> ext_ok (first_raw p) (first_raw (p ++ x)) x.
Proof. intros Hp. apply alt_ext; [exact Hp|exact recognisers_no_nl]. Qed.

(* ------------------------------------------------------------------ *)
(** * concatenation                                                    *)
(* ------------------------------------------------------------------ *)

(* leading whitespace of the second part may be absorbed by the last trivia of the first *)
Lemma lexA_skip_ws ps src :
  res_filter (lexA ps src) =
  res_filter (lexA (advance ps (fst (span is_ws src))) (snd (span is_ws src))).
Proof.
  destruct (span is_ws src) as [w x'] eqn:E. cbn [fst snd].
  pose proof (span_app _ _ _ _ E) as Ha.
  destruct w as [|c w]; [cbn in Ha; now subst|].
  assert (Hs : src <> []) by (intros ->; discriminate).
  assert (Hw : ws_run src = Some (c :: w, x')).
  { unfold ws_run. rewrite Ha. cbn [app]. pose proof (span_all _ _ _ _ E) as Hall. cbn in Hall.
    apply andb_true_iff in Hall as [-> _]. change (c :: w ++ x') with ((c :: w) ++ x').
    now rewrite <- Ha, E. }
  assert (Hc : is_ws c = true).
  { pose proof (span_all _ _ _ _ E) as Hall. cbn in Hall. now apply andb_true_iff in Hall as [? _]. }
  rewrite (lexA_step ps src Hs). rewrite Ha in Hw |- *. cbn [app] in Hw |- *.
  rewrite (first_raw_ws c (w ++ x') _ _ Hc Hw). cbv beta iota. rewrite res_filter_cons.
  change (filter nt [mk_tok WS [] ps]) with (@nil token). now rewrite option_map_app_nil.
Qed.

Lemma lex_concat n : forall p, List.length p <= n -> (p = [] \/ ends_with_newline p) ->
  forall ps src lp, lexA ps p = LexOk lp ->
  res_filter (lexA ps (p ++ src)) =
  option_map (app (filter nt (removelast lp))) (res_filter (lexA (advance ps p) src)).
Proof.
  induction n as [|n IH]; intros p Hlen Hp ps src lp H.
  - destruct p; [|cbn in Hlen; lia]. rewrite lexA_nil in H. inversion H; subst.
    cbn [removelast filter app]. change (advance ps []) with ps. now rewrite option_map_app_nil.
  - destruct p as [|c p].
    { rewrite lexA_nil in H. inversion H; subst.
      cbn [removelast filter app]. change (advance ps []) with ps. now rewrite option_map_app_nil. }
    destruct Hp as [Hp|Hp]; [discriminate|].
    assert (Hne : c :: p <> []) by discriminate.
    rewrite (lexA_step ps _ Hne) in H.
    destruct (first_raw (c :: p)) as [ty f k rest| |] eqn:E; try discriminate.
    destruct (lexA (advance ps k) rest) as [lp'| |] eqn:El; try discriminate.
    inversion H; subst lp; clear H.
    pose proof (first_raw_app _ _ _ _ _ E) as Happ.
    pose proof (first_raw_progress _ _ _ _ _ Hne E) as Hk.
    pose proof (lex_from_nonempty _ _ _ _ El) as Hlp'.
    assert (Hlt : List.length rest <= n).
    { apply (f_equal (@List.length _)) in Happ. rewrite app_length in Happ.
      destruct k; [congruence|]. cbn in Happ, Hlen. lia. }
    assert (Hne2 : (c :: p) ++ src <> []) by discriminate.
    pose proof (first_raw_ext (c :: p) src Hp) as Hext. rewrite E in Hext. cbn [ext_ok] in Hext.
    rewrite (lexA_step ps _ Hne2).
    assert (Hrl : removelast (mk_tok ty f ps :: lp') = mk_tok ty f ps :: removelast lp').
    { destruct lp'; [congruence|reflexivity]. }
    destruct Hext as [Hext|[Hrest Hext]]; rewrite Hext; cbv beta iota.
    + (* the token ends inside (or exactly at the end of) p *)
      rewrite res_filter_cons.
      rewrite (IH rest Hlt (ends_nl_suffix _ _ _ Hp Happ) (advance ps k) src lp' El).
      rewrite option_map_app_app, advance_app, <- Happ, Hrl.
      change (mk_tok ty f ps :: removelast lp') with ([mk_tok ty f ps] ++ removelast lp').
      now rewrite filter_app.
    + (* a whitespace run reaches the end of p and continues into src *)
      subst rest. rewrite app_nil_r in Happ. subst k. rewrite lexA_nil in El. inversion El; subst lp'.
      rewrite res_filter_cons. cbn [removelast].
      rewrite (lexA_skip_ws (advance ps (c :: p)) src), advance_app. reflexivity.
Qed.

(* ------------------------------------------------------------------ *)
(** * the theorems                                                     *)
(* ------------------------------------------------------------------ *)

Lemma removelast_filter_lex fuel ps s l :
  lex_from fuel ps s = LexOk l -> filter nt (removelast l) = removelast (filter nt l).
Proof.
  intros H. destruct (lex_from_shape _ _ _ _ H) as (body & e & -> & He & _).
  assert (Hn : nt e = true) by (unfold nt, is_trivia; now rewrite He).
  rewrite removelast_last, filter_app. cbn [filter]. rewrite Hn. now rewrite removelast_last.
Qed.

Lemma pos_rel_after pre :
  ends_with_newline pre ->
  pos_rel (N.of_nat (count_nl pre)) (N.of_nat (List.length pre)) ps0 (advance ps0 pre).
Proof.
  intros [q ->]. rewrite advance_spec. unfold pos_rel, pos_of. cbn [p_line p_col p_off ps0].
  rewrite since_nl_snoc. unfold is_nl. rewrite Ascii.eqb_refl. repeat split; lia.
Qed.

(* General form: covers success and failure of [src].
   Side conditions: [pre] ends with LF and lexes on its own. *)
Theorem lex_prefix_general : forall pre src tpre,
  ends_with_newline pre -> lex pre = Some tpre ->
  lex (pre ++ src) =
  option_map (fun ts => removelast tpre ++
                        map (shift_tok (N.of_nat (count_nl pre)) (N.of_nat (List.length pre))) ts)
             (lex src).
Proof.
  intros pre src tpre Hp Hpre. rewrite !lex_lexA in *.
  destruct (lexA ps0 pre) as [lp| |] eqn:El; try discriminate. cbn in Hpre. inversion Hpre; subst tpre.
  rewrite (lex_concat (List.length pre) pre (le_n _) (or_intror Hp) ps0 src lp El).
  rewrite (removelast_filter_lex _ _ _ _ El).
  unfold lexA at 1. rewrite (lex_from_shift _ _ _ ps0 (advance ps0 pre) src (pos_rel_after pre Hp)).
  fold (lexA ps0 src). destruct (lexA ps0 src); cbn; try reflexivity.
  now rewrite filter_nt_shift.
Qed.

(* C17, prefix: statements put in front (ending with a line feed) move every later
   token down by the number of line feeds added, keep its column, and move its
   byte offset by the number of bytes added. *)
Theorem lex_prefix_shift : forall pre src tp e ts,
  ends_with_newline pre ->
  lex pre = Some (tp ++ [e]) ->
  lex src = Some ts ->
  lex (pre ++ src) =
  Some (tp ++ map (shift_tok (N.of_nat (count_nl pre)) (N.of_nat (List.length pre))) ts).
Proof.
  intros pre src tp e ts Hp Hpre Hsrc.
  rewrite (lex_prefix_general pre src _ Hp Hpre), Hsrc. cbn. now rewrite removelast_last.
Qed.

(* the dropped token [e] is necessarily the END token of pre *)
Lemma lex_last_is_end : forall pre tp e, lex pre = Some (tp ++ [e]) -> e = end_tok_of pre.
Proof.
  intros pre tp e H. rewrite lex_lexA in H. unfold lexA in H.
  destruct (lex_from (List.length pre + 1) ps0 pre) as [l| |] eqn:El; try discriminate.
  cbn in H. inversion H as [H1]; clear H.
  assert (G : forall fuel ps s l, lex_from fuel ps s = LexOk l ->
              exists body, l = body ++ [mk_tok END [] (advance ps s)]).
  { induction fuel as [|fuel IH]; intros ps s l0 H0.
    - destruct s; cbn in H0; [|discriminate]. inversion H0. exists []. reflexivity.
    - destruct s as [|c s]; cbn [lex_from] in H0.
      + inversion H0. exists []. reflexivity.
      + unfold first_tok in H0. destruct (first_raw (c :: s)) as [ty f k rest| |] eqn:E; try discriminate.
        destruct (lex_from fuel (advance ps k) rest) as [l'| |] eqn:E'; try discriminate.
        inversion H0; subst l0. destruct (IH _ _ _ E') as [body ->].
        exists (mk_tok ty f ps :: body).
        rewrite advance_app, <- (first_raw_app _ _ _ _ _ E). reflexivity. }
  destruct (G _ _ _ _ El) as [body ->]. rewrite filter_app in H1. cbn in H1.
  apply app_inj_tail in H1 as [_ <-]. reflexivity.
Qed.

(* src fails => pre ++ src fails; and conversely every token list of pre ++ src splits *)
Corollary lex_prefix_error : forall pre src tpre,
  ends_with_newline pre -> lex pre = Some tpre -> lex src = None -> lex (pre ++ src) = None.
Proof. intros pre src tpre Hp Hpre Hs. now rewrite (lex_prefix_general pre src _ Hp Hpre), Hs. Qed.

Corollary lex_prefix_inv : forall pre src tpre l,
  ends_with_newline pre -> lex pre = Some tpre -> lex (pre ++ src) = Some l ->
  exists ts, lex src = Some ts /\
    l = removelast tpre ++ map (shift_tok (N.of_nat (count_nl pre)) (N.of_nat (List.length pre))) ts.
Proof.
  intros pre src tpre l Hp Hpre H. rewrite (lex_prefix_general pre src _ Hp Hpre) in H.
  destruct (lex src) as [ts|]; [|discriminate]. inversion H. eauto.
Qed.

(* C17, suffix: text added AFTER a source that ends with a line feed does not
   move or change any earlier token (the old END token is replaced by the
   shifted tokens of the added text). *)
Theorem lex_suffix_irrelevant : forall src post ts e tpost,
  ends_with_newline src -> lex src = Some (ts ++ [e]) -> lex post = Some tpost ->
  lex (src ++ post) =
  Some (ts ++ map (shift_tok (N.of_nat (count_nl src)) (N.of_nat (List.length src))) tpost).
Proof. intros src post ts e tpost Hs H1 H2. eapply lex_prefix_shift; eauto. Qed.

Corollary lex_suffix_irrelevant_ex : forall src post ts e tpost,
  ends_with_newline src -> lex src = Some (ts ++ [e]) -> lex post = Some tpost ->
  exists rest, lex (src ++ post) = Some (ts ++ rest).
Proof. intros. eexists. eapply lex_suffix_irrelevant; eauto. Qed.

(* even when the added text does not lex, nothing else can happen: *)
Corollary lex_suffix_prefix_of_any : forall src post ts e l,
  ends_with_newline src -> lex src = Some (ts ++ [e]) -> lex (src ++ post) = Some l ->
  exists rest, l = ts ++ rest.
Proof.
  intros src post ts e l Hs H1 H2. destruct (lex_prefix_inv _ _ _ _ Hs H1 H2) as (tp & _ & ->).
  rewrite removelast_last. eauto.
Qed.

(* the line-feed condition is needed: without it tokens merge across the seam,
   a trailing comment swallows the next line, an open keyword changes nothing but ... *)
Lemma lex_prefix_shift_needs_newline_refuted :
  exists pre src tp e ts, lex pre = Some (tp ++ [e]) /\ lex src = Some ts /\
    lex (pre ++ src) <>
    Some (tp ++ map (shift_tok (N.of_nat (count_nl pre)) (N.of_nat (List.length pre))) ts).
Proof.
  exists (b "a"), (b "b"), [mk_tok BAREWORD (b "a") ps0], (end_tok_of (b "a")),
         [mk_tok BAREWORD (b "b") ps0; end_tok_of (b "b")].
  repeat split; vm_compute; congruence.
Qed.

Example ex_prefix_shift :
  let pre := b "let a = 1;" ++ [nl] ++ b "// note" ++ [cr; nl] in
  let src := b "  let b = nosuch;" ++ [nl] in
  map (fun t => (line t, col t, off t)) (filter (fun t => bytes_eqb (frag t) (b "nosuch")) 
     (match lex src with Some l => l | None => [] end)) = [(1, 11, 10)%N] /\
  map (fun t => (line t, col t, off t)) (filter (fun t => bytes_eqb (frag t) (b "nosuch")) 
     (match lex (pre ++ src) with Some l => l | None => [] end)) = [(3, 11, 30)%N].
Proof. split; vm_compute; reflexivity. Qed.

Print Assumptions lex_prefix_general.
Print Assumptions lex_prefix_shift.
Print Assumptions lex_last_is_end.
Print Assumptions lex_prefix_error.
Print Assumptions lex_prefix_inv.
Print Assumptions lex_suffix_irrelevant.
Print Assumptions lex_suffix_irrelevant_ex.
Print Assumptions lex_suffix_prefix_of_any.
Print Assumptions lex_prefix_shift_needs_newline_refuted.
