(* Types shared by the tokenizer model (C11).  Definitions only. *)
From Ucg Require Import base.Bytes.

(* src/ast/mod.rs : enum TokenType *)
Inductive ttype := EMPTY | BOOLEAN | END | WS | COMMENT | QUOTED | PIPEQUOTE | DIGIT | BAREWORD | PUNCT.

(* positions are 1-based line, 1-based column IN BYTES, 0-based byte offset *)
Record token := { typ : ttype; frag : bytes; line : N; col : N; off : N }.

(* One alternative of `fn token`'s either!(...) in src/tokenizer/mod.rs.
   The literal text of the text-token recognisers is a Coq [string]. *)
Inductive recogniser :=
| RStr                                  (* strtok                                   *)
| RText (t : ttype) (lit : string)      (* do_text_token_tok!(t, lit)               *)
| RTextWS (t : ttype) (lit : string)    (* do_text_token_tok!(t, lit, WS)           *)
| RDigit                                (* digittok                                 *)
| RComment                              (* comment                                  *)
| RBareword                             (* barewordtok                              *)
| RWhitespace                           (* whitespace                               *)
| REoi.                                 (* end_of_input                             *)
