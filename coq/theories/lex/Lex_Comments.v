(* Every byte of the source belongs to exactly one token of [lex_all]; a non-trivia token covers
   only its own text.  In particular (source commit b648ec7, kw_lookahead_only = true) a keyword
   no longer swallows the whitespace or the comment that follows it: a comment glued to a keyword
   is a COMMENT token of lex_all like any other comment. *)
From Coq Require Import Sorting.Sorted.
From Ucg Require Import base.Bytes base.Bytes_Lemmas lex.Lex_Types lex.Vocab lex.Lex lex.Lex_Lemmas lex.Lex_Shift.
From UcgGen Require Import LexVocab.
Local Open Scope list_scope.

Definition res_all (r : lex_result) : option (list token) :=
  match r with LexOk l => Some l | _ => None end.

Lemma lex_all_lexA s : lex_all s = res_all (lexA ps0 s).
Proof. unfold lex_all, lex_fuel, lexA. destruct (lex_from _ ps0 s); reflexivity. Qed.

(* ------------------------------------------------------------------ *)
(** * the text of a comment                                            *)
(* ------------------------------------------------------------------ *)

(* the comment text is the line without its line end: a CR directly before the LF belongs to
   the line end *)
Fixpoint chomp_cr (s : bytes) : bytes :=
  match s with
  | [] => []
  | c :: s' => match s' with
               | [] => if Ascii.eqb c cr then [] else [c]
               | _ :: _ => c :: chomp_cr s'
               end
  end.

Lemma until_eol_body_exact body : forall r, no_nl body = true ->
  exists r1, until_eol (body ++ nl :: r) = (chomp_cr body, r1) /\
             chomp_cr body ++ r1 = body ++ nl :: r /\ (r1 = nl :: r \/ r1 = cr :: nl :: r).
Proof.
  induction body as [|c body IH]; intros r Hn.
  - exists (nl :: r). cbn [app chomp_cr]. rewrite until_eol_cons, Ascii.eqb_refl. auto.
  - unfold no_nl in Hn. cbn [forallb] in Hn. apply andb_true_iff in Hn as [Hc Hn]. unfold is_nl in Hc.
    cbn [app]. rewrite until_eol_cons. destruct (Ascii.eqb c nl) eqn:E0; [discriminate|]. cbn [orb].
    destruct body as [|d body].
    + cbn [app starts_with_nl chomp_cr]. rewrite Ascii.eqb_refl, andb_true_r.
      destruct (Ascii.eqb c cr) eqn:E1.
      * apply Ascii.eqb_eq in E1; subst c. exists (cr :: nl :: r). auto.
      * rewrite until_eol_cons, Ascii.eqb_refl. cbn [orb]. exists (nl :: r). auto.
    + assert (Hd : Ascii.eqb d nl = false).
      { unfold no_nl in Hn. cbn [forallb] in Hn. apply andb_true_iff in Hn as [Hd _].
        unfold is_nl in Hd. now apply negb_true_iff in Hd. }
      cbn [app starts_with_nl]. rewrite Hd, andb_false_r.
      destruct (IH r Hn) as (r1 & E & Happ & Hr1). cbn [app] in E. rewrite E.
      exists r1. split; [reflexivity|]. split; [|exact Hr1].
      change (chomp_cr (c :: d :: body)) with (c :: chomp_cr (d :: body)).
      cbn [app]. now rewrite Happ.
Qed.

Lemma comment_item_run_exact body r : no_nl body = true ->
  comment_run (b "//" ++ body ++ nl :: r) = Some (chomp_cr body, b "//" ++ body ++ [nl], r).
Proof.
  intros Hn. unfold comment_run. rewrite strip_prefix_app.
  destruct (until_eol_body_exact body r Hn) as (r1 & E & Happ & Hr).
  revert E Happ. generalize (chomp_cr body) as ch. intros ch E Happ. rewrite E.
  destruct Hr as [-> | ->].
  - apply app_inv_tail in Happ. subst ch. cbn [eat_eol]. rewrite Ascii.eqb_refl. reflexivity.
  - assert (Hb : ch ++ [cr] = body).
    { apply (app_inv_tail (nl :: r)). rewrite <- app_assoc. exact Happ. }
    subst body. cbn [eat_eol]. replace (Ascii.eqb cr nl) with false by reflexivity.
    rewrite !Ascii.eqb_refl. now rewrite <- app_assoc.
Qed.

(* ------------------------------------------------------------------ *)
(** * a keyword only looks at what follows it                          *)
(* ------------------------------------------------------------------ *)

Definition kw_reach (r : recogniser) : bool :=
  match r with
  | RTextWS ty lit =>
      let hit (p : bytes) :=
        match skip_failed recognisers p with
        | RTextWS ty' lit' :: _ => (ttype_eqb ty ty' && String.eqb lit lit')%bool
        | _ => false
        end in
      (hit (b lit ++ b "//") && forallb (fun c => implb (is_ws c) (hit (b lit ++ [c]))) all_bytes)%bool
  | _ => true
  end.

(* 19 keyword literals x (the 256 bytes + "//") *)
Lemma keywords_reached : forallb kw_reach recognisers = true.
Proof. vm_compute. reflexivity. Qed.

Lemma comment_run_total x : exists bd k r, comment_run (b "//" ++ x) = Some (bd, k, r).
Proof.
  unfold comment_run. rewrite strip_prefix_app. destruct (until_eol x) as [a r1].
  destruct (eat_eol r1) as [e r2]. eauto.
Qed.

(* the keyword token covers exactly the literal; what follows is left in the input *)
Theorem first_raw_keyword : forall ty lit x,
  In (RTextWS ty lit) recognisers ->
  head_is is_ws x = true \/ (exists x', x = b "//" ++ x') ->
  first_raw (b lit ++ x) = RComplete ty (b lit) (b lit) x.
Proof.
  intros ty lit x Hin Hx. pose proof keywords_reached as K. rewrite forallb_forall in K.
  specialize (K _ Hin). cbn [kw_reach] in K. apply andb_true_iff in K as [K1 K2].
  assert (Hrun : forall p x0,
     match skip_failed recognisers p with
     | RTextWS ty' lit' :: _ => (ttype_eqb ty ty' && String.eqb lit lit')%bool
     | _ => false end = true ->
     run_rec (RTextWS ty lit) (p ++ x0) <> RFail ->
     first_raw (p ++ x0) = run_rec (RTextWS ty lit) (p ++ x0)).
  { intros p x0 Hm Hnf. destruct (skip_failed recognisers p) as [|[ | | ty' lit' | | | | | ] rs'] eqn:E;
      try discriminate.
    apply andb_true_iff in Hm as [Ht Hl]. apply ttype_eqb_eq in Ht. apply String.eqb_eq in Hl. subst.
    unfold first_raw. rewrite skip_failed_sound, E, alt_cons.
    destruct (run_rec (RTextWS ty' lit') (p ++ x0)); congruence. }
  destruct Hx as [Hx|[x' ->]].
  - destruct x as [|c x]; [discriminate|]. cbn in Hx.
    pose proof (forall_bytes _ K2 c) as Kc. cbn beta in Kc. rewrite Hx in Kc. cbn [implb] in Kc.
    assert (Hr : run_rec (RTextWS ty lit) (b lit ++ c :: x) = RComplete ty (b lit) (b lit) (c :: x)).
    { cbn [run_rec]. rewrite strip_prefix_app. unfold ws_run. rewrite Hx.
      destruct (span is_ws (c :: x)). unfold kw_lookahead_only. reflexivity. }
    change (c :: x) with ([c] ++ x) at 1. rewrite app_assoc.
    rewrite (Hrun (b lit ++ [c]) x Kc); rewrite <- app_assoc; cbn [app]; rewrite Hr; [reflexivity|discriminate].
  - destruct (comment_run_total x') as (bd & k & r & Hc).
    assert (Hr : run_rec (RTextWS ty lit) (b lit ++ b "//" ++ x') = RComplete ty (b lit) (b lit) (b "//" ++ x')).
    { cbn [run_rec]. rewrite strip_prefix_app.
      replace (ws_run (b "//" ++ x')) with (@None (bytes * bytes)) by reflexivity.
      rewrite Hc. unfold kw_lookahead_only. reflexivity. }
    rewrite app_assoc.
    rewrite (Hrun (b lit ++ b "//") x' K1); rewrite <- app_assoc; rewrite Hr; [reflexivity|discriminate].
Qed.

(* ------------------------------------------------------------------ *)
(** * lex_all_keeps_glued_comment                                      *)
(* ------------------------------------------------------------------ *)

(* keyword, comment glued to it, rest of the file:  the stream is the keyword token, a COMMENT
   token with the comment's text at the byte right after the keyword, then the tokens of the
   rest moved down one line *)
Theorem lex_all_keeps_glued_comment : forall ty lit body rest,
  In (RTextWS ty lit) recognisers -> no_nl body = true ->
  let K := b lit ++ b "//" ++ body ++ [nl] in
  lex_all (K ++ rest) =
  option_map (fun l => mk_tok ty (b lit) ps0
                       :: mk_tok COMMENT (chomp_cr body) (advance ps0 (b lit))
                       :: map (shift_tok (N.of_nat (count_nl K)) (N.of_nat (List.length K))) l)
             (lex_all rest).
Proof.
  intros ty lit body rest Hin Hn K.
  assert (HK : K ++ rest = b lit ++ b "//" ++ body ++ nl :: rest).
  { unfold K. rewrite <- !app_assoc. reflexivity. }
  assert (Hend : ends_with_newline K).
  { exists (b lit ++ b "//" ++ body). unfold K. now rewrite <- !app_assoc. }
  rewrite !lex_all_lexA.
  assert (Hne : K ++ rest <> []).
  { destruct Hend as [q ->]. destruct q; discriminate. }
  rewrite (lexA_step ps0 _ Hne), HK.
  rewrite (first_raw_keyword ty lit _ Hin (or_intror (ex_intro _ _ eq_refl))).
  assert (Hne2 : b "//" ++ body ++ nl :: rest <> []) by discriminate.
  rewrite (lexA_step _ _ Hne2).
  rewrite (first_raw_comment _ _ _ _ (comment_item_run_exact body rest Hn)).
  rewrite advance_app.
  replace (b lit ++ b "//" ++ body ++ [nl]) with K by reflexivity.
  unfold lexA at 1.
  rewrite (lex_from_shift _ _ _ ps0 (advance ps0 K) rest (pos_rel_after K Hend)).
  fold (lexA ps0 rest). destruct (lexA ps0 rest); reflexivity.
Qed.

(* the comment also reaches the filtered stream's complement: it is not lost, whatever follows *)
Corollary glued_comment_is_token : forall ty lit body rest toks,
  In (RTextWS ty lit) recognisers -> no_nl body = true ->
  lex_all (b lit ++ b "//" ++ body ++ [nl] ++ rest) = Some toks ->
  exists tl, toks = mk_tok ty (b lit) ps0
                    :: mk_tok COMMENT (chomp_cr body) (advance ps0 (b lit)) :: tl.
Proof.
  intros ty lit body rest toks Hin Hn H.
  replace (b lit ++ b "//" ++ body ++ [nl] ++ rest) with ((b lit ++ b "//" ++ body ++ [nl]) ++ rest) in H
    by (now rewrite <- !app_assoc).
  pose proof (lex_all_keeps_glued_comment ty lit body rest Hin Hn) as E. cbv zeta in E.
  rewrite E in H. destruct (lex_all rest); [|discriminate]. inversion H. eauto.
Qed.

(* ------------------------------------------------------------------ *)
(** * the tokens of lex_all tile the source                            *)
(* ------------------------------------------------------------------ *)

(* [covers ty f k]: a token of type ty and fragment f covers exactly the source text k *)
Definition covers (ty : ttype) (f k : bytes) : Prop :=
  match ty with
  | COMMENT => exists eol, k = b "//" ++ f ++ eol /\ (eol = [] \/ eol = [nl] \/ eol = [cr; nl])
  | WS => f = [] /\ k <> [] /\ forallb is_ws k = true
  | QUOTED => exists body, k = dq :: body ++ [dq] /\ closed_body body = true /\ f = decode_doc body
  | _ => k = f          (* keywords included: nothing after the literal is consumed *)
  end.

Lemma eat_eol_cases r e r2 : eat_eol r = (e, r2) -> e = [] \/ e = [nl] \/ e = [cr; nl].
Proof.
  unfold eat_eol. destruct r as [|c r]; [intros H; inversion H; auto|].
  destruct (Ascii.eqb c nl) eqn:E1.
  { apply Ascii.eqb_eq in E1; subst. intros H; inversion H; auto. }
  destruct (Ascii.eqb c cr) eqn:E2; [|intros H; inversion H; auto].
  apply Ascii.eqb_eq in E2; subst. destruct r as [|d r]; [intros H; inversion H; auto|].
  destruct (Ascii.eqb d nl) eqn:E3; [|intros H; inversion H; auto].
  apply Ascii.eqb_eq in E3; subst. intros H; inversion H; auto.
Qed.

Lemma comment_run_covers s bd k r : comment_run s = Some (bd, k, r) -> covers COMMENT bd k.
Proof.
  unfold comment_run. destruct (strip_prefix (b "//") s) as [r0|]; [|discriminate].
  destruct (until_eol r0) as [a r1]. destruct (eat_eol r1) as [e r2] eqn:E.
  intros H; inversion H; subst. exists e. split; [reflexivity|]. eapply eat_eol_cases; eauto.
Qed.

Lemma run_rec_covers r s ty f k rest :
  run_rec r s = RComplete ty f k rest -> rec_wf r = true -> covers ty f k.
Proof.
  intros H Hwf. destruct r; cbn [run_rec] in H.
  - destruct s as [|c s]; [discriminate|]. destruct (Ascii.eqb c dq) eqn:Ec; [|discriminate].
    destruct (escq false s) as [[[f' k'] r']|] eqn:E; [|discriminate]. inversion H; subst.
    apply Ascii.eqb_eq in Ec; subst c. destruct (escq_inv _ _ _ _ _ E) as (body & -> & Hc & ->).
    exists body. auto.
  - destruct (strip_prefix (b lit) s); [|discriminate]. inversion H; subst.
    cbn in Hwf. apply andb_true_iff in Hwf as [_ Hp]. destruct ty; try discriminate; reflexivity.
  - cbn in Hwf. apply andb_true_iff in Hwf as [_ Hp].
    destruct (strip_prefix (b lit) s) as [r1|]; [|discriminate].
    unfold kw_lookahead_only in H.
    destruct (ws_run r1) as [[? ?]|].
    + inversion H; subst. destruct ty; try discriminate; reflexivity.
    + destruct (comment_run r1) as [[[? ?] ?]|]; [|discriminate].
      inversion H; subst. destruct ty; try discriminate; reflexivity.
  - destruct s as [|c s]; [discriminate|]. destruct (is_digit c); [|discriminate].
    destruct (span is_digit (c :: s)). inversion H; subst. reflexivity.
  - destruct (comment_run s) as [[[bd k'] r']|] eqn:E; [|discriminate]. inversion H; subst.
    eapply comment_run_covers; eauto.
  - destruct s as [|c s]; [discriminate|]. destruct (is_alpha c); [|discriminate].
    destruct (span is_symbol_char (c :: s)). inversion H; subst. reflexivity.
  - destruct (ws_run s) as [[k' r']|] eqn:E; [|discriminate]. inversion H; subst.
    split; [reflexivity|]. split; [now apply ws_run_app in E as [_ ?]|].
    unfold ws_run in E. destruct s as [|c s]; [discriminate|]. destruct (is_ws c); [|discriminate].
    injection E as E. exact (span_all is_ws (c :: s) k rest E).
  - destruct s; [|discriminate]. inversion H; subst. reflexivity.
Qed.

Lemma first_raw_covers s ty f k rest : first_raw s = RComplete ty f k rest -> covers ty f k.
Proof.
  intros H. apply alt_complete in H as (r & Hin & H). eapply run_rec_covers; eauto.
  pose proof recognisers_wf as W. rewrite forallb_forall in W. now apply W.
Qed.

(* token t starts at byte o of src, is what `token` recognises there, and covers the text k *)
Definition tok_step (src : bytes) (o : nat) (t : token) (k : bytes) : Prop :=
  N.to_nat (off t) = o /\
  first_raw (skipn o src) = RComplete (typ t) (frag t) k (skipn (o + List.length k) src) /\
  covers (typ t) (frag t) k.

Fixpoint tiles (src : bytes) (o : nat) (body : list token) (ks : list bytes) : Prop :=
  match body, ks with
  | [], [] => True
  | t :: body', k :: ks' => tok_step src o t k /\ tiles src (o + List.length k) body' ks'
  | _, _ => False
  end.

Lemma skipn_app_exact {A} (a c : list A) : skipn (List.length a) (a ++ c) = c.
Proof. rewrite skipn_app, Nat.sub_diag, skipn_all. reflexivity. Qed.

Lemma lex_from_tiles fuel : forall pre s l,
  lex_from fuel (pos_of pre) s = LexOk l ->
  exists body e ks, l = body ++ [e] /\ e = mk_tok END [] (pos_of (pre ++ s)) /\
                    List.concat ks = s /\ tiles (pre ++ s) (List.length pre) body ks.
Proof.
  induction fuel as [|fuel IH]; intros pre s l H.
  - destruct s; cbn in H; [|discriminate]. inversion H; subst. exists [], (mk_tok END [] (pos_of pre)), [].
    rewrite app_nil_r. cbn. auto.
  - destruct s as [|c s].
    + cbn in H. inversion H; subst. exists [], (mk_tok END [] (pos_of pre)), [].
      rewrite app_nil_r. cbn. auto.
    + cbn [lex_from] in H. unfold first_tok in H.
      destruct (first_raw (c :: s)) as [ty f k rest| |] eqn:E; try discriminate.
      rewrite advance_pos_of in H.
      destruct (lex_from fuel (pos_of (pre ++ k)) rest) as [l'| |] eqn:El; try discriminate.
      inversion H; subst l; clear H.
      pose proof (first_raw_app _ _ _ _ _ E) as Happ.
      destruct (IH _ _ _ El) as (body & e & ks & -> & He & Hc & Ht).
      rewrite <- app_assoc, <- Happ in He, Ht. rewrite app_length in Ht.
      exists (mk_tok ty f (pos_of pre) :: body), e, (k :: ks). repeat split; auto.
      * cbn. now rewrite Hc.
      * cbn [mk_tok off pos_of p_off]. now rewrite Nnat.Nat2N.id.
      * cbn [mk_tok typ frag]. rewrite skipn_app_exact.
        rewrite Happ at 2. rewrite app_assoc, <- app_length, skipn_app_exact. exact E.
      * eapply first_raw_covers; eauto.
Qed.

(* lex_all_tiles: the consumed texts of the tokens, in order, are the source: no byte is
   skipped, no byte belongs to two tokens; each token is what `token` recognises at its offset;
   the final END sits at the end. *)
Theorem lex_all_tiles : forall src toks, lex_all src = Some toks ->
  exists body e ks, toks = body ++ [e] /\ e = mk_tok END [] (pos_of src) /\
                    List.concat ks = src /\ tiles src 0 body ks.
Proof.
  intros src toks H. unfold lex_all, lex_fuel in H.
  destruct (lex_from (List.length src + 1) ps0 src) as [l| |] eqn:E; try discriminate.
  inversion H; subst. rewrite pos_of_nil in E. exact (lex_from_tiles _ [] src toks E).
Qed.

Lemma tiles_in src : forall body o ks t, tiles src o body ks -> In t body ->
  exists o' k, tok_step src o' t k.
Proof.
  induction body as [|t0 body IH]; intros o ks t Ht Hin; [contradiction|].
  destruct ks as [|k ks]; [contradiction|]. destruct Ht as [Hs Ht].
  destruct Hin as [<-|Hin]; [eauto|]. eapply IH; eauto.
Qed.

(* every token of lex_all is what `token` recognises at its own offset *)
Corollary lex_all_token_at_offset : forall src toks t, lex_all src = Some toks -> In t toks ->
  typ t <> END ->
  exists k, first_raw (skipn (N.to_nat (off t)) src) =
            RComplete (typ t) (frag t) k (skipn (N.to_nat (off t) + List.length k) src)
            /\ covers (typ t) (frag t) k.
Proof.
  intros src toks t H Hin Hty. destruct (lex_all_tiles _ _ H) as (body & e & ks & -> & He & _ & Ht).
  apply in_app_or in Hin as [Hin|[<-|[]]]; [|subst e; cbn in Hty; congruence].
  destruct (tiles_in _ _ _ _ _ Ht Hin) as (o & k & Ho & Hf & Hc). subst o. eauto.
Qed.

(* COMMENT completeness at token boundaries: a token that starts where the source reads
   "//" body LF is a COMMENT token whose fragment is that comment's text -- after a keyword
   as after anything else *)
Theorem comment_at_boundary_is_token : forall src toks t pre body rest,
  lex_all src = Some toks -> In t toks ->
  src = pre ++ b "//" ++ body ++ nl :: rest -> no_nl body = true ->
  N.to_nat (off t) = List.length pre ->
  typ t = COMMENT /\ frag t = chomp_cr body.
Proof.
  intros src toks t pre body rest H Hin Hsrc Hn Hoff.
  assert (Hty : typ t <> END).
  { intros Hend. destruct (lex_all_tiles _ _ H) as (bd & e & ks & -> & He & _ & _).
    pose proof (positions_exact_all _ _ H) as [Hall _]. rewrite Forall_forall in Hall.
    destruct (Hall t Hin) as (_ & _ & _ & Htxt). rewrite Hend in Htxt. cbn in Htxt.
    destruct Htxt as [_ Hs]. rewrite Hoff, Hsrc, skipn_app_exact in Hs. discriminate. }
  destruct (lex_all_token_at_offset _ _ _ H Hin Hty) as (k & Hf & _).
  rewrite Hoff, Hsrc, skipn_app_exact in Hf.
  rewrite (first_raw_comment _ _ _ _ (comment_item_run_exact body rest Hn)) in Hf.
  inversion Hf. auto.
Qed.

Print Assumptions first_raw_keyword.
Print Assumptions lex_all_keeps_glued_comment.
Print Assumptions glued_comment_is_token.
Print Assumptions lex_all_tiles.
Print Assumptions lex_all_token_at_offset.
Print Assumptions comment_at_boundary_is_token.
