(* Proofs about the tokenizer model Lex.v (property C11). *)
From Coq Require Import Sorting.Sorted.
From Ucg Require Import base.Bytes base.Bytes_Lemmas lex.Lex_Types lex.Vocab lex.Lex.
From UcgGen Require Import LexVocab.
Local Open Scope list_scope.

(* ================================================================== *)
(** * 0. Enumerating the 256 bytes                                     *)
(* ================================================================== *)

Definition all_bytes : list ascii := map ascii_of_nat (seq 0 256).

Lemma all_bytes_complete : forall c : ascii, In c all_bytes.
Proof.
  intros c. unfold all_bytes. apply in_map_iff. exists (nat_of_ascii c). split.
  - apply ascii_nat_embedding.
  - apply in_seq. pose proof (nat_ascii_bounded c). lia.
Qed.

Lemma forall_bytes (P : ascii -> bool) :
  forallb P all_bytes = true -> forall c, P c = true.
Proof. intros H c. rewrite forallb_forall in H. apply H, all_bytes_complete. Qed.

(* ================================================================== *)
(** * 1. Structural facts about the scanners                           *)
(* ================================================================== *)

Lemma span_app p s a r : span p s = (a, r) -> s = a ++ r.
Proof.
  revert a r; induction s as [|c s IH]; cbn; intros a r H.
  - inversion H; reflexivity.
  - destruct (p c).
    + destruct (span p s) as [a' r'] eqn:E. inversion H; subst. cbn. f_equal. apply IH; reflexivity.
    + inversion H; reflexivity.
Qed.

Lemma span_all p s a r : span p s = (a, r) -> forallb p a = true.
Proof.
  revert a r; induction s as [|c s IH]; cbn; intros a r H.
  - inversion H; reflexivity.
  - destruct (p c) eqn:Ep.
    + destruct (span p s) as [a' r'] eqn:E. inversion H; subst. cbn. rewrite Ep. eapply IH; reflexivity.
    + inversion H; reflexivity.
Qed.

Lemma span_stop p s a r : span p s = (a, r) ->
  match r with [] => True | c :: _ => p c = false end.
Proof.
  revert a r; induction s as [|c s IH]; cbn; intros a r H.
  - inversion H; exact I.
  - destruct (p c) eqn:Ep.
    + destruct (span p s) as [a' r'] eqn:E. inversion H; subst. eapply IH; reflexivity.
    + inversion H; subst. exact Ep.
Qed.

Lemma span_head p c s : p c = true -> exists a r, span p (c :: s) = (c :: a, r).
Proof. intros H; cbn; rewrite H. destruct (span p s) as [a r]; eauto. Qed.

(* characterisation: a run of p-bytes followed by a stop *)
Lemma span_spec p a r :
  forallb p a = true -> match r with [] => True | c :: _ => p c = false end ->
  span p (a ++ r) = (a, r).
Proof.
  intros Ha Hr; induction a as [|c a IH]; cbn in *.
  - destruct r as [|c r]; [reflexivity|]. cbn. rewrite Hr; reflexivity.
  - apply andb_true_iff in Ha as [Hc Ha]. rewrite Hc, (IH Ha). reflexivity.
Qed.

Lemma until_eol_app s a r : until_eol s = (a, r) -> s = a ++ r.
Proof.
  revert a r; induction s as [|c s IH]; cbn; intros a r H.
  - inversion H; reflexivity.
  - match type of H with context [if ?x then _ else _] => destruct x end.
    + inversion H; reflexivity.
    + destruct (until_eol s) as [a' r'] eqn:E. inversion H; subst. cbn; f_equal. apply IH; reflexivity.
Qed.

Lemma eat_eol_app s a r : eat_eol s = (a, r) -> s = a ++ r.
Proof.
  unfold eat_eol. destruct s as [|c s]; intros H.
  - inversion H; reflexivity.
  - destruct (Ascii.eqb c nl); [inversion H; reflexivity|].
    destruct (Ascii.eqb c cr); [|inversion H; reflexivity].
    destruct s as [|d s]; [inversion H; reflexivity|].
    destruct (Ascii.eqb d nl); inversion H; reflexivity.
Qed.

Lemma escq_app e s f k r : escq e s = Some (f, k, r) -> s = k ++ r /\ k <> [].
Proof.
  revert e f k r; induction s as [|c s IH]; cbn; intros e f k r H; [discriminate|].
  destruct e.
  - destruct (escq false s) as [[[f' k'] r']|] eqn:E; [|discriminate].
    inversion H; subst. destruct (IH _ _ _ _ E) as [-> _]. split; [reflexivity|discriminate].
  - destruct (Ascii.eqb c bsl).
    + destruct (escq true s) as [[[f' k'] r']|] eqn:E; [|discriminate].
      inversion H; subst. destruct (IH _ _ _ _ E) as [-> _]. split; [reflexivity|discriminate].
    + destruct (Ascii.eqb c dq).
      * inversion H; subst. split; [reflexivity|discriminate].
      * destruct (escq false s) as [[[f' k'] r']|] eqn:E; [|discriminate].
        inversion H; subst. destruct (IH _ _ _ _ E) as [-> _]. split; [reflexivity|discriminate].
Qed.

Lemma ws_run_app s k r : ws_run s = Some (k, r) -> s = k ++ r /\ k <> [].
Proof.
  unfold ws_run. destruct s as [|c s]; [discriminate|].
  destruct (is_ws c) eqn:E; [|discriminate]. intros H; injection H as H1.
  split; [eapply span_app; eauto|].
  rewrite E in H1. destruct (span is_ws s). inversion H1; discriminate.
Qed.

Lemma comment_run_app s body k r :
  comment_run s = Some (body, k, r) -> s = k ++ r /\ k <> [].
Proof.
  unfold comment_run. destruct (strip_prefix (b "//") s) as [r0|] eqn:E; [|discriminate].
  apply strip_prefix_some in E.
  destruct (until_eol r0) as [bd r1] eqn:E1. destruct (eat_eol r1) as [eol r2] eqn:E2.
  intros H; inversion H; subst. apply until_eol_app in E1. apply eat_eol_app in E2. subst.
  split; [|discriminate]. cbn. now rewrite <- app_assoc.
Qed.

(* ================================================================== *)
(** * 2. Well-formedness of the recogniser table (checked by computation) *)
(* ================================================================== *)

Definition plain_type (t : ttype) : bool :=
  match t with EMPTY | BOOLEAN | DIGIT | BAREWORD | PUNCT => true | _ => false end.

(* literals are non-empty and carry one of the "plain text" token types *)
Definition rec_wf (r : recogniser) : bool :=
  match r with
  | RText t lit | RTextWS t lit => (negb (bytes_eqb (b lit) []) && plain_type t)%bool
  | _ => true
  end.

Lemma recognisers_wf : forallb rec_wf recognisers = true.
Proof. vm_compute. reflexivity. Qed.

(* a completed recogniser splits the input; on non-empty input it consumes
   at least one byte *)
Lemma run_rec_app r s ty f k rest :
  run_rec r s = RComplete ty f k rest -> s = k ++ rest.
Proof.
  destruct r; cbn.
  - destruct s as [|c s]; [discriminate|]. destruct (Ascii.eqb c dq); [|discriminate].
    destruct (escq false s) as [[[f' k'] r']|] eqn:E; [|discriminate].
    intros H; inversion H; subst. apply escq_app in E as [-> _]. reflexivity.
  - destruct (strip_prefix (b lit) s) eqn:E; [|discriminate].
    intros H; inversion H; subst. now apply strip_prefix_some.
  - destruct (strip_prefix (b lit) s) as [r1|] eqn:E; [|discriminate]. apply strip_prefix_some in E.
    destruct (ws_run r1) as [[k' r']|] eqn:E1.
    + destruct kw_lookahead_only; intros H; inversion H; subst; [reflexivity|].
      apply ws_run_app in E1 as [-> _]. now rewrite app_assoc.
    + destruct (comment_run r1) as [[[bd k'] r']|] eqn:E2; [|discriminate].
      destruct kw_lookahead_only; intros H; inversion H; subst; [reflexivity|].
      apply comment_run_app in E2 as [-> _]. now rewrite app_assoc.
  - destruct s as [|c s]; [discriminate|]. destruct (is_digit c); [|discriminate].
    destruct (span is_digit (c :: s)) as [d r'] eqn:E. intros H; inversion H; subst. eapply span_app; eauto.
  - destruct (comment_run s) as [[[bd k'] r']|] eqn:E; [|discriminate].
    intros H; inversion H; subst. now apply comment_run_app in E as [-> _].
  - destruct s as [|c s]; [discriminate|]. destruct (is_alpha c); [|discriminate].
    destruct (span is_symbol_char (c :: s)) as [d r'] eqn:E. intros H; inversion H; subst. eapply span_app; eauto.
  - destruct (ws_run s) as [[k' r']|] eqn:E; [|discriminate].
    intros H; inversion H; subst. now apply ws_run_app in E as [-> _].
  - destruct s; [|discriminate]. intros H; inversion H; reflexivity.
Qed.

Lemma is_alpha_symbol c : is_alpha c = true -> is_symbol_char c = true.
Proof. unfold is_symbol_char; intros ->; reflexivity. Qed.

Lemma run_rec_progress r s ty f k rest :
  rec_wf r = true -> s <> [] -> run_rec r s = RComplete ty f k rest -> k <> [].
Proof.
  intros Hwf Hs. destruct r; cbn.
  - destruct s as [|c s]; [discriminate|]. destruct (Ascii.eqb c dq); [|discriminate].
    destruct (escq false s) as [[[f' k'] r']|]; [|discriminate]. intros H; inversion H; discriminate.
  - destruct (strip_prefix (b lit) s); [|discriminate]. intros H; inversion H; subst.
    cbn in Hwf. apply andb_true_iff in Hwf as [Hn _]. intros E; rewrite E in Hn; discriminate.
  - cbn in Hwf. apply andb_true_iff in Hwf as [Hn _].
    assert (Hl : b lit <> []) by (intros E; rewrite E in Hn; discriminate).
    destruct (strip_prefix (b lit) s) as [r1|]; [|discriminate].
    destruct (ws_run r1) as [[k' r']|].
    + destruct kw_lookahead_only; intros H; inversion H; subst;
        (destruct (b lit); [congruence|cbn; discriminate]).
    + destruct (comment_run r1) as [[[bd k'] r']|]; [|discriminate].
      destruct kw_lookahead_only; intros H; inversion H; subst;
        (destruct (b lit); [congruence|cbn; discriminate]).
  - destruct s as [|c s]; [discriminate|]. destruct (is_digit c) eqn:Ec; [|discriminate].
    destruct (span_head is_digit c s Ec) as (a & r' & ->). intros H; inversion H; discriminate.
  - destruct (comment_run s) as [[[bd k'] r']|] eqn:E; [|discriminate].
    intros H; inversion H; subst. now apply comment_run_app in E as [_ ?].
  - destruct s as [|c s]; [discriminate|]. destruct (is_alpha c) eqn:Ec; [|discriminate].
    destruct (span_head is_symbol_char c s (is_alpha_symbol c Ec)) as (a & r' & ->).
    intros H; inversion H; discriminate.
  - destruct (ws_run s) as [[k' r']|] eqn:E; [|discriminate].
    intros H; inversion H; subst. now apply ws_run_app in E as [_ ?].
  - destruct s; [congruence|discriminate].
Qed.

Lemma alt_complete rs s ty f k rest :
  alt rs s = RComplete ty f k rest ->
  exists r, In r rs /\ run_rec r s = RComplete ty f k rest.
Proof.
  induction rs as [|r rs IH]; cbn; [discriminate|].
  destruct (run_rec r s) eqn:E; intros H.
  - inversion H; subst. exists r; auto.
  - destruct (IH H) as (r' & Hin & Hr). exists r'; auto.
  - discriminate.
Qed.

Lemma first_raw_app s ty f k rest :
  first_raw s = RComplete ty f k rest -> s = k ++ rest.
Proof. intros H. apply alt_complete in H as (r & _ & H). eapply run_rec_app; eauto. Qed.

Lemma first_raw_progress s ty f k rest :
  s <> [] -> first_raw s = RComplete ty f k rest -> k <> [].
Proof.
  intros Hs H. apply alt_complete in H as (r & Hin & H).
  eapply run_rec_progress; eauto.
  pose proof recognisers_wf as W. rewrite forallb_forall in W. now apply W.
Qed.

(* ================================================================== *)
(** * 3. lex_total : the fuel never runs out                           *)
(* ================================================================== *)

Lemma lex_from_fuel_enough fuel ps s :
  List.length s < fuel -> lex_from fuel ps s <> OutOfFuel.
Proof.
  revert ps s; induction fuel as [|fuel IH]; intros ps s Hlen; [lia|].
  destruct s as [|c s]; cbn [lex_from]; [discriminate|].
  unfold first_tok. destruct (first_raw (c :: s)) as [ty f k rest| |] eqn:E; try discriminate.
  pose proof (first_raw_app _ _ _ _ _ E) as Happ.
  assert (Hne : c :: s <> []) by discriminate.
  pose proof (first_raw_progress _ _ _ _ _ Hne E) as Hk.
  assert (Hlt : List.length rest < fuel).
  { apply (f_equal (@List.length _)) in Happ. rewrite app_length in Happ. cbn in Happ, Hlen.
    destruct k; [congruence|cbn in Happ]. lia. }
  specialize (IH (advance ps k) rest Hlt).
  destruct (lex_from fuel (advance ps k) rest); congruence.
Qed.

Theorem lex_total : forall s, lex_fuel (List.length s + 1) s <> OutOfFuel.
Proof. intros s. apply lex_from_fuel_enough. lia. Qed.

(* consequently lex_all / lex return None exactly when the real tokenizer errs
   (LexErr), never for lack of fuel *)
Corollary lex_all_none_is_error s : lex_all s = None <-> lex_fuel (List.length s + 1) s = LexErr.
Proof.
  unfold lex_all. pose proof (lex_total s).
  destruct (lex_fuel (List.length s + 1) s); split; congruence.
Qed.

(* more fuel does not change the answer *)
Lemma lex_from_fuel_mono fuel fuel' ps s :
  List.length s < fuel -> List.length s < fuel' -> lex_from fuel ps s = lex_from fuel' ps s.
Proof.
  revert fuel' ps s; induction fuel as [|fuel IH]; intros fuel' ps s H1 H2; [lia|].
  destruct fuel' as [|fuel']; [lia|].
  destruct s as [|c s]; cbn [lex_from]; [reflexivity|].
  unfold first_tok. destruct (first_raw (c :: s)) as [ty f k rest| |] eqn:E; try reflexivity.
  pose proof (first_raw_app _ _ _ _ _ E) as Happ.
  assert (Hne : c :: s <> []) by discriminate.
  pose proof (first_raw_progress _ _ _ _ _ Hne E) as Hk.
  assert (Hlt : List.length rest < List.length (c :: s)).
  { rewrite Happ, app_length. destruct k; [congruence|cbn; lia]. }
  cbn in Hlt, H1, H2. rewrite (IH fuel' (advance ps k) rest) by lia. reflexivity.
Qed.

(* ================================================================== *)
(** * 4. String literals                                               *)
(* ================================================================== *)

(* An independent, one-pass, look-ahead decoder of the documented escapes:
   \n \r \t are line feed, carriage return, tab; \<c> is <c> for every other
   byte c; all other bytes are copied. *)
Definition doc_escape (c : ascii) : ascii :=
  match c with
  | "n"%char => nl
  | "r"%char => cr
  | "t"%char => tab
  | _ => c
  end.

Fixpoint decode_doc (s : bytes) : bytes :=
  match s with
  | [] => []
  | c :: r =>
      if Ascii.eqb c bsl then
        match r with
        | [] => []                                  (* dangling backslash: not a body *)
        | d :: r' => doc_escape d :: decode_doc r'
        end
      else c :: decode_doc r
  end.

(* [closed_body s]: s can stand between two quotes: it contains no unescaped
   quote and does not end in the middle of an escape *)
Fixpoint closed_body (s : bytes) : bool :=
  match s with
  | [] => true
  | c :: r =>
      if Ascii.eqb c bsl then
        match r with
        | [] => false
        | _ :: r' => closed_body r'
        end
      else if Ascii.eqb c dq then false
      else closed_body r
  end.

Lemma unescape_doc c : unescape c = doc_escape c.
Proof.
  apply Ascii.eqb_eq. revert c.
  apply (forall_bytes (fun c => Ascii.eqb (unescape c) (doc_escape c))).
  vm_compute. reflexivity.
Qed.

Lemma escq_false_cons c s :
  escq false (c :: s) =
  if Ascii.eqb c bsl then
    match escq true s with Some (f, k, r) => Some (f, c :: k, r) | None => None end
  else if Ascii.eqb c dq then Some ([], [c], s)
  else match escq false s with Some (f, k, r) => Some (c :: f, c :: k, r) | None => None end.
Proof. reflexivity. Qed.

Lemma escq_true_cons c s :
  escq true (c :: s) =
  match escq false s with Some (f, k, r) => Some (unescape c :: f, c :: k, r) | None => None end.
Proof. reflexivity. Qed.

Lemma decode_doc_cons c r :
  decode_doc (c :: r) =
  if Ascii.eqb c bsl then match r with [] => [] | d :: r' => doc_escape d :: decode_doc r' end
  else c :: decode_doc r.
Proof. reflexivity. Qed.

Lemma closed_body_cons c r :
  closed_body (c :: r) =
  if Ascii.eqb c bsl then match r with [] => false | _ :: r' => closed_body r' end
  else if Ascii.eqb c dq then false else closed_body r.
Proof. reflexivity. Qed.

Lemma escq_closed_aux body :
  (closed_body body = true -> forall rest,
     escq false (body ++ dq :: rest) = Some (decode_doc body, body ++ [dq], rest)) /\
  (forall c, closed_body (c :: body) = true -> forall rest,
     escq false ((c :: body) ++ dq :: rest) = Some (decode_doc (c :: body), (c :: body) ++ [dq], rest)).
Proof.
  induction body as [|a body [IH1 IH2]].
  - split.
    + intros _ rest. reflexivity.
    + intros c Hc rest. cbn in Hc |- *.
      destruct (Ascii.eqb c bsl); [discriminate|]. destruct (Ascii.eqb c dq); [discriminate|].
      reflexivity.
  - split; [apply IH2|].
    intros c Hc rest. rewrite closed_body_cons in Hc.
    rewrite <- !app_comm_cons, escq_false_cons, decode_doc_cons.
    destruct (Ascii.eqb c bsl).
    + rewrite escq_true_cons, (IH1 Hc rest), unescape_doc. reflexivity.
    + destruct (Ascii.eqb c dq); [discriminate|].
      rewrite app_comm_cons, (IH2 a Hc rest). reflexivity.
Qed.

(* the model's flag-driven scanner agrees with the look-ahead decoder *)
Lemma escq_closed body rest :
  closed_body body = true ->
  escq false (body ++ dq :: rest) = Some (decode_doc body, body ++ [dq], rest).
Proof. intros H. now apply (proj1 (escq_closed_aux body)). Qed.

(* and conversely every successful scan has that shape *)
Lemma escq_inv s : forall e f k r, escq e s = Some (f, k, r) ->
  if e then exists d body, k = d :: body ++ [dq] /\ closed_body body = true
                           /\ f = doc_escape d :: decode_doc body
  else exists body, k = body ++ [dq] /\ closed_body body = true /\ f = decode_doc body.
Proof.
  induction s as [|c s IH]; intros e f k r H; cbn in H; [discriminate|].
  destruct e.
  - destruct (escq false s) as [[[f' k'] r']|] eqn:E; [|discriminate]. inversion H; subst.
    destruct (IH _ _ _ _ E) as (body & -> & Hc & ->). exists c, body. rewrite unescape_doc. auto.
  - destruct (Ascii.eqb c bsl) eqn:Eb.
    + destruct (escq true s) as [[[f' k'] r']|] eqn:E; [|discriminate]. inversion H; subst.
      destruct (IH _ _ _ _ E) as (d & body & -> & Hc & ->).
      exists (c :: d :: body). cbn. rewrite Eb. auto.
    + destruct (Ascii.eqb c dq) eqn:Eq.
      * inversion H; subst. apply Ascii.eqb_eq in Eq; subst. exists []. auto.
      * destruct (escq false s) as [[[f' k'] r']|] eqn:E; [|discriminate]. inversion H; subst.
        destruct (IH _ _ _ _ E) as (body & -> & Hc & ->).
        exists (c :: body). cbn. rewrite Eb, Eq. auto.
Qed.

(* the table starts with strtok: a source starting with a quote is decided by escq *)
Lemma alt_cons r rs s :
  alt (r :: rs) s = match run_rec r s with RFail => alt rs s | x => x end.
Proof. reflexivity. Qed.

Lemma first_raw_str s :
  first_raw (dq :: s) =
  match escq false s with
  | Some (f, k, rest) => RComplete QUOTED f (dq :: k) rest
  | None => RIncomplete
  end.
Proof.
  unfold first_raw. assert (H : recognisers = RStr :: tl recognisers) by reflexivity.
  rewrite H, alt_cons. cbn [run_rec]. rewrite Ascii.eqb_refl.
  destruct (escq false s) as [[[? ?] ?]|]; reflexivity.
Qed.

(* a source that is exactly one non-trivia token *)
Lemma lex_single s ty f :
  s <> [] -> first_raw s = RComplete ty f s [] ->
  match ty with WS | COMMENT => False | _ => True end ->
  lex s = Some [mk_tok ty f ps0; mk_tok END [] (advance ps0 s)].
Proof.
  intros Hs H Hty. unfold lex, lex_all, lex_fuel. rewrite Nat.add_1_r.
  destruct s as [|c s]; [congruence|]. cbn [lex_from]. unfold first_tok. rewrite H.
  destruct (List.length (c :: s)); cbn [lex_from option_map filter];
    unfold is_trivia; cbn [typ mk_tok]; destruct ty; cbn; try reflexivity; contradiction.
Qed.

(* decode_spec: the value of a literal is the documented decoding of its body *)
Theorem decode_spec : forall body, closed_body body = true ->
  lex (dq :: body ++ [dq]) =
  Some [ mk_tok QUOTED (decode_doc body) ps0
       ; mk_tok END [] (advance ps0 (dq :: body ++ [dq])) ].
Proof.
  intros body Hc. apply lex_single; [discriminate| |exact I].
  rewrite first_raw_str, (escq_closed body [] Hc). reflexivity.
Qed.

(* the same inside any source: one recogniser step *)
Theorem decode_spec_step : forall ps body rest, closed_body body = true ->
  first_tok ps (dq :: body ++ dq :: rest) =
  Some (mk_tok QUOTED (decode_doc body) ps, rest, advance ps (dq :: body ++ [dq])).
Proof.
  intros ps body rest Hc. unfold first_tok.
  rewrite first_raw_str, (escq_closed body rest Hc). reflexivity.
Qed.

(* an unterminated literal is an error *)
Lemma escq_unclosed_aux body :
  (closed_body body = true -> escq false body = None) /\
  (forall c, closed_body (c :: body) = true -> escq false (c :: body) = None).
Proof.
  induction body as [|a body [IH1 IH2]].
  - split; [reflexivity|]. intros c Hc. cbn in Hc |- *.
    destruct (Ascii.eqb c bsl); [discriminate|]. destruct (Ascii.eqb c dq); [discriminate|]. reflexivity.
  - split; [apply IH2|]. intros c Hc. rewrite closed_body_cons in Hc. rewrite escq_false_cons.
    destruct (Ascii.eqb c bsl).
    + rewrite escq_true_cons, (IH1 Hc). reflexivity.
    + destruct (Ascii.eqb c dq); [discriminate|]. rewrite (IH2 a Hc). reflexivity.
Qed.

Theorem unterminated_string_is_error : forall body,
  closed_body body = true -> lex (dq :: body) = None.
Proof.
  intros body Hc. pose proof (proj1 (escq_unclosed_aux body) Hc) as E.
  unfold lex, lex_all, lex_fuel. rewrite Nat.add_1_r. cbn [lex_from]. unfold first_tok.
  rewrite first_raw_str, E. reflexivity.
Qed.

(* string_decode: every byte string survives a round trip through a literal *)
Definition encode_byte (c : ascii) : bytes :=
  if Ascii.eqb c bsl then [bsl; bsl]
  else if Ascii.eqb c dq then [bsl; dq]
  else if Ascii.eqb c nl then [bsl; "n"%char]
  else if Ascii.eqb c cr then [bsl; "r"%char]
  else if Ascii.eqb c tab then [bsl; "t"%char]
  else [c].

Definition encode_str (v : bytes) : bytes := flat_map encode_byte v.

(* minimal variant: only backslash and quote are escaped, everything else
   (line feeds, tabs, non-ASCII bytes ...) is written raw *)
Definition encode_byte_min (c : ascii) : bytes :=
  if Ascii.eqb c bsl then [bsl; bsl]
  else if Ascii.eqb c dq then [bsl; dq]
  else [c].
Definition encode_str_min (v : bytes) : bytes := flat_map encode_byte_min v.

Lemma encode_byte_ok : forall c s,
  closed_body (encode_byte c ++ s) = closed_body s /\
  decode_doc (encode_byte c ++ s) = c :: decode_doc s.
Proof.
  intros c s.
  assert (H : (Ascii.eqb c bsl = true /\ encode_byte c = [bsl; bsl]) \/
              (Ascii.eqb c dq = true /\ encode_byte c = [bsl; dq]) \/
              (Ascii.eqb c nl = true /\ encode_byte c = [bsl; "n"%char]) \/
              (Ascii.eqb c cr = true /\ encode_byte c = [bsl; "r"%char]) \/
              (Ascii.eqb c tab = true /\ encode_byte c = [bsl; "t"%char]) \/
              (Ascii.eqb c bsl = false /\ Ascii.eqb c dq = false /\ encode_byte c = [c])).
  { unfold encode_byte.
    destruct (Ascii.eqb c bsl); [auto|]. destruct (Ascii.eqb c dq); [auto|].
    destruct (Ascii.eqb c nl); [auto 6|]. destruct (Ascii.eqb c cr); [auto 6|].
    destruct (Ascii.eqb c tab); [auto 8|]. auto 10. }
  destruct H as [[E ->]|[[E ->]|[[E ->]|[[E ->]|[[E ->]|(E1 & E2 & ->)]]]]];
    try (apply Ascii.eqb_eq in E; subst c); cbn; try rewrite E1, E2; auto.
Qed.

Lemma encode_byte_min_ok : forall c s,
  closed_body (encode_byte_min c ++ s) = closed_body s /\
  decode_doc (encode_byte_min c ++ s) = c :: decode_doc s.
Proof.
  intros c s. unfold encode_byte_min.
  destruct (Ascii.eqb c bsl) eqn:E1; [apply Ascii.eqb_eq in E1; subst; cbn; auto|].
  destruct (Ascii.eqb c dq) eqn:E2; [apply Ascii.eqb_eq in E2; subst; cbn; auto|].
  cbn. rewrite E1, E2. auto.
Qed.

Lemma encode_str_ok v : closed_body (encode_str v) = true /\ decode_doc (encode_str v) = v.
Proof.
  induction v as [|c v [IH1 IH2]]; [auto|]. cbn [encode_str flat_map].
  destruct (encode_byte_ok c (flat_map encode_byte v)) as [-> ->].
  fold (encode_str v). rewrite IH2. auto.
Qed.

Lemma encode_str_min_ok v :
  closed_body (encode_str_min v) = true /\ decode_doc (encode_str_min v) = v.
Proof.
  induction v as [|c v [IH1 IH2]]; [auto|]. cbn [encode_str_min flat_map].
  destruct (encode_byte_min_ok c (flat_map encode_byte_min v)) as [-> ->].
  fold (encode_str_min v). rewrite IH2. auto.
Qed.

Theorem string_decode : forall v,
  lex (b """" ++ encode_str v ++ b """") =
  Some [ mk_tok QUOTED v ps0
       ; mk_tok END [] (advance ps0 (b """" ++ encode_str v ++ b """")) ].
Proof.
  intros v. destruct (encode_str_ok v) as [Hc Hd].
  change (b """" ++ encode_str v ++ b """") with (dq :: encode_str v ++ [dq]).
  rewrite (decode_spec _ Hc), Hd. reflexivity.
Qed.

Theorem string_decode_min : forall v,
  lex (b """" ++ encode_str_min v ++ b """") =
  Some [ mk_tok QUOTED v ps0
       ; mk_tok END [] (advance ps0 (b """" ++ encode_str_min v ++ b """")) ].
Proof.
  intros v. destruct (encode_str_min_ok v) as [Hc Hd].
  change (b """" ++ encode_str_min v ++ b """") with (dq :: encode_str_min v ++ [dq]).
  rewrite (decode_spec _ Hc), Hd. reflexivity.
Qed.

(* ================================================================== *)
(** * 5. Positions                                                     *)
(* ================================================================== *)

(* Specification-level notions, independent of the iterator state machine *)
Definition is_nl (c : ascii) : bool := Ascii.eqb c nl.
(* number of line feeds in s *)
Definition count_nl (s : bytes) : nat := List.length (filter is_nl s).
(* number of bytes after the last line feed of s (all of s if there is none) *)
Definition since_nl (s : bytes) : nat :=
  List.length (fst (span (fun c => negb (is_nl c)) (rev s))).

Definition pos_of (pre : bytes) : pos_state :=
  {| p_line := N.of_nat (1 + count_nl pre);
     p_col := N.of_nat (1 + since_nl pre);
     p_off := N.of_nat (List.length pre) |}.

Lemma pos_of_nil : ps0 = pos_of [].
Proof. reflexivity. Qed.

Lemma count_nl_snoc pre c :
  count_nl (pre ++ [c]) = if is_nl c then S (count_nl pre) else count_nl pre.
Proof.
  unfold count_nl. rewrite filter_app, app_length. cbn. destruct (is_nl c); cbn; lia.
Qed.

Lemma since_nl_snoc pre c :
  since_nl (pre ++ [c]) = if is_nl c then 0 else S (since_nl pre).
Proof.
  unfold since_nl. rewrite rev_app_distr. cbn. destruct (is_nl c); cbn; [reflexivity|].
  destruct (span _ (rev pre)); reflexivity.
Qed.

Lemma pos_of_snoc pre c : advance1 (pos_of pre) c = pos_of (pre ++ [c]).
Proof.
  unfold advance1, pos_of. cbn [p_line p_col p_off].
  rewrite count_nl_snoc, since_nl_snoc, app_length. unfold is_nl. cbn [List.length].
  destruct (Ascii.eqb c nl); f_equal; lia.
Qed.

Lemma advance_pos_of k : forall pre, advance (pos_of pre) k = pos_of (pre ++ k).
Proof.
  induction k as [|c k IH]; intros pre.
  - now rewrite app_nil_r.
  - unfold advance. cbn [fold_left]. rewrite pos_of_snoc. fold (advance (pos_of (pre ++ [c])) k).
    rewrite IH, <- app_assoc. reflexivity.
Qed.

(* the iterator state after any prefix is the specified position of that prefix *)
Lemma advance_spec pre : advance ps0 pre = pos_of pre.
Proof. rewrite pos_of_nil, advance_pos_of. reflexivity. Qed.

(* What "the token's text really starts at this place" means, per token type.
   [s] is the source from the token's offset on. *)
Definition no_nl (f : bytes) : bool := forallb (fun c => negb (is_nl c)) f.

Definition at_line_end (s : bytes) : Prop :=
  match s with
  | [] => True
  | c :: r => c = nl \/ (c = cr /\ starts_with_nl r = true)
  end.

Definition text_at (ty : ttype) (f : bytes) (s : bytes) : Prop :=
  match ty with
  | QUOTED =>   (* opening quote at the offset; value = decoded body *)
      exists body rest, s = dq :: body ++ dq :: rest /\ closed_body body = true /\ f = decode_doc body
  | COMMENT =>  (* "//" at the offset; fragment = text up to the line end *)
      exists rest, s = b "//" ++ f ++ rest /\ no_nl f = true /\ at_line_end rest
  | WS =>       (* a whitespace byte at the offset; fragment empty *)
      f = [] /\ exists c r, s = c :: r /\ is_ws c = true
  | END =>      (* end of the source *)
      f = [] /\ s = []
  | PIPEQUOTE => False
  | EMPTY | BOOLEAN | DIGIT | BAREWORD | PUNCT =>   (* the fragment itself, verbatim *)
      f <> [] /\ exists rest, s = f ++ rest
  end.

Lemma plain_text_at ty f s :
  plain_type ty = true -> f <> [] -> (exists rest, s = f ++ rest) -> text_at ty f s.
Proof. destruct ty; cbn; try discriminate; auto. Qed.

Lemma until_eol_cons c s :
  until_eol (c :: s) =
  if (Ascii.eqb c nl || (Ascii.eqb c cr && starts_with_nl s))%bool then ([], c :: s)
  else let (a, r) := until_eol s in (c :: a, r).
Proof. reflexivity. Qed.

Lemma until_eol_spec s a r :
  until_eol s = (a, r) -> no_nl a = true /\ at_line_end r.
Proof.
  revert a r; induction s as [|c s IH]; intros a r H.
  - cbn in H. inversion H; subst. cbn; auto.
  - rewrite until_eol_cons in H. destruct (Ascii.eqb c nl) eqn:E1; cbn [orb] in H.
    + inversion H; subst. split; [reflexivity|]. left. now apply Ascii.eqb_eq.
    + destruct (Ascii.eqb c cr && starts_with_nl s)%bool eqn:E2.
      * inversion H; subst. split; [reflexivity|]. right.
        apply andb_true_iff in E2 as [E2 E3]. apply Ascii.eqb_eq in E2. auto.
      * destruct (until_eol s) as [a' r'] eqn:E. inversion H; subst.
        destruct (IH _ _ eq_refl) as [Ha Hr]. split; [|exact Hr].
        cbn. unfold is_nl. rewrite E1. exact Ha.
Qed.

Lemma comment_run_text s body k r :
  comment_run s = Some (body, k, r) ->
  exists rest, s = b "//" ++ body ++ rest /\ no_nl body = true /\ at_line_end rest.
Proof.
  unfold comment_run. destruct (strip_prefix (b "//") s) as [r0|] eqn:E; [|discriminate].
  apply strip_prefix_some in E.
  destruct (until_eol r0) as [bd r1] eqn:E1. destruct (eat_eol r1) as [eol r2] eqn:E2.
  intros H; inversion H; subst. destruct (until_eol_spec _ _ _ E1) as [Hn Hl].
  apply until_eol_app in E1. subst. exists r1. auto.
Qed.

Lemma run_rec_text r s ty f k rest :
  rec_wf r = true -> run_rec r s = RComplete ty f k rest -> text_at ty f s.
Proof.
  intros Hwf. destruct r; cbn [run_rec].
  - destruct s as [|c s]; [discriminate|]. destruct (Ascii.eqb c dq) eqn:Ec; [|discriminate].
    destruct (escq false s) as [[[f' k'] r']|] eqn:E; [|discriminate].
    intros H; inversion H; subst. apply Ascii.eqb_eq in Ec; subst c.
    pose proof (escq_app _ _ _ _ _ E) as [-> _].
    destruct (escq_inv _ _ _ _ _ E) as (body & -> & Hc & ->).
    exists body, rest. rewrite <- app_assoc. auto.
  - cbn in Hwf. apply andb_true_iff in Hwf as [Hn Hp].
    destruct (strip_prefix (b lit) s) eqn:E; [|discriminate].
    intros H; inversion H; subst. apply strip_prefix_some in E.
    apply plain_text_at; eauto. intros E'; rewrite E' in Hn; discriminate.
  - cbn in Hwf. apply andb_true_iff in Hwf as [Hn Hp].
    destruct (strip_prefix (b lit) s) as [r1|] eqn:E; [|discriminate]. apply strip_prefix_some in E.
    assert (Hl : b lit <> []) by (intros E'; rewrite E' in Hn; discriminate).
    destruct (ws_run r1) as [[k' r']|].
    + destruct kw_lookahead_only; intros H; inversion H; subst; apply plain_text_at; eauto.
    + destruct (comment_run r1) as [[[bd k'] r']|]; [|discriminate].
      destruct kw_lookahead_only; intros H; inversion H; subst; apply plain_text_at; eauto.
  - destruct s as [|c s]; [discriminate|]. destruct (is_digit c) eqn:Ec; [|discriminate].
    destruct (span_head is_digit c s Ec) as (a & r' & E). rewrite E.
    intros H; inversion H; subst. apply span_app in E. cbn. split; [discriminate|eauto].
  - destruct (comment_run s) as [[[bd k'] r']|] eqn:E; [|discriminate].
    intros H; inversion H; subst. cbn. eapply comment_run_text; eauto.
  - destruct s as [|c s]; [discriminate|]. destruct (is_alpha c) eqn:Ec; [|discriminate].
    destruct (span_head is_symbol_char c s (is_alpha_symbol c Ec)) as (a & r' & E). rewrite E.
    intros H; inversion H; subst. apply span_app in E. cbn. split; [discriminate|eauto].
  - unfold ws_run. destruct s as [|c s]; [discriminate|]. destruct (is_ws c) eqn:Ec; [|discriminate].
    destruct (span is_ws (c :: s)). intros H; inversion H; subst. cbn. eauto.
  - destruct s; [|discriminate]. intros H; inversion H; subst. cbn; auto.
Qed.

Lemma first_raw_text s ty f k rest :
  first_raw s = RComplete ty f k rest -> text_at ty f s.
Proof.
  intros H. apply alt_complete in H as (r & Hin & H). eapply run_rec_text; eauto.
  pose proof recognisers_wf as W. rewrite forallb_forall in W. now apply W.
Qed.

(* the full per-token statement *)
Definition token_ok (src : bytes) (t : token) : Prop :=
  let o := N.to_nat (off t) in
  o <= List.length src /\
  line t = N.of_nat (1 + count_nl (firstn o src)) /\
  col t = N.of_nat (1 + since_nl (firstn o src)) /\
  text_at (typ t) (frag t) (skipn o src).

Definition off_lt (t1 t2 : token) : Prop := (off t1 < off t2)%N.

Lemma lex_from_positions fuel : forall pre s l,
  lex_from fuel (pos_of pre) s = LexOk l ->
  Forall (fun t => token_ok (pre ++ s) t /\ List.length pre <= N.to_nat (off t)) l /\
  StronglySorted off_lt l.
Proof.
  induction fuel as [|fuel IH]; intros pre s l H.
  - destruct s; cbn in H; [|discriminate]. inversion H; subst; clear H.
    split; [|repeat constructor].
    constructor; [|constructor]. unfold token_ok. cbn [mk_tok off line col typ frag pos_of p_off p_line p_col].
    rewrite Nnat.Nat2N.id, app_nil_r, firstn_all, skipn_all. cbn. auto 10.
  - destruct s as [|c s].
    + cbn in H. inversion H; subst; clear H. split; [|repeat constructor].
      constructor; [|constructor]. unfold token_ok. cbn [mk_tok off line col typ frag pos_of p_off p_line p_col].
      rewrite Nnat.Nat2N.id, app_nil_r, firstn_all, skipn_all. cbn. auto 10.
    + cbn [lex_from] in H. unfold first_tok in H.
      destruct (first_raw (c :: s)) as [ty f k rest| |] eqn:E; try discriminate.
      pose proof (first_raw_app _ _ _ _ _ E) as Happ.
      assert (Hne : c :: s <> []) by discriminate.
      pose proof (first_raw_progress _ _ _ _ _ Hne E) as Hk.
      pose proof (first_raw_text _ _ _ _ _ E) as Ht.
      rewrite advance_pos_of in H.
      destruct (lex_from fuel (pos_of (pre ++ k)) rest) as [l'| |] eqn:El; try discriminate.
      inversion H; subst l; clear H.
      destruct (IH _ _ _ El) as [Hall Hsort].
      rewrite Happ. rewrite <- app_assoc in Hall.
      assert (Hlen : List.length pre < List.length (pre ++ k)).
      { rewrite app_length. destruct k; [congruence|cbn; lia]. }
      split.
      * constructor.
        -- split; [|cbn; rewrite Nnat.Nat2N.id; lia].
           unfold token_ok. cbn [mk_tok off line col typ frag pos_of p_off p_line p_col].
           rewrite Nnat.Nat2N.id. rewrite firstn_app, Nat.sub_diag, firstn_all, firstn_O, app_nil_r.
           rewrite skipn_app, Nat.sub_diag, skipn_all. cbn [skipn app].
           rewrite app_length. rewrite <- Happ. repeat split; auto; lia.
        -- eapply Forall_impl; [|exact Hall]. cbn. intros t [Hok Hoff]. split; [exact Hok|lia].
      * constructor; [exact Hsort|].
        eapply Forall_impl; [|exact Hall]. cbn. intros t [_ Hoff]. unfold off_lt. cbn [mk_tok off pos_of p_off].
        lia.
Qed.

Lemma StronglySorted_filter {A} (R : A -> A -> Prop) (p : A -> bool) l :
  StronglySorted R l -> StronglySorted R (filter p l).
Proof.
  induction 1 as [|a l Hs IH Hall]; cbn; [constructor|].
  destruct (p a); [|exact IH]. constructor; [exact IH|].
  rewrite Forall_forall in *. intros x Hx. apply filter_In in Hx as [Hx _]. auto.
Qed.

Lemma Forall_filter {A} (P : A -> Prop) (p : A -> bool) l :
  Forall P l -> Forall P (filter p l).
Proof.
  rewrite !Forall_forall. intros H x Hx. apply filter_In in Hx as [Hx _]. auto.
Qed.

(* positions_exact, for the stream with WS/COMMENT tokens ... *)
Theorem positions_exact_all : forall src toks, lex_all src = Some toks ->
  Forall (token_ok src) toks /\ StronglySorted off_lt toks.
Proof.
  intros src toks H. unfold lex_all, lex_fuel in H.
  destruct (lex_from (List.length src + 1) ps0 src) as [l| |] eqn:E; try discriminate.
  inversion H; subst. rewrite pos_of_nil in E. apply lex_from_positions in E as [Hall Hs].
  split; [|exact Hs]. eapply Forall_impl; [|exact Hall]. cbn. tauto.
Qed.

(* ... and for what tokenize(.., None) returns.  It also holds of the END token. *)
Theorem positions_exact : forall src toks, lex src = Some toks ->
  Forall (token_ok src) toks /\ StronglySorted off_lt toks.
Proof.
  intros src toks H. unfold lex in H. destruct (lex_all src) as [l|] eqn:E; [|discriminate].
  inversion H; subst. apply positions_exact_all in E as [Hall Hs]. split.
  - now apply Forall_filter.
  - now apply StronglySorted_filter.
Qed.

(* ================================================================== *)
(** * 6. Deciding recognisers from a finite prefix                     *)
(* ================================================================== *)

(* [lit_mismatch l p]: l and p differ at a position inside both, so l is not a
   prefix of any extension of p *)
Fixpoint lit_mismatch (l p : bytes) : bool :=
  match l, p with
  | c :: l', d :: p' => if Ascii.eqb c d then lit_mismatch l' p' else true
  | _, _ => false
  end.

Lemma lit_mismatch_sound l : forall p rest,
  lit_mismatch l p = true -> strip_prefix l (p ++ rest) = None.
Proof.
  induction l as [|c l IH]; intros [|d p] rest; cbn; try discriminate.
  destruct (Ascii.eqb c d); [apply IH|reflexivity].
Qed.

Lemma strip_prefix_ext l : forall p q rest,
  strip_prefix l p = Some q -> strip_prefix l (p ++ rest) = Some (q ++ rest).
Proof.
  induction l as [|c l IH]; intros p q rest; cbn.
  - intros H; inversion H; reflexivity.
  - destruct p as [|d p]; [discriminate|]. cbn. destruct (Ascii.eqb c d); [apply IH|discriminate].
Qed.

Definition head_is (p : ascii -> bool) (s : bytes) : bool :=
  match s with c :: _ => p c | [] => false end.

(* [rec_fails r p = true]: recogniser r fails on EVERY input that extends p *)
Definition rec_fails (r : recogniser) (p : bytes) : bool :=
  match r with
  | RStr => head_is (fun c => negb (Ascii.eqb c dq)) p
  | RText _ lit => lit_mismatch (b lit) p
  | RTextWS _ lit =>
      (lit_mismatch (b lit) p ||
       match strip_prefix (b lit) p with
       | Some (c :: p') =>
           negb (is_ws c) &&
           (negb (Ascii.eqb c slash) || head_is (fun d => negb (Ascii.eqb d slash)) p')
       | _ => false
       end)%bool
  | RDigit => head_is (fun c => negb (is_digit c)) p
  | RComment => lit_mismatch (b "//") p
  | RBareword => head_is (fun c => negb (is_alpha c)) p
  | RWhitespace => head_is (fun c => negb (is_ws c)) p
  | REoi => head_is (fun _ => true) p
  end.

Lemma rec_fails_sound r p rest : rec_fails r p = true -> run_rec r (p ++ rest) = RFail.
Proof.
  destruct r; cbn [rec_fails run_rec].
  - destruct p as [|c p]; [discriminate|]. cbn. destruct (Ascii.eqb c dq); [discriminate|reflexivity].
  - intros H. now rewrite (lit_mismatch_sound _ _ rest H).
  - intros H. apply orb_true_iff in H as [H|H].
    + now rewrite (lit_mismatch_sound _ _ rest H).
    + destruct (strip_prefix (b lit) p) as [[|c p']|] eqn:E; try discriminate.
      rewrite (strip_prefix_ext _ _ _ rest E). apply andb_true_iff in H as [Hw Hs].
      unfold ws_run. cbn [app]. destruct (is_ws c); [discriminate|].
      unfold comment_run. cbn [b list_ascii_of_string strip_prefix].
      fold slash. rewrite Ascii.eqb_sym.
      destruct (Ascii.eqb c slash); [|reflexivity]. cbn in Hs.
      destruct p' as [|d p']; [discriminate|]. cbn [head_is] in Hs. cbn [app].
      rewrite (Ascii.eqb_sym slash d).
      destruct (Ascii.eqb d slash); [discriminate|reflexivity].
  - destruct p as [|c p]; [discriminate|]. cbn. destruct (is_digit c); [discriminate|reflexivity].
  - intros H. unfold comment_run. now rewrite (lit_mismatch_sound _ _ rest H).
  - destruct p as [|c p]; [discriminate|]. cbn. destruct (is_alpha c); [discriminate|reflexivity].
  - destruct p as [|c p]; [discriminate|]. unfold ws_run. cbn. destruct (is_ws c); [discriminate|reflexivity].
  - destruct p as [|c p]; [discriminate|]. reflexivity.
Qed.

(* drop the leading recognisers that are certain to fail *)
Fixpoint skip_failed (rs : list recogniser) (p : bytes) : list recogniser :=
  match rs with
  | [] => []
  | r :: rs' => if rec_fails r p then skip_failed rs' p else rs
  end.

Lemma skip_failed_sound rs p rest : alt rs (p ++ rest) = alt (skip_failed rs p) (p ++ rest).
Proof.
  induction rs as [|r rs IH]; [reflexivity|]. cbn [skip_failed].
  destruct (rec_fails r p) eqn:E; [|reflexivity].
  rewrite alt_cons, (rec_fails_sound _ _ rest E). exact IH.
Qed.

(* if, after skipping, a plain text token with literal p is first, it wins *)
Lemma first_raw_literal ty lit rs' rest :
  skip_failed recognisers (b lit) = RText ty lit :: rs' ->
  first_raw (b lit ++ rest) = RComplete ty (b lit) (b lit) rest.
Proof.
  intros H. unfold first_raw. rewrite skip_failed_sound, H, alt_cons. cbn [run_rec].
  rewrite strip_prefix_app. reflexivity.
Qed.

(* ================================================================== *)
(** * 7. longest_operator                                              *)
(* ================================================================== *)

Definition op_first (o : string) : bool :=
  match skip_failed recognisers (b o) with
  | RText PUNCT lit :: _ => String.eqb lit o
  | _ => false
  end.

Lemma multi_ops_first : forallb op_first multi_ops = true.
Proof. vm_compute. reflexivity. Qed.

(* For each multi-character operator o and EVERY continuation (in particular
   every following byte c and every rest), the first token is o itself: no byte
   makes a different or longer token, and the one-character operator that is a
   prefix of o is never chosen. *)
Theorem longest_operator : forall o, In o multi_ops -> forall ps rest,
  first_tok ps (b o ++ rest) = Some (mk_tok PUNCT (b o) ps, rest, advance ps (b o)).
Proof.
  intros o Hin ps rest. pose proof multi_ops_first as H. rewrite forallb_forall in H.
  specialize (H o Hin). unfold op_first in H.
  destruct (skip_failed recognisers (b o)) as [|[ | ty lit | | | | | | ] rs'] eqn:E; try discriminate.
  destruct ty; try discriminate. apply String.eqb_eq in H; subst lit.
  unfold first_tok. rewrite (first_raw_literal _ _ _ rest E). reflexivity.
Qed.

Corollary longest_operator_byte : forall o, In o multi_ops -> forall ps (c : ascii) rest,
  first_tok ps (b o ++ [c] ++ rest) = Some (mk_tok PUNCT (b o) ps, c :: rest, advance ps (b o)).
Proof. intros o Hin ps c rest. apply (longest_operator o Hin ps (c :: rest)). Qed.

(* the same fact, checked directly on the 11 x 256 inputs o ++ [c] *)
Definition rres_eqb_complete (x : rres) (ty : ttype) (f k rest : bytes) : bool :=
  match x with
  | RComplete ty' f' k' rest' =>
      (match ty, ty' with PUNCT, PUNCT => true | _, _ => false end
       && bytes_eqb f f' && bytes_eqb k k' && bytes_eqb rest rest')%bool
  | _ => false
  end.

Lemma longest_operator_enumerated :
  forallb (fun o => forallb (fun c =>
     rres_eqb_complete (first_raw (b o ++ [c])) PUNCT (b o) (b o) [c]) all_bytes) multi_ops = true.
Proof. vm_compute. reflexivity. Qed.

(* ================================================================== *)
(** * 8. Token kinds, separability, pairs_exhaustive                   *)
(* ================================================================== *)

(* a token without its position *)
Definition tk := (ttype * bytes)%type.
Definition strip (t : token) : tk := (typ t, frag t).
Definition tk_end : tk := (END, []).

(* the canonical source text of a token: a QUOTED value is written as a
   literal with the escapes of [encode_str]; every other token is its fragment *)
Definition src_of (a : tk) : bytes :=
  match fst a with
  | QUOTED => dq :: encode_str (snd a) ++ [dq]
  | _ => snd a
  end.

(* the literal tokens of the vocabulary, read off the recogniser table *)
Definition vocab_tokens : list tk :=
  flat_map (fun r => match r with RText t l | RTextWS t l => [(t, b l)] | _ => [] end) recognisers.

Definition punct_lits : list bytes :=
  flat_map (fun r => match r with RText PUNCT l => [b l] | _ => [] end) recognisers.

(* [needs_sep_byte a c]: token a must not be followed DIRECTLY by byte c,
   because the two would merge into a longer bareword / number / operator, or
   start a comment.  Everything else may be glued on. *)
Definition needs_sep_byte (a : tk) (c : ascii) : bool :=
  match fst a with
  | BAREWORD => is_symbol_char c
  | DIGIT => is_digit c
  | PUNCT => existsb (bytes_eqb (snd a ++ [c])) (b "//" :: punct_lits)
  | _ => false
  end.

(* [needs_sep a b]: a separator is REQUIRED between adjacent tokens a and b;
   [separable a b]: they may be written with nothing in between *)
Definition needs_sep (a b0 : tk) : bool :=
  match src_of b0 with c :: _ => needs_sep_byte a c | [] => false end.
Definition separable (a b0 : tk) : bool := negb (needs_sep a b0).

Definition strip_lex (s : bytes) : option (list tk) := option_map (map strip) (lex s).

Definition ttype_eqb (x y : ttype) : bool :=
  match x, y with
  | EMPTY, EMPTY | BOOLEAN, BOOLEAN | END, END | WS, WS | COMMENT, COMMENT | QUOTED, QUOTED
  | PIPEQUOTE, PIPEQUOTE | DIGIT, DIGIT | BAREWORD, BAREWORD | PUNCT, PUNCT => true
  | _, _ => false
  end.

Lemma ttype_eqb_eq x y : ttype_eqb x y = true <-> x = y.
Proof. destruct x, y; cbn; split; congruence. Qed.

Definition tk_eqb (x y : tk) : bool := (ttype_eqb (fst x) (fst y) && bytes_eqb (snd x) (snd y))%bool.

Lemma tk_eqb_eq x y : tk_eqb x y = true <-> x = y.
Proof.
  destruct x as [t f], y as [t' f']. unfold tk_eqb. cbn.
  rewrite andb_true_iff, ttype_eqb_eq, bytes_eqb_spec. split; [intros [-> ->]; auto|].
  intros H; inversion H; auto.
Qed.

Fixpoint tks_eqb (x y : list tk) : bool :=
  match x, y with
  | [], [] => true
  | a :: x', c :: y' => (tk_eqb a c && tks_eqb x' y')%bool
  | _, _ => false
  end.

Lemma tks_eqb_eq x : forall y, tks_eqb x y = true <-> x = y.
Proof.
  induction x as [|a x IH]; intros [|c y]; cbn; try (split; congruence).
  rewrite andb_true_iff, tk_eqb_eq, IH. split; [intros [-> ->]; auto|]. intros H; inversion H; auto.
Qed.

Definition otks_eqb (x : option (list tk)) (y : list tk) : bool :=
  match x with Some l => tks_eqb l y | None => false end.

Lemma otks_eqb_eq x y : otks_eqb x y = true <-> x = Some y.
Proof.
  destruct x as [l|]; cbn; [rewrite tks_eqb_eq|]; split; congruence.
Qed.

(* tokens that are not literals of the table: barewords, numbers, strings
   (plain, empty, with every escape form, with non-ASCII bytes) *)
Definition sample_tokens : list tk :=
  [ (BAREWORD, b "foo"); (BAREWORD, b "x1"); (BAREWORD, b "a-b_c"); (BAREWORD, b "T");
    (BAREWORD, b "inx"); (BAREWORD, b "lets"); (BAREWORD, b "nulL");
    (DIGIT, b "0"); (DIGIT, b "42"); (DIGIT, b "007");
    (QUOTED, []); (QUOTED, b "s"); (QUOTED, b "a""b\c");
    (QUOTED, [nl; cr; tab; "n"%char]);
    (QUOTED, [ascii_of_nat 195; ascii_of_nat 169; ascii_of_nat 240; ascii_of_nat 159;
              ascii_of_nat 152; ascii_of_nat 128; ascii_of_nat 133; ascii_of_nat 160]) ].

Definition pair_vocab : list tk := vocab_tokens ++ sample_tokens.

(* adjacent: exactly the two tokens iff no separator is needed;
   with one blank: always exactly the two tokens *)
Definition pair_ok (a b0 : tk) : bool :=
  (Bool.eqb (otks_eqb (strip_lex (src_of a ++ src_of b0)) [a; b0; tk_end]) (negb (needs_sep a b0))
   && otks_eqb (strip_lex (src_of a ++ sp :: src_of b0)) [a; b0; tk_end])%bool.

Lemma pairs_check : forallb (fun a => forallb (pair_ok a) pair_vocab) pair_vocab = true.
Proof. vm_compute. reflexivity. Qed.

(* 68 tokens: the 53 literals of the table and 15 samples; 68 * 68 = 4624 pairs,
   each lexed glued and with one blank *)
Lemma pair_vocab_size : List.length pair_vocab = 68 /\ List.length vocab_tokens = 53.
Proof. vm_compute. auto. Qed.

Theorem pairs_exhaustive : forall a b0, In a pair_vocab -> In b0 pair_vocab ->
  (strip_lex (src_of a ++ src_of b0) = Some [a; b0; tk_end] <-> needs_sep a b0 = false) /\
  strip_lex (src_of a ++ sp :: src_of b0) = Some [a; b0; tk_end].
Proof.
  intros a b0 Ha Hb. pose proof pairs_check as H. rewrite forallb_forall in H.
  specialize (H a Ha). rewrite forallb_forall in H. specialize (H b0 Hb).
  unfold pair_ok in H. apply andb_true_iff in H as [H1 H2].
  apply otks_eqb_eq in H2. split; [|exact H2].
  rewrite <- otks_eqb_eq. apply Bool.eqb_prop in H1. rewrite H1.
  destruct (needs_sep a b0); cbn; split; congruence.
Qed.

(* ================================================================== *)
(** * 9. The position-free token stream                                *)
(* ================================================================== *)

Definition trivia_ty (ty : ttype) : bool := match ty with WS | COMMENT => true | _ => false end.

Definition res_strip (r : lex_result) : option (list tk) :=
  match r with
  | LexOk l => Some (map strip (filter (fun t => negb (is_trivia t)) l))
  | _ => None
  end.

Lemma strip_lex_res s : strip_lex s = res_strip (lex_fuel (List.length s + 1) s).
Proof.
  unfold strip_lex, lex, lex_all. destruct (lex_fuel (List.length s + 1) s); reflexivity.
Qed.

(* positions do not influence which tokens are produced *)
Lemma lex_from_strip_indep fuel : forall ps ps' s,
  res_strip (lex_from fuel ps s) = res_strip (lex_from fuel ps' s).
Proof.
  induction fuel as [|fuel IH]; intros ps ps' s.
  - destruct s; reflexivity.
  - destruct s as [|c s]; [reflexivity|]. cbn [lex_from]. unfold first_tok.
    destruct (first_raw (c :: s)) as [ty f k rest| |]; try reflexivity.
    specialize (IH (advance ps k) (advance ps' k) rest).
    destruct (lex_from fuel (advance ps k) rest), (lex_from fuel (advance ps' k) rest);
      cbn in IH |- *; try congruence.
    inversion IH as [H]. unfold is_trivia at 1 3. cbn [typ mk_tok].
    destruct (trivia_ty ty) eqn:Et; destruct ty; cbn in Et; try discriminate; cbn; now rewrite ?H.
Qed.

Lemma strip_lex_nil : strip_lex [] = Some [tk_end].
Proof. reflexivity. Qed.

Lemma strip_lex_step s ty f k rest :
  s <> [] -> first_raw s = RComplete ty f k rest ->
  strip_lex s =
  if trivia_ty ty then strip_lex rest else option_map (cons (ty, f)) (strip_lex rest).
Proof.
  intros Hs H. rewrite !strip_lex_res. unfold lex_fuel. rewrite Nat.add_1_r.
  destruct s as [|c s]; [congruence|]. cbn [lex_from]. unfold first_tok. rewrite H.
  pose proof (first_raw_app _ _ _ _ _ H) as Happ.
  pose proof (first_raw_progress _ _ _ _ _ Hs H) as Hk.
  assert (Hlt : List.length rest < List.length (c :: s)).
  { rewrite Happ, app_length. destruct k; [congruence|cbn; lia]. }
  rewrite (lex_from_fuel_mono (List.length (c :: s)) (List.length rest + 1) _ rest) by lia.
  pose proof (lex_from_strip_indep (List.length rest + 1) (advance ps0 k) ps0 rest) as Hi.
  destruct (lex_from (List.length rest + 1) (advance ps0 k) rest),
           (lex_from (List.length rest + 1) ps0 rest); cbn in Hi |- *;
    try congruence; try (destruct (trivia_ty ty); reflexivity).
  inversion Hi as [Hi']. unfold is_trivia at 1. cbn [typ mk_tok].
  destruct ty; cbn; now rewrite ?Hi'.
Qed.

Lemma strip_lex_fail s :
  s <> [] -> (first_raw s = RFail \/ first_raw s = RIncomplete) -> strip_lex s = None.
Proof.
  intros Hs H. rewrite strip_lex_res. unfold lex_fuel. rewrite Nat.add_1_r.
  destruct s as [|c s]; [congruence|]. cbn [lex_from]. unfold first_tok.
  destruct H as [-> | ->]; reflexivity.
Qed.

(* ================================================================== *)
(** * 10. Whitespace and comments are skipped                          *)
(* ================================================================== *)

Definition starts_nonws (s : bytes) : bool :=
  match s with [] => true | c :: _ => negb (is_ws c) end.

(* finite facts about the table, one per possible first byte *)
Lemma ws_reaches_whitespace :
  forallb (fun c => implb (is_ws c)
     match skip_failed recognisers [c] with RWhitespace :: _ => true | _ => false end) all_bytes = true.
Proof. vm_compute. reflexivity. Qed.

Lemma slashes_reach_comment :
  match skip_failed recognisers (b "//") with RComment :: _ => true | _ => false end = true.
Proof. vm_compute. reflexivity. Qed.

Lemma first_raw_ws c s k rest :
  is_ws c = true -> ws_run (c :: s) = Some (k, rest) ->
  first_raw (c :: s) = RComplete WS [] k rest.
Proof.
  intros Hc Hw. pose proof (forall_bytes _ ws_reaches_whitespace c) as H. cbn beta in H.
  rewrite Hc in H. cbn [implb] in H.
  destruct (skip_failed recognisers [c]) as [|[] rs'] eqn:E; try discriminate.
  unfold first_raw. change (c :: s) with ([c] ++ s). rewrite skip_failed_sound, E, alt_cons.
  cbn [run_rec]. change ([c] ++ s) with (c :: s). rewrite Hw. reflexivity.
Qed.

Lemma first_raw_comment s body k rest :
  comment_run s = Some (body, k, rest) -> first_raw s = RComplete COMMENT body k rest.
Proof.
  intros Hc. pose proof slashes_reach_comment as H.
  destruct (skip_failed recognisers (b "//")) as [|[] rs'] eqn:E; try discriminate.
  assert (Hs : exists s', s = b "//" ++ s').
  { unfold comment_run in Hc. destruct (strip_prefix (b "//") s) as [r|] eqn:Ep; [|discriminate].
    apply strip_prefix_some in Ep. eauto. }
  destruct Hs as [s' ->]. unfold first_raw. rewrite skip_failed_sound, E, alt_cons.
  cbn [run_rec]. rewrite Hc. reflexivity.
Qed.

(* whatever a keyword recogniser swallows after its literal is exactly one
   trivia token of the main loop, so the remaining stream is unchanged *)
Lemma strip_lex_after_ws s k rest :
  ws_run s = Some (k, rest) -> strip_lex rest = strip_lex s.
Proof.
  intros H. destruct s as [|c s]; [discriminate|].
  assert (Hc : is_ws c = true) by (unfold ws_run in H; destruct (is_ws c); [reflexivity|discriminate]).
  assert (Hne : c :: s <> []) by discriminate.
  symmetry. rewrite (strip_lex_step _ _ _ _ _ Hne (first_raw_ws _ _ _ _ Hc H)). reflexivity.
Qed.

Lemma strip_lex_after_comment s body k rest :
  comment_run s = Some (body, k, rest) -> strip_lex rest = strip_lex s.
Proof.
  intros H. assert (Hs : s <> []) by (intros ->; discriminate).
  symmetry. rewrite (strip_lex_step _ _ _ _ _ Hs (first_raw_comment _ _ _ _ H)). reflexivity.
Qed.

(* a block of whitespace bytes in front of something that is not whitespace *)
Lemma strip_lex_ws_block w y :
  forallb is_ws w = true -> starts_nonws y = true -> strip_lex (w ++ y) = strip_lex y.
Proof.
  intros Hw Hy. destruct w as [|c w]; [reflexivity|].
  symmetry. apply (strip_lex_after_ws ((c :: w) ++ y) (c :: w) y).
  unfold ws_run. cbn [app]. cbn in Hw. apply andb_true_iff in Hw as [Hc Hw']. rewrite Hc.
  change (c :: w ++ y) with ((c :: w) ++ y). rewrite span_spec; [reflexivity| |].
  - cbn. now rewrite Hc, Hw'.
  - destruct y as [|d y]; [exact I|]. cbn in Hy. now destruct (is_ws d).
Qed.

(* layout: what may stand between two tokens *)
Inductive sep_item := SSp | STab | SLf | SCrLf | SCmt (body : bytes).

Definition render_item (i : sep_item) : bytes :=
  match i with
  | SSp => [sp]
  | STab => [tab]
  | SLf => [nl]
  | SCrLf => [cr; nl]
  | SCmt body => b "//" ++ body ++ [nl]
  end.

Definition sep := list sep_item.
Definition render_sep (l : sep) : bytes := flat_map render_item l.

(* a comment body must not contain a line feed (it would end the comment early) *)
Definition item_ok (i : sep_item) : bool :=
  match i with SCmt body => no_nl body | _ => true end.
Definition sep_ok (l : sep) : bool := forallb item_ok l.

Lemma until_eol_body body : forall r, no_nl body = true ->
  exists a r1, until_eol (body ++ nl :: r) = (a, r1) /\ (r1 = nl :: r \/ r1 = cr :: nl :: r).
Proof.
  induction body as [|c body IH]; intros r Hn.
  - exists [], (nl :: r). split; [|auto]. cbn [app]. rewrite until_eol_cons, Ascii.eqb_refl. reflexivity.
  - cbn in Hn. apply andb_true_iff in Hn as [Hc Hn]. unfold is_nl in Hc.
    cbn [app]. rewrite until_eol_cons. destruct (Ascii.eqb c nl); [discriminate|]. cbn [orb].
    destruct (Ascii.eqb c cr && starts_with_nl (body ++ nl :: r))%bool eqn:E.
    + apply andb_true_iff in E as [E1 E2]. apply Ascii.eqb_eq in E1; subst c.
      destruct body as [|d body].
      * exists [], (cr :: nl :: r). auto.
      * cbn [app starts_with_nl] in E2. unfold no_nl in Hn. cbn [forallb] in Hn.
        unfold is_nl in Hn at 1. rewrite E2 in Hn. discriminate.
    + destruct (IH r Hn) as (a & r1 & -> & Hr). eauto.
Qed.

Lemma comment_item_run body r : no_nl body = true ->
  exists bd k, comment_run (b "//" ++ body ++ nl :: r) = Some (bd, k, r).
Proof.
  intros Hn. unfold comment_run. rewrite strip_prefix_app.
  destruct (until_eol_body body r Hn) as (a & r1 & -> & [-> | ->]).
  - cbn [eat_eol]. rewrite Ascii.eqb_refl. eauto.
  - cbn [eat_eol]. replace (Ascii.eqb cr nl) with false by reflexivity.
    rewrite !Ascii.eqb_refl. eauto.
Qed.

Lemma render_item_ws i : match i with SCmt _ => True | _ => forallb is_ws (render_item i) = true end.
Proof. destruct i; try exact I; reflexivity. Qed.

(* Lemma A: a separator (preceded by any block of whitespace) is invisible *)
Lemma strip_lex_skip_sep (l : sep) : forall w y,
  sep_ok l = true -> forallb is_ws w = true -> starts_nonws y = true ->
  strip_lex (w ++ render_sep l ++ y) = strip_lex y.
Proof.
  induction l as [|i l IH]; intros w y Hl Hw Hy.
  - cbn [render_sep flat_map app]. now apply strip_lex_ws_block.
  - cbn in Hl. apply andb_true_iff in Hl as [Hi Hl].
    cbn [render_sep flat_map]. fold (render_sep l). rewrite <- app_assoc.
    destruct i as [ | | | |body].
    1-4: rewrite app_assoc; apply IH; auto; rewrite forallb_app, Hw; reflexivity.
    (* a comment *)
    cbn [render_item]. rewrite strip_lex_ws_block; [|exact Hw|reflexivity].
    rewrite <- !app_assoc. cbn [app].
    destruct (comment_item_run body (render_sep l ++ y) Hi) as (bd & k & Hc).
    change (b "//" ++ body ++ nl :: render_sep l ++ y) with (b "//" ++ body ++ nl :: render_sep l ++ y) in Hc.
    rewrite <- (strip_lex_after_comment _ _ _ _ Hc).
    apply (IH [] y Hl eq_refl Hy).
Qed.

Corollary strip_lex_sep l y :
  sep_ok l = true -> starts_nonws y = true -> strip_lex (render_sep l ++ y) = strip_lex y.
Proof. intros Hl Hy. apply (strip_lex_skip_sep l [] y Hl eq_refl Hy). Qed.

(* ================================================================== *)
(** * 11. One token followed by an admissible continuation             *)
(* ================================================================== *)

Definition is_prefix (l s : bytes) : bool :=
  match strip_prefix l s with Some _ => true | None => false end.

(* a letter followed by symbol characters *)
Definition is_word (w : bytes) : bool :=
  match w with c :: w' => (is_alpha c && forallb is_symbol_char w')%bool | [] => false end.

(* some plain text token of the table that starts with a letter (NULL, true,
   false) is a prefix of w: the tokenizer would cut w there *)
Definition reserved_prefix (w : bytes) : bool :=
  existsb (fun r => match r with
                    | RText _ lit => (head_is is_alpha (b lit) && is_prefix (b lit) w)%bool
                    | _ => false
                    end) recognisers.

Definition text_tokens : list tk :=
  flat_map (fun r => match r with RText t l => [(t, b l)] | _ => [] end) recognisers.

(* the (type, text) pairs the tokenizer can produce, END/WS/COMMENT aside *)
Definition wf_tk (a : tk) : bool :=
  match fst a with
  | QUOTED => true
  | DIGIT => (negb (bytes_eqb (snd a) []) && forallb is_digit (snd a))%bool
  | BAREWORD => (is_word (snd a) && negb (reserved_prefix (snd a)))%bool
  | EMPTY | BOOLEAN | PUNCT => existsb (tk_eqb a) text_tokens
  | _ => false
  end.

(* what may directly follow token a *)
Definition follow_ok (a : tk) (x : bytes) : bool :=
  match x with [] => true | c :: _ => negb (needs_sep_byte a c) end.

Definition rres_eqb (x y : rres) : bool :=
  match x, y with
  | RComplete t f k r, RComplete t' f' k' r' =>
      (ttype_eqb t t' && bytes_eqb f f' && bytes_eqb k k' && bytes_eqb r r')%bool
  | RFail, RFail | RIncomplete, RIncomplete => true
  | _, _ => false
  end.

Lemma rres_eqb_eq x y : rres_eqb x y = true -> x = y.
Proof.
  destruct x, y; cbn; try discriminate; auto.
  rewrite !andb_true_iff, ttype_eqb_eq, !bytes_eqb_spec. intros [[[-> ->] ->] ->]. reflexivity.
Qed.

(* ---- plain text tokens: finite check over the table x 256 bytes ---- *)
Definition text_tok_check (r : recogniser) : bool :=
  match r with
  | RText ty lit =>
      (rres_eqb (first_raw (b lit)) (RComplete ty (b lit) (b lit) []) &&
       forallb (fun c => implb (negb (needs_sep_byte (ty, b lit) c))
                  match skip_failed recognisers (b lit ++ [c]) with
                  | RText ty' lit' :: _ => (ttype_eqb ty ty' && String.eqb lit lit')%bool
                  | _ => false
                  end) all_bytes)%bool
  | _ => true
  end.

Lemma text_toks_checked : forallb text_tok_check recognisers = true.
Proof. vm_compute. reflexivity. Qed.

Lemma step_text ty lit x :
  In (RText ty lit) recognisers -> follow_ok (ty, b lit) x = true ->
  first_raw (b lit ++ x) = RComplete ty (b lit) (b lit) x.
Proof.
  intros Hin Hf. pose proof text_toks_checked as H. rewrite forallb_forall in H.
  specialize (H _ Hin). cbn [text_tok_check] in H. apply andb_true_iff in H as [H0 H1].
  destruct x as [|c x].
  - rewrite app_nil_r. now apply rres_eqb_eq.
  - cbn [follow_ok] in Hf. pose proof (forall_bytes _ H1 c) as Hc. cbn beta in Hc.
    rewrite Hf in Hc. cbn [implb] in Hc.
    destruct (skip_failed recognisers (b lit ++ [c])) as [|[ | ty' lit' | | | | | | ] rs'] eqn:E;
      try discriminate.
    apply andb_true_iff in Hc as [Ht Hl]. apply ttype_eqb_eq in Ht. apply String.eqb_eq in Hl. subst.
    unfold first_raw. change (c :: x) with ([c] ++ x). rewrite app_assoc.
    rewrite skip_failed_sound, E, alt_cons. cbn [run_rec].
    rewrite <- app_assoc, strip_prefix_app. reflexivity.
Qed.

Lemma text_tokens_in a : In a text_tokens ->
  exists ty lit, a = (ty, b lit) /\ In (RText ty lit) recognisers.
Proof.
  unfold text_tokens. rewrite in_flat_map. intros (r & Hr & Ha).
  destruct r; cbn in Ha; try contradiction. destruct Ha as [<-|[]]. eauto.
Qed.

(* ---- numbers ---- *)
Lemma digit_reaches_digittok :
  forallb (fun c => implb (is_digit c)
     match skip_failed recognisers [c] with RDigit :: _ => true | _ => false end) all_bytes = true.
Proof. vm_compute. reflexivity. Qed.

Lemma step_digit d x :
  d <> [] -> forallb is_digit d = true -> follow_ok (DIGIT, d) x = true ->
  first_raw (d ++ x) = RComplete DIGIT d d x.
Proof.
  intros Hd Hall Hf. destruct d as [|c d]; [congruence|].
  cbn in Hall. apply andb_true_iff in Hall as [Hc Hall].
  pose proof (forall_bytes _ digit_reaches_digittok c) as H. cbn beta in H. rewrite Hc in H. cbn [implb] in H.
  destruct (skip_failed recognisers [c]) as [|[] rs'] eqn:E; try discriminate.
  unfold first_raw. change ((c :: d) ++ x) with ([c] ++ (d ++ x)).
  rewrite skip_failed_sound, E, alt_cons. cbn [run_rec app]. rewrite Hc.
  change (c :: d ++ x) with ((c :: d) ++ x). rewrite span_spec; [reflexivity| |].
  - cbn. now rewrite Hc, Hall.
  - destruct x as [|e x]; [exact I|]. cbn in Hf. now destruct (is_digit e).
Qed.

(* ---- barewords and keywords ---- *)
Lemma alpha_facts c : is_alpha c = true ->
  Ascii.eqb c dq = false /\ is_digit c = false /\ is_ws c = false /\
  Ascii.eqb slash c = false /\ is_symbol_char c = true.
Proof.
  pose proof (forall_bytes (fun c => implb (is_alpha c)
    (negb (Ascii.eqb c dq) && negb (is_digit c) && negb (is_ws c) && negb (Ascii.eqb slash c)
     && is_symbol_char c)) eq_refl c) as H. cbn beta in H.
  intros Hc. rewrite Hc in H. cbn [implb] in H.
  repeat (apply andb_true_iff in H as [H ?]).
  repeat match goal with X : negb _ = true |- _ => apply negb_true_iff in X end. auto.
Qed.

Lemma symbol_facts c : is_symbol_char c = true -> is_ws c = false /\ Ascii.eqb slash c = false.
Proof.
  pose proof (forall_bytes (fun c => implb (is_symbol_char c)
    (negb (is_ws c) && negb (Ascii.eqb slash c))) eq_refl c) as H. cbn beta in H.
  intros Hc. rewrite Hc in H. cbn [implb] in H. apply andb_true_iff in H as [H1 H2].
  apply negb_true_iff in H1, H2. auto.
Qed.

Definition follow_word (x : bytes) : bool :=
  match x with [] => true | c :: _ => negb (is_symbol_char c) end.

(* a literal made of symbol characters can only match inside the word *)
Lemma strip_prefix_in_word l : forall w x r1,
  forallb is_symbol_char l = true -> follow_word x = true ->
  strip_prefix l (w ++ x) = Some r1 -> exists w2, w = l ++ w2 /\ r1 = w2 ++ x.
Proof.
  induction l as [|c l IH]; intros w x r1 Hl Hx H.
  - cbn in H. inversion H; subst. exists w. auto.
  - cbn in Hl. apply andb_true_iff in Hl as [Hc Hl].
    destruct w as [|d w].
    + cbn [app] in H. destruct x as [|e x]; [discriminate|]. cbn in H.
      destruct (Ascii.eqb c e) eqn:E; [|discriminate]. apply Ascii.eqb_eq in E; subst e.
      cbn in Hx. rewrite Hc in Hx. discriminate.
    + cbn in H. destruct (Ascii.eqb c d) eqn:E; [|discriminate]. apply Ascii.eqb_eq in E; subst d.
      destruct (IH w x r1 Hl Hx H) as (w2 & -> & ->). exists w2. auto.
Qed.

Definition rec_word_ok (r : recogniser) : bool :=
  match r with
  | RText _ lit => (negb (head_is is_alpha (b lit)) || forallb is_symbol_char (b lit))%bool
  | RTextWS ty lit => (ttype_eqb ty BAREWORD && forallb is_symbol_char (b lit))%bool
  | _ => true
  end.

Lemma recognisers_word_ok : forallb rec_word_ok recognisers = true.
Proof. vm_compute. reflexivity. Qed.

Definition not_reserved (w : bytes) (r : recogniser) : bool :=
  match r with
  | RText _ lit => negb (head_is is_alpha (b lit) && is_prefix (b lit) w)
  | _ => true
  end.

Lemma alt_word rs w x :
  Forall (fun r => rec_wf r = true /\ rec_word_ok r = true /\ not_reserved w r = true) rs ->
  In RBareword rs -> is_word w = true -> follow_word x = true ->
  exists k x', alt rs (w ++ x) = RComplete BAREWORD w k x' /\ strip_lex x' = strip_lex x.
Proof.
  intros Hrs Hin Hw Hx. destruct w as [|c w]; [discriminate|].
  cbn in Hw. apply andb_true_iff in Hw as [Hc Hw].
  destruct (alpha_facts c Hc) as (Fdq & Fdig & Fws & Fsl & Fsym).
  assert (Hall : forallb is_symbol_char (c :: w) = true) by (cbn; now rewrite Fsym, Hw).
  induction rs as [|r rs IH]; [contradiction|].
  inversion Hrs as [|? ? (Hwf & Hok & Hres) Hrs']; subst.
  assert (Hnext : r <> RBareword -> run_rec r ((c :: w) ++ x) = RFail ->
          exists k x', alt (r :: rs) ((c :: w) ++ x) = RComplete BAREWORD (c :: w) k x'
                       /\ strip_lex x' = strip_lex x).
  { intros Hne Hfail. rewrite alt_cons, Hfail. apply IH; auto.
    destruct Hin as [->|]; [congruence|auto]. }
  destruct r as [ | ty lit | ty lit | | | | | ].
  - (* strtok *) apply Hnext; [discriminate|]. cbn. now rewrite Fdq.
  - (* plain text token *)
    apply Hnext; [discriminate|]. cbn [run_rec].
    destruct (strip_prefix (b lit) ((c :: w) ++ x)) as [r1|] eqn:E; [exfalso|reflexivity].
    cbn [rec_wf] in Hwf. apply andb_true_iff in Hwf as [Hne _].
    destruct (b lit) as [|l0 l] eqn:El; [discriminate|].
    assert (l0 = c).
    { cbn in E. destruct (Ascii.eqb l0 c) eqn:E0; [now apply Ascii.eqb_eq|discriminate]. }
    subst l0. cbn [rec_word_ok] in Hok. rewrite El in Hok. cbn [head_is] in Hok. rewrite Hc in Hok.
    cbn [negb orb] in Hok.
    destruct (strip_prefix_in_word _ _ _ _ Hok Hx E) as (w2 & Hw2 & _).
    cbn [not_reserved] in Hres. rewrite El in Hres. cbn [head_is] in Hres. rewrite Hc in Hres.
    unfold is_prefix in Hres. rewrite Hw2, strip_prefix_app in Hres. discriminate.
  - (* keyword *)
    cbn [rec_word_ok] in Hok. apply andb_true_iff in Hok as [Hty Hsym]. apply ttype_eqb_eq in Hty; subst ty.
    destruct (strip_prefix (b lit) ((c :: w) ++ x)) as [r1|] eqn:E.
    2:{ apply Hnext; [discriminate|]. cbn [run_rec]. now rewrite E. }
    destruct (strip_prefix_in_word _ _ _ _ Hsym Hx E) as (w2 & Hw2 & ->).
    assert (Hr1 : forall d r, w2 ++ x = d :: r -> (is_ws d = true \/ Ascii.eqb slash d = true) -> w2 = []).
    { intros d r Hd Hcase. destruct w2 as [|e w2]; [reflexivity|]. inversion Hd; subst e.
      assert (Hs : is_symbol_char d = true).
      { rewrite Hw2, forallb_app in Hall. apply andb_true_iff in Hall as [_ Hall]. cbn in Hall.
        now apply andb_true_iff in Hall as [? _]. }
      destruct (symbol_facts d Hs) as [? ?]. destruct Hcase; congruence. }
    destruct (ws_run (w2 ++ x)) as [[k rest]|] eqn:Ews.
    + assert (w2 = []).
      { unfold ws_run in Ews. destruct (w2 ++ x) as [|d r] eqn:Ed; [discriminate|].
        destruct (is_ws d) eqn:Ewd; [|discriminate]. eapply Hr1; eauto. }
      subst w2. rewrite app_nil_r in Hw2. cbn [app] in Ews.
      rewrite alt_cons. cbn [run_rec]. rewrite E. cbn [app]. rewrite Ews. rewrite Hw2.
      destruct kw_lookahead_only.
      { eexists _, x. split; reflexivity. }
      eexists _, rest. split; [reflexivity|]. eapply strip_lex_after_ws; eauto.
    + destruct (comment_run (w2 ++ x)) as [[[bd k] rest]|] eqn:Ecm.
      * assert (w2 = []).
        { unfold comment_run in Ecm.
          destruct (strip_prefix (b "//") (w2 ++ x)) as [r|] eqn:Ep; [|discriminate].
          apply strip_prefix_some in Ep. destruct (w2 ++ x) as [|d r'] eqn:Ed; [discriminate|].
          inversion Ep; subst d. eapply Hr1; eauto. }
        subst w2. rewrite app_nil_r in Hw2. cbn [app] in Ecm, Ews.
        rewrite alt_cons. cbn [run_rec]. rewrite E. cbn [app]. rewrite Ews, Ecm. rewrite Hw2.
        destruct kw_lookahead_only.
        { eexists _, x. split; reflexivity. }
        eexists _, rest. split; [reflexivity|]. eapply strip_lex_after_comment; eauto.
      * apply Hnext; [discriminate|]. cbn [run_rec]. now rewrite E, Ews, Ecm.
  - (* digittok *) apply Hnext; [discriminate|]. cbn. now rewrite Fdig.
  - (* comment *) apply Hnext; [discriminate|]. cbn [run_rec]. unfold comment_run.
    cbn [app b list_ascii_of_string strip_prefix]. fold slash. now rewrite Fsl.
  - (* barewordtok *)
    rewrite alt_cons. cbn [run_rec app]. rewrite Hc.
    change (c :: w ++ x) with ((c :: w) ++ x). rewrite span_spec.
    + eexists _, x. split; reflexivity.
    + exact Hall.
    + destruct x as [|e x]; [exact I|]. cbn in Hx. now destruct (is_symbol_char e).
  - (* whitespace *) apply Hnext; [discriminate|]. cbn [run_rec]. unfold ws_run. cbn [app]. now rewrite Fws.
  - (* eoi *) apply Hnext; [discriminate|]. reflexivity.
Qed.

Lemma bareword_in_table : In RBareword recognisers.
Proof. vm_compute. tauto. Qed.

Lemma step_word w x :
  is_word w = true -> reserved_prefix w = false -> follow_word x = true ->
  exists k x', first_raw (w ++ x) = RComplete BAREWORD w k x' /\ strip_lex x' = strip_lex x.
Proof.
  intros Hw Hres Hx. apply alt_word; auto using bareword_in_table.
  apply Forall_forall. intros r Hr.
  pose proof recognisers_wf as W1. pose proof recognisers_word_ok as W2.
  rewrite forallb_forall in W1, W2. repeat split; auto.
  unfold reserved_prefix in Hres.
  destruct (not_reserved w r) eqn:E; [reflexivity|].
  assert (existsb (fun r => match r with
                    | RText _ lit => (head_is is_alpha (b lit) && is_prefix (b lit) w)%bool
                    | _ => false end) recognisers = true); [|congruence].
  apply existsb_exists. exists r. split; [exact Hr|].
  destruct r; cbn in E; try discriminate. now apply negb_false_iff in E.
Qed.

(* ---- Lemma B: any well-formed token, followed by anything it may be glued to ---- *)
Lemma step_token a x :
  wf_tk a = true -> follow_ok a x = true ->
  exists k x', first_raw (src_of a ++ x) = RComplete (fst a) (snd a) k x'
               /\ strip_lex x' = strip_lex x.
Proof.
  destruct a as [ty f]. unfold wf_tk, src_of. cbn [fst snd]. intros Hwf Hf.
  destruct ty; try discriminate.
  - (* EMPTY *)
    apply existsb_exists in Hwf as (a' & Hin & He). apply tk_eqb_eq in He; subst a'.
    apply text_tokens_in in Hin as (ty & lit & Ha & Hin). inversion Ha; subst.
    eexists _, x. split; [apply step_text; auto|reflexivity].
  - (* BOOLEAN *)
    apply existsb_exists in Hwf as (a' & Hin & He). apply tk_eqb_eq in He; subst a'.
    apply text_tokens_in in Hin as (ty & lit & Ha & Hin). inversion Ha; subst.
    eexists _, x. split; [apply step_text; auto|reflexivity].
  - (* QUOTED *)
    destruct (encode_str_ok f) as [Hc Hd].
    cbn [app]. rewrite <- app_assoc. cbn [app].
    rewrite first_raw_str, (escq_closed _ x Hc), Hd. eexists _, x. split; reflexivity.
  - (* DIGIT *)
    apply andb_true_iff in Hwf as [Hne Hall].
    eexists _, x. split; [apply step_digit; auto|reflexivity].
    intros ->. discriminate.
  - (* BAREWORD *)
    apply andb_true_iff in Hwf as [Hw Hres]. apply negb_true_iff in Hres.
    apply step_word; auto.
  - (* PUNCT *)
    apply existsb_exists in Hwf as (a' & Hin & He). apply tk_eqb_eq in He; subst a'.
    apply text_tokens_in in Hin as (ty & lit & Ha & Hin). inversion Ha; subst.
    eexists _, x. split; [apply step_text; auto|reflexivity].
Qed.

Lemma wf_tk_src a : wf_tk a = true ->
  src_of a <> [] /\ starts_nonws (src_of a) = true /\ trivia_ty (fst a) = false.
Proof.
  intros Hwf. destruct (step_token a [] Hwf eq_refl) as (k & x' & H & _).
  rewrite app_nil_r in H.
  assert (Hty : trivia_ty (fst a) = false).
  { destruct a as [ty f]. unfold wf_tk in Hwf. cbn in *. destruct ty; try discriminate; reflexivity. }
  destruct (src_of a) as [|c s] eqn:E.
  - exfalso. unfold first_raw in H. apply alt_complete in H as (r & Hr & H).
    destruct r; cbn in H; try discriminate.
    + pose proof recognisers_wf as W. rewrite forallb_forall in W. specialize (W _ Hr).
      cbn in W. destruct (b lit); discriminate.
    + pose proof recognisers_wf as W. rewrite forallb_forall in W. specialize (W _ Hr).
      cbn in W. destruct (b lit); discriminate.
    + injection H as H1 _ _ _. destruct a as [ty f]. cbn in H1. subst ty. discriminate.
  - repeat split; [discriminate| |exact Hty]. cbn.
    destruct (is_ws c) eqn:Ew; [|reflexivity]. exfalso.
    destruct (ws_run (c :: s)) as [[k' r']|] eqn:Er.
    + rewrite (first_raw_ws c s k' r' Ew Er) in H. injection H as H1 _ _ _. rewrite <- H1 in Hty. discriminate.
    + unfold ws_run in Er. rewrite Ew in Er. discriminate.
Qed.

Lemma strip_lex_token a x :
  wf_tk a = true -> follow_ok a x = true ->
  strip_lex (src_of a ++ x) = option_map (cons a) (strip_lex x).
Proof.
  intros Hwf Hf. destruct (step_token a x Hwf Hf) as (k & x' & H & Hx).
  destruct (wf_tk_src a Hwf) as (Hne & _ & Hty).
  assert (Hs : src_of a ++ x <> []) by (destruct (src_of a); [congruence|discriminate]).
  rewrite (strip_lex_step _ _ _ _ _ Hs H), Hty, Hx. destruct a; reflexivity.
Qed.

(* ================================================================== *)
(** * 12. layout_irrelevant                                            *)
(* ================================================================== *)

(* A layout gives the separator in front of the first token and the separator
   after each token (missing entries mean "nothing"). *)
Definition layout := (sep * list sep)%type.

Fixpoint render_toks (ts : list tk) (l : list sep) : bytes :=
  match ts with
  | [] => []
  | a :: ts' => src_of a ++ render_sep (hd [] l) ++ render_toks ts' (tl l)
  end.

Definition render (ts : list tk) (l : layout) : bytes :=
  render_sep (fst l) ++ render_toks ts (snd l).

(* A layout is valid when comment bodies contain no line feed and no token is
   DIRECTLY followed by a byte it must not be glued to ([needs_sep_byte]): if the
   separator after token a is empty that byte is the first byte of the next
   token (i.e. [needs_sep a next] must be false); if it starts with a comment
   the byte is '/', which only the token "/" must avoid; blanks are always fine. *)
Fixpoint valid_toks (ts : list tk) (l : list sep) : bool :=
  match ts with
  | [] => true
  | a :: ts' =>
      (sep_ok (hd [] l)
       && follow_ok a (render_sep (hd [] l) ++ render_toks ts' (tl l))
       && valid_toks ts' (tl l))%bool
  end.

Definition valid_layout (ts : list tk) (l : layout) : bool :=
  (sep_ok (fst l) && valid_toks ts (snd l))%bool.

Lemma render_toks_nonws ts l :
  forallb wf_tk ts = true -> starts_nonws (render_toks ts l) = true.
Proof.
  destruct ts as [|a ts]; [reflexivity|]. cbn. intros H. apply andb_true_iff in H as [Ha _].
  destruct (wf_tk_src a Ha) as (Hne & Hws & _).
  destruct (src_of a); [congruence|exact Hws].
Qed.

Lemma strip_lex_render_toks ts : forall l,
  forallb wf_tk ts = true -> valid_toks ts l = true ->
  strip_lex (render_toks ts l) = Some (ts ++ [tk_end]).
Proof.
  induction ts as [|a ts IH]; intros l Hwf Hv; [reflexivity|].
  cbn in Hwf, Hv. apply andb_true_iff in Hwf as [Ha Hwf].
  apply andb_true_iff in Hv as [Hv Hv3]. apply andb_true_iff in Hv as [Hv1 Hv2].
  cbn [render_toks]. rewrite (strip_lex_token a _ Ha Hv2).
  rewrite (strip_lex_sep _ _ Hv1 (render_toks_nonws ts (tl l) Hwf)).
  rewrite (IH (tl l) Hwf Hv3). reflexivity.
Qed.

Theorem layout_canonical : forall ts l,
  forallb wf_tk ts = true -> valid_layout ts l = true ->
  strip_lex (render ts l) = Some (ts ++ [tk_end]).
Proof.
  intros ts [l0 l] Hwf Hv. unfold valid_layout in Hv. cbn [fst snd] in Hv.
  apply andb_true_iff in Hv as [Hv0 Hv]. unfold render. cbn [fst snd].
  rewrite (strip_lex_sep _ _ Hv0 (render_toks_nonws ts l Hwf)).
  now apply strip_lex_render_toks.
Qed.

(* layout_irrelevant: whitespace and comments between tokens never change the
   token sequence: any two valid layouts of the same tokens lex to the same
   sequence, namely the tokens themselves (followed by END). *)
Theorem layout_irrelevant : forall ts l1 l2,
  forallb wf_tk ts = true -> valid_layout ts l1 = true -> valid_layout ts l2 = true ->
  option_map (map strip) (lex (render ts l1)) = option_map (map strip) (lex (render ts l2)) /\
  option_map (map strip) (lex (render ts l1)) = Some (ts ++ [tk_end]).
Proof.
  intros ts l1 l2 Hwf H1 H2. fold (strip_lex (render ts l1)). fold (strip_lex (render ts l2)).
  rewrite (layout_canonical ts l1 Hwf H1), (layout_canonical ts l2 Hwf H2). auto.
Qed.

(* ---- the hypotheses are the right ones ---- *)

(* every token the lexer produces is well formed in the sense of [wf_tk] ... *)
Lemma in_text_tokens ty lit : In (RText ty lit) recognisers -> In (ty, b lit) text_tokens.
Proof. intros H. unfold text_tokens. apply in_flat_map. exists (RText ty lit). cbn; auto. Qed.

(* a blank may follow any well-formed token; so may a comment unless the token is "/" *)
Definition blank_bytes : list ascii := [sp; tab; nl; cr].

Lemma blank_ok_text :
  forallb (fun a => forallb (fun c => negb (needs_sep_byte a c)) blank_bytes) text_tokens = true.
Proof. vm_compute. reflexivity. Qed.

Lemma blank_follows_any a c : wf_tk a = true -> In c blank_bytes -> needs_sep_byte a c = false.
Proof.
  intros Hwf Hc. destruct a as [ty f]. unfold wf_tk in Hwf. cbn [fst snd] in Hwf.
  assert (Htxt : existsb (tk_eqb (ty, f)) text_tokens = true -> needs_sep_byte (ty, f) c = false).
  { intros H. apply existsb_exists in H as (a' & Hin & He). apply tk_eqb_eq in He; subst a'.
    pose proof blank_ok_text as B. rewrite forallb_forall in B. specialize (B _ Hin).
    rewrite forallb_forall in B. specialize (B _ Hc). now apply negb_true_iff in B. }
  assert (Hb : is_symbol_char c = false /\ is_digit c = false).
  { cbn in Hc. destruct Hc as [<-|[<-|[<-|[<-|[]]]]]; split; reflexivity. }
  destruct Hb as [Hb1 Hb2].
  destruct ty; try discriminate; auto; unfold needs_sep_byte; cbn [fst]; auto.
Qed.

Lemma comment_follows a : wf_tk a = true -> a <> (PUNCT, b "/") -> needs_sep_byte a slash = false.
Proof.
  intros Hwf Hne. destruct a as [ty f]. unfold wf_tk in Hwf. cbn [fst snd] in Hwf.
  destruct ty; try discriminate; unfold needs_sep_byte; cbn [fst snd]; auto.
  apply existsb_exists in Hwf as (a' & Hin & He). apply tk_eqb_eq in He; subst a'.
  assert (H : forallb (fun a => (tk_eqb a (PUNCT, b "/") || negb (needs_sep_byte a slash))%bool)
                text_tokens = true) by (vm_compute; reflexivity).
  rewrite forallb_forall in H. specialize (H _ Hin). apply orb_true_iff in H as [H|H].
  - apply tk_eqb_eq in H. congruence.
  - now apply negb_true_iff in H.
Qed.

(* with an empty separator, validity is exactly "no separator needed" *)
Lemma follow_ok_adjacent a b0 rest :
  src_of b0 <> [] -> follow_ok a (src_of b0 ++ rest) = negb (needs_sep a b0).
Proof. unfold needs_sep, follow_ok. destruct (src_of b0); [congruence|reflexivity]. Qed.

(* the one-blank layout is valid for every well-formed token list: the theorem
   is not vacuous, and every well-formed list is a fixed point of lex . render *)
Definition blank_layout (ts : list tk) : layout := ([], map (fun _ => [SSp]) ts).

Lemma blank_layout_valid ts : forallb wf_tk ts = true -> valid_layout ts (blank_layout ts) = true.
Proof.
  intros Hwf. unfold valid_layout, blank_layout. cbn [fst snd sep_ok forallb andb].
  induction ts as [|a ts IH]; [reflexivity|].
  cbn in Hwf. apply andb_true_iff in Hwf as [Ha Hwf].
  cbn [map valid_toks hd tl sep_ok forallb item_ok andb render_sep flat_map render_item app follow_ok].
  rewrite (blank_follows_any a sp Ha (or_introl eq_refl)). cbn [negb andb]. apply IH, Hwf.
Qed.

Corollary wf_tokens_are_producible ts : forallb wf_tk ts = true ->
  strip_lex (render ts (blank_layout ts)) = Some (ts ++ [tk_end]).
Proof. intros H. apply layout_canonical; auto using blank_layout_valid. Qed.

(* ================================================================== *)
(** * 13. Every token the tokenizer produces is well formed            *)
(* ================================================================== *)

(* so the hypothesis [forallb wf_tk ts] of layout_irrelevant covers every token
   list that the lexer can produce *)

Lemma alt_complete_first rs s ty f k rest :
  alt rs s = RComplete ty f k rest ->
  exists rs1 r rs2, rs = rs1 ++ r :: rs2 /\ run_rec r s = RComplete ty f k rest /\
                    Forall (fun r' => run_rec r' s = RFail) rs1.
Proof.
  induction rs as [|r rs IH]; cbn; [discriminate|].
  destruct (run_rec r s) eqn:E; intros H.
  - inversion H; subst. exists [], r, rs. auto.
  - destruct (IH H) as (rs1 & r' & rs2 & -> & Hr & Hf). exists (r :: rs1), r', rs2. auto.
  - discriminate.
Qed.

Lemma split_unique {A} (x : A) : forall l1 l2 m1 m2,
  l1 ++ x :: l2 = m1 ++ x :: m2 -> ~ In x l1 -> ~ In x m1 -> l1 = m1 /\ l2 = m2.
Proof.
  induction l1 as [|a l1 IH]; intros l2 [|c m1] m2 H H1 H2; cbn in *.
  - inversion H; auto.
  - inversion H; subst. tauto.
  - inversion H; subst. tauto.
  - inversion H; subst. destruct (IH l2 m1 m2 H4) as [-> ->]; auto.
Qed.

Definition is_bareword_rec (r : recogniser) : bool := match r with RBareword => true | _ => false end.

Fixpoint before_bareword (rs : list recogniser) : list recogniser :=
  match rs with
  | [] => []
  | r :: rs' => if is_bareword_rec r then [] else r :: before_bareword rs'
  end.
Fixpoint after_bareword (rs : list recogniser) : list recogniser :=
  match rs with
  | [] => []
  | r :: rs' => if is_bareword_rec r then rs' else after_bareword rs'
  end.

Definition alpha_text (r : recogniser) : bool :=
  match r with RText _ lit => head_is is_alpha (b lit) | _ => false end.

(* table facts: barewordtok occurs, and no letter-initial plain text token comes after it;
   every literal token of the table is itself well formed *)
Lemma table_bareword_split :
  recognisers = before_bareword recognisers ++ RBareword :: after_bareword recognisers /\
  existsb is_bareword_rec (before_bareword recognisers) = false /\
  existsb alpha_text (after_bareword recognisers) = false.
Proof. vm_compute. auto. Qed.

Lemma table_literals_wf :
  forallb (fun r => match r with RText ty lit | RTextWS ty lit => wf_tk (ty, b lit) | _ => true end)
          recognisers = true.
Proof. vm_compute. reflexivity. Qed.

Lemma is_prefix_app l w x : is_prefix l w = true -> is_prefix l (w ++ x) = true.
Proof.
  unfold is_prefix. destruct (strip_prefix l w) as [q|] eqn:E; [|discriminate].
  now rewrite (strip_prefix_ext _ _ _ x E).
Qed.

Lemma first_raw_wf s ty f k rest :
  first_raw s = RComplete ty f k rest -> trivia_ty ty = false -> ty <> END ->
  wf_tk (ty, f) = true.
Proof.
  intros H Htriv Hend. unfold first_raw in H.
  destruct (alt_complete_first _ _ _ _ _ _ H) as (rs1 & r & rs2 & Hsplit & Hr & Hfail).
  assert (Hin : In r recognisers) by (rewrite Hsplit; apply in_or_app; right; left; reflexivity).
  pose proof table_literals_wf as TL. rewrite forallb_forall in TL. specialize (TL _ Hin).
  destruct r; cbn [run_rec] in Hr.
  - destruct s as [|c s]; [discriminate|]. destruct (Ascii.eqb c dq); [|discriminate].
    destruct (escq false s) as [[[? ?] ?]|]; [|discriminate]. inversion Hr; subst. reflexivity.
  - destruct (strip_prefix (b lit) s); [|discriminate]. inversion Hr; subst. exact TL.
  - destruct (strip_prefix (b lit) s) as [r1|]; [|discriminate].
    destruct (ws_run r1) as [[? ?]|]; [destruct kw_lookahead_only; inversion Hr; subst; exact TL|].
    destruct (comment_run r1) as [[[? ?] ?]|]; [|discriminate].
    destruct kw_lookahead_only; inversion Hr; subst; exact TL.
  - destruct s as [|c s]; [discriminate|]. destruct (is_digit c) eqn:Ec; [|discriminate].
    destruct (span is_digit (c :: s)) as [d r'] eqn:E. inversion Hr; subst.
    unfold wf_tk. cbn [fst snd]. rewrite (span_all _ _ _ _ E).
    destruct (span_head is_digit c s Ec) as (a & r'' & E'). rewrite E' in E. inversion E; subst. reflexivity.
  - destruct (comment_run s) as [[[? ?] ?]|]; [|discriminate]. inversion Hr; subst. discriminate.
  - (* barewordtok: everything before it in the table failed on s *)
    destruct s as [|c s]; [discriminate|]. destruct (is_alpha c) eqn:Ec; [|discriminate].
    destruct (span is_symbol_char (c :: s)) as [w r'] eqn:E. inversion Hr; subst ty f k rest.
    pose proof (span_app _ _ _ _ E) as Happ. pose proof (span_all _ _ _ _ E) as Hall.
    destruct (span_head is_symbol_char c s (is_alpha_symbol c Ec)) as (a & r'' & E').
    rewrite E' in E. inversion E; subst w r''. clear E.
    unfold wf_tk. cbn [fst snd]. apply andb_true_iff. split.
    + cbn. rewrite Ec. cbn in Hall. now apply andb_true_iff in Hall as [_ ?].
    + apply negb_true_iff. unfold reserved_prefix.
      destruct (existsb _ recognisers) eqn:Ex; [exfalso|reflexivity].
      apply existsb_exists in Ex as (r0 & Hr0 & Hp).
      destruct r0 as [ | ty0 lit0 | | | | | | ]; try discriminate.
      apply andb_true_iff in Hp as [Hp1 Hp2].
      destruct table_bareword_split as (Tsplit & Tpre & Tpost).
      assert (Hnb1 : ~ In RBareword rs1).
      { intros Hb. rewrite Forall_forall in Hfail. specialize (Hfail _ Hb). cbn [run_rec] in Hfail.
        rewrite Ec, E' in Hfail. discriminate. }
      assert (Hnb2 : ~ In RBareword (before_bareword recognisers)).
      { intros Hb. assert (existsb is_bareword_rec (before_bareword recognisers) = true); [|congruence].
        apply existsb_exists. exists RBareword. auto. }
      rewrite Tsplit in Hsplit at 1.
      destruct (split_unique _ _ _ _ _ Hsplit Hnb2 Hnb1) as [Hpre Hpost].
      rewrite Tsplit in Hr0. apply in_app_or in Hr0 as [Hr0|[Hr0|Hr0]].
      * (* before barewordtok: it failed on s, yet its literal is a prefix of s *)
        rewrite Hpre in Hr0. rewrite Forall_forall in Hfail. specialize (Hfail _ Hr0).
        cbn [run_rec] in Hfail. rewrite Happ in Hfail.
        apply (is_prefix_app _ _ r') in Hp2. unfold is_prefix in Hp2.
        destruct (strip_prefix (b lit0) ((c :: a) ++ r')); discriminate.
      * discriminate.
      * assert (existsb alpha_text (after_bareword recognisers) = true); [|congruence].
        apply existsb_exists. exists (RText ty0 lit0). auto.
  - destruct (ws_run s) as [[? ?]|]; [|discriminate]. inversion Hr; subst. discriminate.
  - destruct s; [|discriminate]. inversion Hr; subst. congruence.
Qed.

Lemma first_raw_not_end s ty f k rest :
  s <> [] -> first_raw s = RComplete ty f k rest -> ty <> END.
Proof.
  intros Hs H Hty. subst ty. pose proof (first_raw_text _ _ _ _ _ H) as Ht. cbn in Ht.
  destruct Ht as [_ ->]. congruence.
Qed.

Lemma lex_from_shape fuel : forall ps s l,
  lex_from fuel ps s = LexOk l ->
  exists body e, l = body ++ [e] /\ typ e = END /\ frag e = [] /\
    Forall (fun t => is_trivia t = true \/ wf_tk (strip t) = true) body.
Proof.
  induction fuel as [|fuel IH]; intros ps s l H.
  - destruct s; cbn in H; [|discriminate]. inversion H; subst. exists [], (mk_tok END [] ps). auto.
  - destruct s as [|c s].
    + cbn in H. inversion H; subst. exists [], (mk_tok END [] ps). auto.
    + cbn [lex_from] in H. unfold first_tok in H.
      destruct (first_raw (c :: s)) as [ty f k rest| |] eqn:E; try discriminate.
      destruct (lex_from fuel (advance ps k) rest) as [l'| |] eqn:El; try discriminate.
      inversion H; subst l. destruct (IH _ _ _ El) as (body & e & -> & He & Hf & Hall).
      exists (mk_tok ty f ps :: body), e. repeat split; auto. constructor; [|exact Hall].
      unfold is_trivia, strip. cbn [typ frag mk_tok].
      destruct (trivia_ty ty) eqn:Et.
      * left. destruct ty; cbn in Et; try discriminate; reflexivity.
      * right. apply (first_raw_wf _ _ _ _ _ E Et).
        assert (Hne : c :: s <> []) by discriminate.
        apply (first_raw_not_end _ _ _ _ _ Hne E).
Qed.

(* what tokenize returns is a list of well-formed tokens followed by END *)
Theorem lex_tokens_wf : forall src toks, lex src = Some toks ->
  exists body e, toks = body ++ [e] /\ strip e = tk_end /\
                 forallb wf_tk (map strip body) = true.
Proof.
  intros src toks H. unfold lex, lex_all, lex_fuel in H.
  destruct (lex_from (List.length src + 1) ps0 src) as [l| |] eqn:E; try discriminate.
  inversion H; subst toks; clear H.
  destruct (lex_from_shape _ _ _ _ E) as (body & e & -> & He & Hf & Hall).
  rewrite filter_app. cbn [filter]. unfold is_trivia at 2. rewrite He. cbn [negb].
  eexists _, e. split; [reflexivity|]. split; [unfold strip, tk_end; now rewrite He, Hf|].
  clear E. induction body as [|t body IH]; [reflexivity|].
  inversion Hall as [|? ? Ht Hall']; subst. cbn [filter].
  destruct (is_trivia t) eqn:Et; cbn [negb]; [now apply IH|].
  cbn [map forallb]. destruct Ht as [Ht|Ht]; [congruence|]. rewrite Ht. now apply IH.
Qed.

(* layout does not matter, stated on sources: take any source the tokenizer
   accepts, write its tokens with ANY valid layout: the token sequence is the same *)
Theorem relayout : forall src toks, lex src = Some toks ->
  forall l, valid_layout (removelast (map strip toks)) l = true ->
  strip_lex (render (removelast (map strip toks)) l) = Some (map strip toks).
Proof.
  intros src toks H l Hv. destruct (lex_tokens_wf _ _ H) as (body & e & -> & He & Hwf).
  rewrite map_app in *. cbn [map] in *. rewrite He in *.
  rewrite removelast_last in *. now apply layout_canonical.
Qed.

(* two well-formed tokens may be glued exactly when no separator is needed
   (the "if" direction for ALL tokens; pairs_exhaustive gives "iff" on the vocabulary) *)
Corollary glue_ok a b0 : wf_tk a = true -> wf_tk b0 = true -> needs_sep a b0 = false ->
  strip_lex (src_of a ++ src_of b0) = Some [a; b0; tk_end].
Proof.
  intros Ha Hb Hs.
  pose proof (layout_canonical [a; b0] ([], []) ) as H. unfold render in H. cbn in H.
  rewrite !app_nil_r in H. apply H.
  - now rewrite Ha, Hb.
  - unfold valid_layout. cbn. rewrite ?app_nil_r.
    destruct (wf_tk_src b0 Hb) as (Hne & _ & _).
    pose proof (follow_ok_adjacent a b0 [] Hne) as F. rewrite app_nil_r in F. rewrite F, Hs. reflexivity.
Qed.
