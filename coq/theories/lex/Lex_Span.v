(* C17 support: a token whose offset lies inside a byte span of the source is reported on a line
   inside the line span of those bytes. *)
From Coq Require Import Sorting.Sorted.
From Ucg Require Import base.Bytes base.Bytes_Lemmas lex.Lex_Types lex.Vocab lex.Lex lex.Lex_Lemmas.
Local Open Scope list_scope.

(* 1-based line on which byte offset o of src lies *)
Definition line_of (src : bytes) (o : nat) : N := N.of_nat (1 + count_nl (firstn o src)).

Lemma count_nl_app a b : count_nl (a ++ b) = count_nl a + count_nl b.
Proof. unfold count_nl. now rewrite filter_app, app_length. Qed.

Lemma firstn_add_split {A} a k : forall l : list A, firstn (a + k) l = firstn a l ++ firstn k (skipn a l).
Proof.
  induction a as [|a IH]; intros l; cbn; [reflexivity|].
  destruct l as [|x l]; cbn; [now rewrite firstn_nil|]. f_equal. apply IH.
Qed.

Lemma firstn_split_le {A} (l : list A) a b : a <= b -> firstn b l = firstn a l ++ firstn (b - a) (skipn a l).
Proof. intros H. replace b with (a + (b - a)) at 1 by lia. apply firstn_add_split. Qed.

Lemma line_of_mono src a b : a <= b -> (line_of src a <= line_of src b)%N.
Proof.
  intros H. unfold line_of. rewrite (firstn_split_le src a b H), count_nl_app. lia.
Qed.

Lemma token_line_in_span_lemma src toks t a b :
  lex src = Some toks -> In t toks -> a <= N.to_nat (off t) <= b ->
  (line_of src a <= line t <= line_of src b)%N.
Proof.
  intros Hl Hin [Ha Hb]. apply positions_exact in Hl as [Hall _].
  rewrite Forall_forall in Hall. destruct (Hall t Hin) as (_ & Hline & _).
  rewrite Hline. fold (line_of src (N.to_nat (off t))). split; now apply line_of_mono.
Qed.
