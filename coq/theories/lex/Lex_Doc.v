(* C20/C17 support: token positions are positions of the document, in the tokenizer's units
   (1-based line, 1-based column in BYTES), for a notion of "line" and "valid position" that
   is defined without any reference to the lexer. *)
From Coq Require Import Sorting.Sorted.
From Ucg Require Import base.Bytes base.Bytes_Lemmas lex.Lex_Types lex.Vocab lex.Lex lex.Lex_Lemmas
                        lex.Lex_Shift lex.Lex_Comments.
From UcgGen Require Import LexVocab.
Local Open Scope list_scope.

(* ------------------------------------------------------------------ *)
(** * lines and valid positions of a byte string                       *)
(* ------------------------------------------------------------------ *)

(* split at LF; the LF is not part of a line, a CR is kept; a text ending in LF has a last,
   empty line; the empty text has one empty line *)
Fixpoint lines_of (s : bytes) : list bytes :=
  match s with
  | [] => [[]]
  | c :: s' =>
      if is_nl c then [] :: lines_of s'
      else match lines_of s' with
           | l :: ls => (c :: l) :: ls
           | [] => [[c]]
           end
  end.

(* the text of 1-based line l *)
Definition line_text (src : bytes) (l : nat) : bytes := nth (l - 1) (lines_of src) [].

(* (l, c), both 1-based, c in bytes, is a position of src; c may be one past the end of the
   line (the END token, a token directly before the LF ends there) *)
Definition valid_pos (src : bytes) (l c : nat) : Prop :=
  1 <= l <= List.length (lines_of src) /\ 1 <= c <= List.length (line_text src l) + 1.

(* the part of a text before its first LF *)
Definition first_line (k : bytes) : bytes := hd [] (lines_of k).

Lemma lines_of_nonempty s : lines_of s <> [].
Proof. destruct s as [|c s]; cbn; [discriminate|]. destruct (is_nl c); [discriminate|]. destruct (lines_of s); discriminate. Qed.

Lemma lines_of_cons c s :
  lines_of (c :: s) = if is_nl c then [] :: lines_of s
                      else (c :: hd [] (lines_of s)) :: tl (lines_of s).
Proof.
  cbn [lines_of]. destruct (is_nl c); [reflexivity|].
  pose proof (lines_of_nonempty s). destruct (lines_of s); [congruence|reflexivity].
Qed.

Lemma lines_of_length s : List.length (lines_of s) = S (count_nl s).
Proof.
  induction s as [|c s IH]; [reflexivity|]. rewrite lines_of_cons. unfold count_nl in *. cbn [filter].
  destruct (is_nl c); cbn [List.length]; [now rewrite IH|].
  pose proof (lines_of_nonempty s). destruct (lines_of s); [congruence|]. cbn in IH |- *. exact IH.
Qed.

(* appending: the last line of a is continued by the first line of b *)
Lemma lines_of_app a : forall b0,
  lines_of (a ++ b0) =
  removelast (lines_of a) ++ (last (lines_of a) [] ++ hd [] (lines_of b0)) :: tl (lines_of b0).
Proof.
  induction a as [|c a IH]; intros b0.
  - cbn. pose proof (lines_of_nonempty b0). destruct (lines_of b0); [congruence|reflexivity].
  - cbn [app]. rewrite !lines_of_cons, IH. pose proof (lines_of_nonempty a) as Hne.
    destruct (is_nl c).
    + destruct (lines_of a) as [|l ls] eqn:E; [congruence|]. reflexivity.
    + destruct (lines_of a) as [|l ls] eqn:E; [congruence|]. cbn [hd tl].
      destruct ls as [|l2 ls]; reflexivity.
Qed.

Lemma removelast_length {A} (l : list A) : l <> [] -> List.length (removelast l) = List.length l - 1.
Proof.
  intros H. destruct (exists_last H) as (l' & x & ->). rewrite removelast_last, app_length. cbn. lia.
Qed.

Lemma last_app_ne {A} (x y : list A) d : y <> [] -> last (x ++ y) d = last y d.
Proof.
  intros Hy. induction x as [|a x IH]; [reflexivity|]. cbn [app last].
  destruct (x ++ y) eqn:E; [|exact IH]. apply app_eq_nil in E as [_ ->]. congruence.
Qed.

Lemma last_line_length a : List.length (last (lines_of a) []) = since_nl a.
Proof.
  induction a as [|c a IH] using rev_ind; [reflexivity|].
  rewrite since_nl_snoc, lines_of_app. rewrite last_app_ne by discriminate.
  cbn [lines_of]. destruct (is_nl c); cbn [hd tl last].
  - reflexivity.
  - rewrite app_length, IH. cbn. lia.
Qed.

(* the line on which a prefix ends: its own last line followed by the first line of the rest *)
Lemma line_at_prefix a b0 :
  nth (count_nl a) (lines_of (a ++ b0)) [] = last (lines_of a) [] ++ first_line b0.
Proof.
  rewrite lines_of_app.
  assert (Hl : List.length (removelast (lines_of a)) = count_nl a).
  { rewrite (removelast_length _ (lines_of_nonempty a)), lines_of_length. lia. }
  rewrite app_nth2 by lia. rewrite Hl, Nat.sub_diag. reflexivity.
Qed.

Lemma count_nl_app a b0 : count_nl (a ++ b0) = count_nl a + count_nl b0.
Proof. unfold count_nl. now rewrite filter_app, app_length. Qed.

Lemma first_line_cons c k :
  first_line (c :: k) = if is_nl c then [] else c :: first_line k.
Proof. unfold first_line. rewrite lines_of_cons. destruct (is_nl c); reflexivity. Qed.

Lemma first_line_app_le k r : List.length (first_line k) <= List.length (first_line (k ++ r)).
Proof.
  induction k as [|c k IH]; [cbn; lia|]. cbn [app]. rewrite !first_line_cons.
  destruct (is_nl c); cbn; lia.
Qed.

Lemma first_line_no_nl k : no_nl k = true -> first_line k = k.
Proof.
  induction k as [|c k IH]; [reflexivity|]. unfold no_nl. cbn [forallb]. intros H.
  apply andb_true_iff in H as [Hc Hk]. rewrite first_line_cons.
  apply negb_true_iff in Hc. rewrite Hc. now rewrite (IH Hk).
Qed.

(* a position computed from a prefix (what token_ok states) is a valid position, and the text
   that follows the prefix up to the next LF lies on that line *)
Lemma prefix_position_valid pre rest :
  valid_pos (pre ++ rest) (1 + count_nl pre) (1 + since_nl pre) /\
  List.length (line_text (pre ++ rest) (1 + count_nl pre)) =
  since_nl pre + List.length (first_line rest).
Proof.
  assert (Hlen : List.length (line_text (pre ++ rest) (1 + count_nl pre)) =
                 since_nl pre + List.length (first_line rest)).
  { unfold line_text. replace (1 + count_nl pre - 1) with (count_nl pre) by lia.
    now rewrite line_at_prefix, app_length, last_line_length. }
  split; [|exact Hlen]. unfold valid_pos. rewrite Hlen, lines_of_length, count_nl_app. lia.
Qed.

(* ------------------------------------------------------------------ *)
(** * (1) every token position is a valid position of the document     *)
(* ------------------------------------------------------------------ *)

Theorem token_position_in_document : forall src toks t,
  lex_all src = Some toks -> In t toks ->
  valid_pos src (N.to_nat (line t)) (N.to_nat (col t)).
Proof.
  intros src toks t H Hin. pose proof (positions_exact_all _ _ H) as [Hall _].
  rewrite Forall_forall in Hall. destruct (Hall t Hin) as (Ho & Hl & Hc & _).
  rewrite Hl, Hc, !Nnat.Nat2N.id.
  rewrite <- (firstn_skipn (N.to_nat (off t)) src) at 1.
  apply prefix_position_valid.
Qed.

Corollary token_position_in_document_lex : forall src toks t,
  lex src = Some toks -> In t toks ->
  valid_pos src (N.to_nat (line t)) (N.to_nat (col t)).
Proof.
  intros src toks t H Hin. unfold lex in H. destruct (lex_all src) as [l|] eqn:E; [|discriminate].
  inversion H; subst. apply filter_In in Hin as [Hin _]. eapply token_position_in_document; eauto.
Qed.

(* ------------------------------------------------------------------ *)
(** * (2) the extent of a token on its line                            *)
(* ------------------------------------------------------------------ *)

(* General form, for every token but END: k is the text the token covers (lex_all_tiles /
   covers); the part of k before its first LF lies on the token's line, i.e. ends at most one
   past the end of the line. *)
Theorem token_first_line_on_line : forall src toks t,
  lex_all src = Some toks -> In t toks -> typ t <> END ->
  exists k,
    first_raw (skipn (N.to_nat (off t)) src) =
      RComplete (typ t) (frag t) k (skipn (N.to_nat (off t) + List.length k) src) /\
    covers (typ t) (frag t) k /\
    N.to_nat (col t) + List.length (first_line k)
      <= List.length (line_text src (N.to_nat (line t))) + 1.
Proof.
  intros src toks t H Hin Hty.
  destruct (lex_all_token_at_offset _ _ _ H Hin Hty) as (k & Hf & Hc).
  exists k. split; [exact Hf|]. split; [exact Hc|].
  pose proof (positions_exact_all _ _ H) as [Hall _].
  rewrite Forall_forall in Hall. destruct (Hall t Hin) as (Ho & Hl & Hcol & _).
  pose proof (first_raw_app _ _ _ _ _ Hf) as Happ.
  rewrite Hl, Hcol, !Nnat.Nat2N.id.
  rewrite <- (firstn_skipn (N.to_nat (off t)) src) at 2.
  destruct (prefix_position_valid (firstn (N.to_nat (off t)) src) (skipn (N.to_nat (off t)) src)) as [_ ->].
  rewrite Happ. pose proof (first_line_app_le k (skipn (N.to_nat (off t) + List.length k) src)). lia.
Qed.

(* a token whose covered text contains no LF lies on its line as a whole *)
Corollary token_extent_on_line_k : forall src toks t,
  lex_all src = Some toks -> In t toks -> typ t <> END ->
  exists k, covers (typ t) (frag t) k /\
    (no_nl k = true ->
     N.to_nat (col t) + List.length k <= List.length (line_text src (N.to_nat (line t))) + 1).
Proof.
  intros src toks t H Hin Hty. destruct (token_first_line_on_line _ _ _ H Hin Hty) as (k & _ & Hc & Hle).
  exists k. split; [exact Hc|]. intros Hn. now rewrite (first_line_no_nl k Hn) in Hle.
Qed.

(* which tokens are those?  every token except QUOTED, WS, COMMENT covers exactly its
   fragment, and that fragment has no LF *)
Lemma wf_plain_no_nl ty f :
  wf_tk (ty, f) = true -> ty <> QUOTED -> no_nl f = true.
Proof.
  unfold wf_tk. cbn [fst snd]. intros Hwf Hq.
  assert (Htxt : existsb (tk_eqb (ty, f)) text_tokens = true -> no_nl f = true).
  { intros He. apply existsb_exists in He as (a & Hin & He). apply tk_eqb_eq in He; subst a.
    apply text_tokens_in in Hin as (ty' & lit & Ha & Hin). inversion Ha; subst.
    pose proof recognisers_no_nl as R. rewrite forallb_forall in R. exact (R _ Hin). }
  assert (Hall : forall p (g : bytes), (forall c, p c = true -> is_nl c = false) ->
                 forallb p g = true -> no_nl g = true).
  { intros p g Hp. unfold no_nl. induction g as [|c g IH]; [reflexivity|]. cbn [forallb]. intros Hf.
    apply andb_true_iff in Hf as [Hc Hf]. rewrite (Hp c Hc). cbn. now apply IH. }
  destruct ty; try discriminate; try congruence; auto.
  - (* DIGIT *) apply andb_true_iff in Hwf as [_ Hd]. apply (Hall is_digit); [|exact Hd].
    intros c Hc. destruct (is_nl c) eqn:E; [|reflexivity]. unfold is_nl in E. apply Ascii.eqb_eq in E. subst c. discriminate.
  - (* BAREWORD *) apply andb_true_iff in Hwf as [Hw _]. unfold is_word in Hw.
    destruct f as [|c f]; [discriminate|]. apply andb_true_iff in Hw as [Hc Hw].
    apply (Hall is_symbol_char).
    + intros d Hd. destruct (is_nl d) eqn:E; [|reflexivity]. unfold is_nl in E. apply Ascii.eqb_eq in E. subst d. discriminate.
    + cbn [forallb]. now rewrite (is_alpha_symbol c Hc), Hw.
Qed.

Theorem token_extent_on_line : forall src toks t,
  lex_all src = Some toks -> In t toks ->
  typ t <> END -> typ t <> QUOTED -> typ t <> WS -> typ t <> COMMENT ->
  N.to_nat (col t) + List.length (frag t) <= List.length (line_text src (N.to_nat (line t))) + 1.
Proof.
  intros src toks t H Hin He Hq Hw Hc.
  destruct (token_first_line_on_line _ _ _ H Hin He) as (k & Hf & Hcov & Hle).
  assert (Hk : k = frag t).
  { unfold covers in Hcov. destruct (typ t); try congruence; exact Hcov. }
  subst k.
  assert (Htriv : trivia_ty (typ t) = false) by (destruct (typ t); try reflexivity; congruence).
  pose proof (first_raw_wf _ _ _ _ _ Hf Htriv He) as Hwf.
  now rewrite (first_line_no_nl _ (wf_plain_no_nl _ _ Hwf Hq)) in Hle.
Qed.

(* the tokens that may span lines: what holds instead *)

(* COMMENT: "//" and the comment text lie on the line (the line end that the token also
   covers is the LF itself) *)
Corollary comment_extent_on_line : forall src toks t,
  lex_all src = Some toks -> In t toks -> typ t = COMMENT ->
  N.to_nat (col t) + 2 + List.length (frag t) <= List.length (line_text src (N.to_nat (line t))) + 1.
Proof.
  intros src toks t H Hin Hty.
  assert (He : typ t <> END) by congruence.
  destruct (token_first_line_on_line _ _ _ H Hin He) as (k & Hf & Hcov & Hle).
  rewrite Hty in Hcov. destruct Hcov as (eol & -> & Heol).
  pose proof (positions_exact_all _ _ H) as [Hall _]. rewrite Forall_forall in Hall.
  destruct (Hall t Hin) as (_ & _ & _ & Htxt). rewrite Hty in Htxt. destruct Htxt as (rest & _ & Hn & _).
  assert (Hfl : List.length (b "//" ++ frag t) <= List.length (first_line ((b "//" ++ frag t) ++ eol))).
  { rewrite <- (first_line_no_nl (b "//" ++ frag t)) at 1; [apply first_line_app_le|].
    unfold no_nl. rewrite forallb_app. cbn. exact Hn. }
  rewrite <- app_assoc in Hfl.
  assert (Hlen2 : List.length (b "//" ++ frag t) = 2 + List.length (frag t)) by (rewrite app_length; reflexivity).
  lia.
Qed.

(* QUOTED (a literal may contain raw LFs) and WS (a run may contain LFs): the start is a valid
   position (token_position_in_document) and the part up to the first LF lies on the line
   (token_first_line_on_line); for QUOTED that part includes the opening quote *)
Corollary quoted_first_line_on_line : forall src toks t,
  lex_all src = Some toks -> In t toks -> typ t = QUOTED ->
  exists body, closed_body body = true /\ frag t = decode_doc body /\
    N.to_nat (col t) + List.length (first_line (dq :: body ++ [dq]))
      <= List.length (line_text src (N.to_nat (line t))) + 1 /\
    1 <= List.length (first_line (dq :: body ++ [dq])).
Proof.
  intros src toks t H Hin Hty.
  assert (He : typ t <> END) by congruence.
  destruct (token_first_line_on_line _ _ _ H Hin He) as (k & Hf & Hcov & Hle).
  rewrite Hty in Hcov. destruct Hcov as (body & -> & Hc & Hd).
  exists body. repeat split; auto. rewrite first_line_cons. cbn. lia.
Qed.

(* ------------------------------------------------------------------ *)
(** * (3) in LSP terms (0-based line, 0-based byte column)             *)
(* ------------------------------------------------------------------ *)

Corollary token_position_lsp : forall src toks t,
  lex_all src = Some toks -> In t toks ->
  let l0 := N.to_nat (line t) - 1 in
  let c0 := N.to_nat (col t) - 1 in
  N.to_nat (line t) = l0 + 1 /\ N.to_nat (col t) = c0 + 1 /\
  l0 < List.length (lines_of src) /\ c0 <= List.length (nth l0 (lines_of src) []).
Proof.
  intros src toks t H Hin l0 c0.
  destruct (token_position_in_document _ _ _ H Hin) as [Hl Hc]. unfold line_text in Hc.
  subst l0 c0. repeat split; lia.
Qed.

Corollary token_position_lsp_lex : forall src toks t,
  lex src = Some toks -> In t toks ->
  N.to_nat (line t) - 1 < List.length (lines_of src) /\
  N.to_nat (col t) - 1 <= List.length (nth (N.to_nat (line t) - 1) (lines_of src) []).
Proof.
  intros src toks t H Hin.
  destruct (token_position_in_document_lex _ _ _ H Hin) as [Hl Hc]. unfold line_text in Hc. lia.
Qed.

(* the range end of a single-line token is a valid LSP position too *)
Corollary token_range_lsp : forall src toks t,
  lex_all src = Some toks -> In t toks ->
  typ t <> END -> typ t <> QUOTED -> typ t <> WS -> typ t <> COMMENT ->
  N.to_nat (col t) - 1 + List.length (frag t)
    <= List.length (nth (N.to_nat (line t) - 1) (lines_of src) []).
Proof.
  intros src toks t H Hin He Hq Hw Hc.
  pose proof (token_extent_on_line _ _ _ H Hin He Hq Hw Hc) as Hx.
  destruct (token_position_in_document _ _ _ H Hin) as [_ Hcol]. unfold line_text in *. lia.
Qed.

(* non-vacuity *)
Example ex_lines_of :
  lines_of (b "ab" ++ [nl] ++ [cr; nl] ++ b "c") = [b "ab"; [cr]; b "c"] /\
  lines_of (b "x" ++ [nl]) = [b "x"; []] /\ lines_of [] = [[]].
Proof. repeat split. Qed.

Example ex_valid_pos :
  let src := b "let x = 1;" ++ [nl] in
  valid_pos src 1 11 /\ valid_pos src 2 1 /\ ~ valid_pos src 1 12 /\ ~ valid_pos src 3 1 /\ ~ valid_pos src 0 1.
Proof. cbv zeta. unfold valid_pos, line_text. cbn. repeat split; try lia. Qed.

Print Assumptions token_position_in_document.
Print Assumptions token_position_in_document_lex.
Print Assumptions token_first_line_on_line.
Print Assumptions token_extent_on_line_k.
Print Assumptions token_extent_on_line.
Print Assumptions comment_extent_on_line.
Print Assumptions quoted_first_line_on_line.
Print Assumptions token_position_lsp.
Print Assumptions token_position_lsp_lex.
Print Assumptions token_range_lsp.
