(* The ordered alternation of `fn token` in src/tokenizer/mod.rs is REGENERATED from the Rust source on
   every run (translate/t_vocab.py -> gen/LexVocab.v); the model and all its finite obligations are
   re-checked against the table the code has today. *)
From Ucg Require Import base.Bytes lex.Lex_Types.
From UcgGen Require Import LexVocab.
Local Open Scope string_scope.

Definition recognisers : list recogniser := gen_recognisers.

(* the multi-character operators named by property C11 *)
Definition multi_ops : list string :=
  [ "=="; "=>"; ">="; "<="; ".."; "::"; "&&"; "||"; "%%"; "!="; "!~" ].
