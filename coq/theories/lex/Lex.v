(* MODEL of src/tokenizer/mod.rs (+ src/iter.rs, abortable_parser 0.2.3
   StrIter and combinators).  Executable definitions only; proofs are in
   Lex_Lemmas.v.  Everything works on BYTES: columns and offsets count bytes,
   exactly like StrIter::next. *)
From Ucg Require Import base.Bytes lex.Lex_Types lex.Vocab.
From UcgGen Require Import LexVocab.

(* ---------- position tracking: abortable_parser::iter::StrIter::next ---------- *)
Record pos_state := { p_line : N; p_col : N; p_off : N }.

(* StrIter::new: offset 0, line 1, column 1; OffsetStrIter::new adds 0/0 *)
Definition ps0 : pos_state := {| p_line := 1; p_col := 1; p_off := 0 |}.

Definition advance1 (ps : pos_state) (c : ascii) : pos_state :=
  if Ascii.eqb c nl
  then {| p_line := N.succ (p_line ps); p_col := 1; p_off := N.succ (p_off ps) |}
  else {| p_line := p_line ps; p_col := N.succ (p_col ps); p_off := N.succ (p_off ps) |}.

Definition advance (ps : pos_state) (consumed : bytes) : pos_state :=
  fold_left advance1 consumed ps.

Definition mk_tok (ty : ttype) (f : bytes) (ps : pos_state) : token :=
  {| typ := ty; frag := f; line := p_line ps; col := p_col ps; off := p_off ps |}.

(* ---------- byte classes ---------- *)
Definition dq : ascii := """"%char.
Definition bsl : ascii := "\"%char.
Definition slash : ascii := "/"%char.

Definition in_range (lo hi : N) (c : ascii) : bool :=
  let n := N_of_ascii c in (N.leb lo n && N.leb n hi)%bool.

(* (b as char).is_ascii_digit() *)
Definition is_digit (c : ascii) : bool := in_range 48 57 c.
(* (b as char).is_ascii_alphabetic() *)
Definition is_alpha (c : ascii) : bool := (in_range 65 90 c || in_range 97 122 c)%bool.
(* is_symbol_char: ascii alphanumeric, '-' or '_' *)
Definition is_symbol_char (c : ascii) : bool :=
  (is_alpha c || is_digit c || Ascii.eqb c "-"%char || Ascii.eqb c "_"%char)%bool.
(* ascii_ws: `(b as char).is_whitespace()` on a single BYTE, i.e. on U+0000..U+00FF:
   U+0009..U+000D, U+0020, U+0085, U+00A0 *)
Definition is_ws (c : ascii) : bool :=
  let n := N_of_ascii c in
  (in_range 9 13 c || N.eqb n 32 || N.eqb n 133 || N.eqb n 160)%bool.

(* ---------- primitive scanners ---------- *)
(* longest prefix of bytes satisfying p, and the remainder
   (consume_all! / repeat! over a one-byte matcher) *)
Fixpoint span (p : ascii -> bool) (s : bytes) : bytes * bytes :=
  match s with
  | c :: s' => if p c then let (a, r) := span p s' in (c :: a, r) else ([], s)
  | [] => ([], [])
  end.

Definition starts_with_nl (s : bytes) : bool :=
  match s with c :: _ => Ascii.eqb c nl | [] => false end.

(* until!(either!(eoi, "\r\n", "\n")) : text before the line end, and the rest *)
Fixpoint until_eol (s : bytes) : bytes * bytes :=
  match s with
  | [] => ([], [])
  | c :: s' =>
      if (Ascii.eqb c nl || (Ascii.eqb c cr && starts_with_nl s'))%bool then ([], s)
      else let (a, r) := until_eol s' in (c :: a, r)
  end.

(* optional!(either!("\r\n", "\n")) : the consumed line end and the rest *)
Definition eat_eol (s : bytes) : bytes * bytes :=
  match s with
  | c :: s' =>
      if Ascii.eqb c nl then ([c], s')
      else if Ascii.eqb c cr then
        match s' with
        | d :: s'' => if Ascii.eqb d nl then ([c; d], s'') else ([], s)
        | [] => ([], s)
        end
      else ([], s)
  | [] => ([], [])
  end.

(* escapequoted: [esc] is the `escape` flag.  Some (value, consumed, rest), the
   consumed bytes include the closing quote; None = ran off the end (Incomplete). *)
Definition unescape (c : ascii) : ascii :=
  if Ascii.eqb c "n"%char then nl
  else if Ascii.eqb c "r"%char then cr
  else if Ascii.eqb c "t"%char then tab
  else c.

Fixpoint escq (esc : bool) (s : bytes) : option (bytes * bytes * bytes) :=
  match s with
  | [] => None
  | c :: s' =>
      if esc then
        match escq false s' with
        | Some (f, k, r) => Some (unescape c :: f, c :: k, r)
        | None => None
        end
      else if Ascii.eqb c bsl then
        match escq true s' with
        | Some (f, k, r) => Some (f, c :: k, r)
        | None => None
        end
      else if Ascii.eqb c dq then Some ([], [c], s')
      else
        match escq false s' with
        | Some (f, k, r) => Some (c :: f, c :: k, r)
        | None => None
        end
  end.

(* whitespace: peek!(ascii_ws) then repeat!(ascii_ws): (consumed, rest) *)
Definition ws_run (s : bytes) : option (bytes * bytes) :=
  match s with
  | c :: _ => if is_ws c then Some (span is_ws s) else None
  | [] => None
  end.

(* comment: "//" body [eol] : (body, consumed, rest) *)
Definition comment_run (s : bytes) : option (bytes * bytes * bytes) :=
  match strip_prefix (b "//") s with
  | Some r =>
      let (body, r1) := until_eol r in
      let (eol, r2) := eat_eol r1 in
      Some (body, b "//" ++ body ++ eol, r2)
  | None => None
  end.

(* ---------- recognisers ---------- *)
(* abortable_parser::Result restricted to what `token` can return:
   Complete(rest, tok) / Fail / Incomplete.  (Abort cannot arise: `comment`'s
   until! always completes because of its eoi alternative.)
   RComplete typ fragment consumed rest,  with  input = consumed ++ rest. *)
Inductive rres :=
| RComplete (ty : ttype) (fr : bytes) (consumed : bytes) (rest : bytes)
| RFail
| RIncomplete.

Definition run_rec (r : recogniser) (s : bytes) : rres :=
  match r with
  | RStr =>
      match s with
      | c :: s' =>
          if Ascii.eqb c dq then
            match escq false s' with
            | Some (f, k, rest) => RComplete QUOTED f (c :: k) rest
            | None => RIncomplete
            end
          else RFail
      | [] => RFail
      end
  | RText ty lit =>
      let l := b lit in
      match strip_prefix l s with
      | Some rest => RComplete ty l l rest
      | None => RFail
      end
  | RTextWS ty lit =>
      let l := b lit in
      (* do_text_token_tok!(ty, lit, WS): the literal must be followed by whitespace or a
         comment.  With `peek!(either!(whitespace, comment))` (kw_lookahead_only = true, the
         current source) that text is only looked at and left for the main loop; with the bare
         `either!(whitespace, comment)` (false, the source before commit b648ec7) it is consumed
         by the keyword recogniser. *)
      match strip_prefix l s with
      | Some r1 =>
          match ws_run r1 with
          | Some (k, rest) =>
              if kw_lookahead_only then RComplete ty l l r1 else RComplete ty l (l ++ k) rest
          | None =>
              match comment_run r1 with
              | Some (_, k, rest) =>
                  if kw_lookahead_only then RComplete ty l l r1 else RComplete ty l (l ++ k) rest
              | None => RFail
              end
          end
      | None => RFail
      end
  | RDigit =>
      match s with
      | c :: _ => if is_digit c then let (d, rest) := span is_digit s in RComplete DIGIT d d rest
                  else RFail
      | [] => RFail
      end
  | RComment =>
      match comment_run s with
      | Some (body, k, rest) => RComplete COMMENT body k rest
      | None => RFail
      end
  | RBareword =>
      match s with
      | c :: _ => if is_alpha c then let (w, rest) := span is_symbol_char s in RComplete BAREWORD w w rest
                  else RFail
      | [] => RFail
      end
  | RWhitespace =>
      match ws_run s with
      | Some (k, rest) => RComplete WS [] k rest
      | None => RFail
      end
  | REoi =>
      match s with
      | [] => RComplete END [] [] []
      | _ :: _ => RFail
      end
  end.

(* either!: first alternative that does not Fail decides (Incomplete stops too) *)
Fixpoint alt (rs : list recogniser) (s : bytes) : rres :=
  match rs with
  | [] => RFail
  | r :: rs' => match run_rec r s with RFail => alt rs' s | x => x end
  end.

(* fn token, without positions *)
Definition first_raw (s : bytes) : rres := alt recognisers s.

(* fn token: the token carries the position of the iterator BEFORE it
   (Position::from(&span)); the new iterator state is obtained by feeding the
   consumed bytes through StrIter::next. *)
Definition first_tok (ps : pos_state) (s : bytes) : option (token * bytes * pos_state) :=
  match first_raw s with
  | RComplete ty f k rest => Some (mk_tok ty f ps, rest, advance ps k)
  | RFail | RIncomplete => None
  end.

(* ---------- the tokenize loop ---------- *)
Inductive lex_result := LexOk (l : list token) | LexErr | OutOfFuel.

Fixpoint lex_from (fuel : nat) (ps : pos_state) (s : bytes) : lex_result :=
  match s with
  | [] => LexOk [mk_tok END [] ps]               (* eoi -> break; push END at Position::from(&i) *)
  | _ :: _ =>
      match fuel with
      | O => OutOfFuel
      | S f =>
          match first_tok ps s with
          | None => LexErr                        (* Fail / Incomplete -> Err *)
          | Some (t, rest, ps') =>
              match lex_from f ps' rest with
              | LexOk l => LexOk (t :: l)
              | e => e
              end
          end
      end
  end.

Definition lex_fuel (fuel : nat) (s : bytes) : lex_result := lex_from fuel ps0 s.

(* every token incl. WS and COMMENT (what the comment-map path sees), then END *)
Definition lex_all (s : bytes) : option (list token) :=
  match lex_fuel (List.length s + 1) s with
  | LexOk l => Some l
  | LexErr | OutOfFuel => None
  end.

Definition is_trivia (t : token) : bool :=
  match typ t with WS | COMMENT => true | _ => false end.

(* tokenizer::tokenize(OffsetStrIter::new(src), None) ; None = Err *)
Definition lex (s : bytes) : option (list token) :=
  option_map (filter (fun t => negb (is_trivia t))) (lex_all s).
