(* lex_filtered_unchanged: whether the keyword recognisers consume the whitespace / comment
   after the keyword (source before commit b648ec7, flag false) or only look at it (current
   source, flag true) makes no difference to what tokenize(.., None) returns -- types, fragments
   AND positions.  Only lex_all (the comment-map path) differs. *)
From Ucg Require Import base.Bytes base.Bytes_Lemmas lex.Lex_Types lex.Vocab lex.Lex lex.Lex_Lemmas lex.Lex_Shift.
From UcgGen Require Import LexVocab.
Local Open Scope list_scope.

(* the model with the flag as a parameter *)
Definition run_rec_g (kw : bool) (r : recogniser) (s : bytes) : rres :=
  match r with
  | RTextWS ty lit =>
      let l := b lit in
      match strip_prefix l s with
      | Some r1 =>
          match ws_run r1 with
          | Some (k, rest) => if kw then RComplete ty l l r1 else RComplete ty l (l ++ k) rest
          | None =>
              match comment_run r1 with
              | Some (_, k, rest) => if kw then RComplete ty l l r1 else RComplete ty l (l ++ k) rest
              | None => RFail
              end
          end
      | None => RFail
      end
  | _ => run_rec r s
  end.

Fixpoint alt_g (kw : bool) (rs : list recogniser) (s : bytes) : rres :=
  match rs with
  | [] => RFail
  | r :: rs' => match run_rec_g kw r s with RFail => alt_g kw rs' s | x => x end
  end.

Fixpoint lex_from_g (kw : bool) (fuel : nat) (ps : pos_state) (s : bytes) : lex_result :=
  match s with
  | [] => LexOk [mk_tok END [] ps]
  | _ :: _ =>
      match fuel with
      | O => OutOfFuel
      | S f =>
          match alt_g kw recognisers s with
          | RComplete ty fr k rest =>
              match lex_from_g kw f (advance ps k) rest with
              | LexOk l => LexOk (mk_tok ty fr ps :: l)
              | e => e
              end
          | _ => LexErr
          end
      end
  end.

Definition lex_g (kw : bool) (s : bytes) : option (list token) :=
  res_filter (lex_from_g kw (List.length s + 1) ps0 s).

(* the parametrised copy IS the model at the generated flag *)
Lemma run_rec_g_model r s : run_rec_g kw_lookahead_only r s = run_rec r s.
Proof. destruct r; reflexivity. Qed.

Lemma alt_g_model rs s : alt_g kw_lookahead_only rs s = alt rs s.
Proof. induction rs as [|r rs IH]; [reflexivity|]. cbn [alt_g alt]. now rewrite run_rec_g_model, IH. Qed.

Lemma lex_from_g_model fuel : forall ps s, lex_from_g kw_lookahead_only fuel ps s = lex_from fuel ps s.
Proof.
  induction fuel as [|fuel IH]; intros ps s; destruct s as [|c s]; try reflexivity.
  cbn [lex_from_g lex_from]. unfold first_tok, first_raw. rewrite alt_g_model.
  destruct (alt recognisers (c :: s)); try reflexivity. now rewrite IH.
Qed.

Lemma lex_g_model s : lex_g kw_lookahead_only s = lex s.
Proof. unfold lex_g. rewrite lex_from_g_model. symmetry. apply lex_lexA. Qed.

(* how the two variants of one recogniser step relate *)
Definition kw_rel (x_model x_cons : rres) : Prop :=
  x_cons = x_model \/
  exists ty l r1 k rest,
    x_model = RComplete ty l l r1 /\ x_cons = RComplete ty l (l ++ k) rest /\
    (ws_run r1 = Some (k, rest) \/ exists bd, ws_run r1 = None /\ comment_run r1 = Some (bd, k, rest)).

Lemma run_rec_kw_rel r s : kw_rel (run_rec_g true r s) (run_rec_g false r s).
Proof.
  destruct r; try (left; reflexivity). cbn [run_rec_g].
  destruct (strip_prefix (b lit) s) as [r1|]; [|left; reflexivity].
  destruct (ws_run r1) as [[k rest]|] eqn:Ew.
  - right. exists t, (b lit), r1, k, rest. auto.
  - destruct (comment_run r1) as [[[bd k] rest]|] eqn:Ec; [|left; reflexivity].
    right. exists t, (b lit), r1, k, rest. eauto 6.
Qed.

Lemma alt_kw_rel rs s : kw_rel (alt_g true rs s) (alt_g false rs s).
Proof.
  induction rs as [|r rs IH]; [left; reflexivity|]. cbn [alt_g].
  destruct (run_rec_kw_rel r s) as [E|(ty & l & r1 & k & rest & E1 & E2 & H)].
  - rewrite E. destruct (run_rec_g true r s); [left; reflexivity|exact IH|left; reflexivity].
  - rewrite E1, E2. right. exists ty, l, r1, k, rest. auto.
Qed.

Lemma res_filter_cons_g t r :
  res_filter (match r with LexOk l => LexOk (t :: l) | LexErr => LexErr | OutOfFuel => OutOfFuel end) =
  option_map (app (filter nt [t])) (res_filter r).
Proof. apply res_filter_cons. Qed.

(* the model (flag true) against the consuming variant (flag false) *)
Lemma lex_from_consume_same fuel : forall ps s,
  List.length s < fuel ->
  res_filter (lex_from_g false fuel ps s) = res_filter (lex_from fuel ps s).
Proof.
  assert (Htrue : forall rs s, alt_g true rs s = alt rs s).
  { intros rs s. exact (alt_g_model rs s). }
  induction fuel as [|fuel IH]; intros ps s Hlen; [lia|].
  destruct s as [|c s]; [reflexivity|].
  cbn [lex_from_g lex_from]. unfold first_tok, first_raw. rewrite <- Htrue.
  assert (Hne : c :: s <> []) by discriminate.
  destruct (alt_kw_rel recognisers (c :: s)) as [E|(ty & l & r1 & k & rest & E1 & E2 & H)].
  - rewrite E. destruct (alt_g true recognisers (c :: s)) as [ty f k rest| |] eqn:Ea; try reflexivity.
    rewrite Htrue in Ea. fold (first_raw (c :: s)) in Ea.
    pose proof (first_raw_app _ _ _ _ _ Ea) as Happ.
    pose proof (first_raw_progress _ _ _ _ _ Hne Ea) as Hk.
    assert (Hlt : List.length rest < fuel).
    { apply (f_equal (@List.length _)) in Happ. rewrite app_length in Happ.
      destruct k; [congruence|]. cbn in Happ, Hlen. lia. }
    rewrite !res_filter_cons_g. now rewrite (IH _ _ Hlt).
  - rewrite E1, E2. rewrite Htrue in E1. fold (first_raw (c :: s)) in E1.
    pose proof (first_raw_app _ _ _ _ _ E1) as Happ.
    pose proof (first_raw_progress _ _ _ _ _ Hne E1) as Hl.
    assert (Hk : r1 = k ++ rest /\ k <> []).
    { destruct H as [H|(bd & _ & H)]; [now apply ws_run_app in H|now apply comment_run_app in H]. }
    destruct Hk as [Hr1 Hk].
    assert (Hlen1 : List.length r1 < fuel).
    { apply (f_equal (@List.length _)) in Happ. rewrite app_length in Happ.
      destruct l; [congruence|]. cbn in Happ, Hlen. lia. }
    assert (Hlen2 : List.length rest < List.length r1).
    { rewrite Hr1, app_length. destruct k; [congruence|cbn; lia]. }
    rewrite !res_filter_cons_g. f_equal.
    rewrite (IH (advance ps (l ++ k)) rest) by lia.
    (* the model now lexes one trivia token: exactly what the other variant swallowed *)
    destruct fuel as [|fuel']; [lia|].
    assert (Hr1ne : r1 <> []) by (rewrite Hr1; destruct k; [congruence|discriminate]).
    destruct r1 as [|d r1']; [congruence|].
    assert (Hfirst : exists tty tf, first_raw (d :: r1') = RComplete tty tf k rest /\ trivia_ty tty = true).
    { destruct H as [H|(bd & _ & H)].
      - exists WS, []. split; [|reflexivity]. apply first_raw_ws; [|exact H].
        unfold ws_run in H. destruct (is_ws d); [reflexivity|discriminate].
      - exists COMMENT, bd. split; [|reflexivity]. now apply first_raw_comment. }
    destruct Hfirst as (tty & tf & Hf & Htriv).
    cbn [List.length] in Hlen1, Hlen2.
    rewrite (lex_from_fuel_mono (S fuel') fuel' (advance ps (l ++ k)) rest) by lia.
    cbn [lex_from]. unfold first_tok. rewrite Hf, res_filter_cons_g.
    assert (Hnil : filter nt [mk_tok tty tf (advance ps l)] = []).
    { cbn. unfold nt, is_trivia. cbn [typ mk_tok]. destruct tty; cbn in Htriv; try discriminate; reflexivity. }
    rewrite Hnil, option_map_app_nil, advance_app. reflexivity.
Qed.

Theorem lex_filtered_unchanged : forall kw s, lex_g kw s = lex s.
Proof.
  intros kw s. destruct kw.
  - exact (lex_g_model s).
  - unfold lex_g. rewrite lex_from_consume_same by lia. symmetry. apply lex_lexA.
Qed.

Corollary lex_flag_irrelevant : forall s, lex_g true s = lex_g false s.
Proof. intros s. now rewrite !lex_filtered_unchanged. Qed.

Print Assumptions lex_filtered_unchanged.
Print Assumptions lex_flag_irrelevant.
