(* Non-vacuity examples for the tokenizer model and its theorems (C11).
   Every expected value below was also observed on the real tokenizer
   (differential harness). *)
From Ucg Require Import base.Bytes lex.Lex_Types lex.Vocab lex.Lex lex.Lex_Lemmas.
Local Open Scope string_scope.
Local Open Scope list_scope.

(* (type, fragment, (line, column, byte offset)) *)
Definition show_tok (t : token) := (typ t, string_of_list_ascii (frag t), (line t, col t, off t)).
Definition show (s : bytes) := option_map (map show_tok) (lex s).
Definition show_all (s : bytes) := option_map (map show_tok) (lex_all s).
Definition LF : string := String nl EmptyString.
Definition CRLF : string := String cr (String nl EmptyString).

(* a statement; the escape \n inside the literal is decoded, positions are bytes *)
Example ex_statement :
  show (b "let x = ""a\nb"";") =
  Some [ (BAREWORD, "let", (1, 1, 0)); (BAREWORD, "x", (1, 5, 4)); (PUNCT, "=", (1, 7, 6));
         (QUOTED, ("a" ++ LF ++ "b")%string, (1, 9, 8)); (PUNCT, ";", (1, 15, 14)); (END, "", (1, 16, 15)) ]%N.
Proof. vm_compute. reflexivity. Qed.

(* CRLF and LF line ends; a two-byte character advances the column by two *)
Example ex_lines_and_bytes :
  show (b ("a" ++ CRLF ++ "  b" ++ LF)%string
        ++ [dq; ascii_of_nat 195; ascii_of_nat 169; dq] ++ b " c") =
  Some [ (BAREWORD, "a", (1, 1, 0)); (BAREWORD, "b", (2, 3, 5));
         (QUOTED, String (ascii_of_nat 195) (String (ascii_of_nat 169) ""), (3, 1, 7));
         (BAREWORD, "c", (3, 6, 12)); (END, "", (3, 7, 13)) ]%N.
Proof. vm_compute. reflexivity. Qed.

(* longest operators, glued *)
Example ex_operators :
  option_map (map (fun t => string_of_list_ascii (frag t))) (lex (b "x=>==..&&|||%%%::!=!~>=<=")) =
  Some [ "x"; "=>"; "=="; ".."; "&&"; "||"; "|"; "%%"; "%"; "::"; "!="; "!~"; ">="; "<="; "" ].
Proof. vm_compute. reflexivity. Qed.

(* lex_all keeps WS and COMMENT tokens; WS has an empty fragment; the comment
   text excludes "//" and the line end *)
Example ex_lex_all :
  show_all (b ("a // c" ++ CRLF ++ "b")%string) =
  Some [ (BAREWORD, "a", (1, 1, 0)); (WS, "", (1, 2, 1)); (COMMENT, " c", (1, 3, 2));
         (BAREWORD, "b", (2, 1, 8)); (END, "", (2, 2, 9)) ]%N.
Proof. vm_compute. reflexivity. Qed.

(* ---- behaviours of the real tokenizer worth knowing (all reproduced on it) ---- *)

(* DEFECT: `true`, `false` and `NULL` have no word-boundary check: they split identifiers.
   (keywords like `in` do have one: `index` stays whole) *)
Example ex_keyword_prefix_splits :
  show (b "trueish NULLABLE falsey index") =
  Some [ (BOOLEAN, "true", (1, 1, 0)); (BAREWORD, "ish", (1, 5, 4));
         (EMPTY, "NULL", (1, 9, 8)); (BAREWORD, "ABLE", (1, 13, 12));
         (BOOLEAN, "false", (1, 18, 17)); (BAREWORD, "y", (1, 23, 22));
         (BAREWORD, "index", (1, 25, 24)); (END, "", (1, 30, 29)) ]%N.
Proof. vm_compute. reflexivity. Qed.

(* FIXED in the source (commit b648ec7): a comment glued to a keyword used to be consumed by the
   keyword recogniser (no COMMENT token, nothing in the comment map).  The recogniser now only
   looks ahead: the comment is a token like after any other word, and the whitespace after a
   keyword is an ordinary WS token of lex_all. *)
Example ex_comment_after_keyword :
  show_all (b ("let//c" ++ LF ++ "x")%string) =
  Some [ (BAREWORD, "let", (1, 1, 0)); (COMMENT, "c", (1, 4, 3)); (BAREWORD, "x", (2, 1, 7));
         (END, "", (2, 2, 8)) ]%N
  /\
  show_all (b ("lex//c" ++ LF ++ "x")%string) =
  Some [ (BAREWORD, "lex", (1, 1, 0)); (COMMENT, "c", (1, 4, 3)); (BAREWORD, "x", (2, 1, 7));
         (END, "", (2, 2, 8)) ]%N
  /\
  show_all (b "let  x") =
  Some [ (BAREWORD, "let", (1, 1, 0)); (WS, "", (1, 4, 3)); (BAREWORD, "x", (1, 6, 5));
         (END, "", (1, 7, 6)) ]%N.
Proof. repeat split; vm_compute; reflexivity. Qed.

(* the bytes 0x85 and 0xA0 are whitespace for ascii_ws, even alone *)
Example ex_latin1_whitespace :
  show ([ascii_of_nat 133] ++ b "x" ++ [ascii_of_nat 160]) =
  Some [ (BAREWORD, "x", (1, 2, 1)); (END, "", (1, 4, 3)) ]%N.
Proof. vm_compute. reflexivity. Qed.

(* errors: a lone '&', a lone '!', an identifier starting with '_', an
   unterminated string, any non-ASCII character outside a string or comment *)
Example ex_errors :
  lex (b "a & b") = None /\ lex (b "!x") = None /\ lex (b "_x") = None /\
  lex (b """abc") = None /\ lex [ascii_of_nat 195; ascii_of_nat 169] = None.
Proof. repeat split; vm_compute; reflexivity. Qed.

(* "/" directly followed by a comment is swallowed into the comment *)
Example ex_slash_comment :
  strip_lex (b "a///x") = Some [ (BAREWORD, b "a"); tk_end ] /\
  strip_lex (b "a/ //x") = Some [ (BAREWORD, b "a"); (PUNCT, b "/"); tk_end ].
Proof. split; vm_compute; reflexivity. Qed.

(* instances of the theorems *)
Example ex_string_decode :
  lex (b """" ++ encode_str [nl; "\"%char; dq; ascii_of_nat 195; ascii_of_nat 169] ++ b """") =
  Some [ mk_tok QUOTED [nl; "\"%char; dq; ascii_of_nat 195; ascii_of_nat 169] ps0;
         {| typ := END; frag := []; line := 1; col := 11; off := 10 |} ].
Proof. rewrite string_decode. vm_compute. reflexivity. Qed.

Example ex_positions : exists toks, lex (b ("a" ++ LF ++ " ""s""")%string) = Some toks /\
  Forall (token_ok (b ("a" ++ LF ++ " ""s""")%string)) toks /\ List.length toks = 3.
Proof.
  eexists. split; [vm_compute; reflexivity|]. split; [|reflexivity].
  apply (positions_exact (b ("a" ++ LF ++ " ""s""")%string)). vm_compute. reflexivity.
Qed.

Example ex_needs_sep :
  needs_sep (BAREWORD, b "a") (BAREWORD, b "b") = true /\
  needs_sep (BAREWORD, b "a") (DIGIT, b "1") = true /\
  needs_sep (DIGIT, b "1") (BAREWORD, b "a") = false /\
  needs_sep (PUNCT, b "=") (PUNCT, b "=") = true /\
  needs_sep (PUNCT, b ".") (PUNCT, b ".") = true /\
  needs_sep (PUNCT, b "/") (PUNCT, b "/") = true /\
  needs_sep (PUNCT, b "==") (PUNCT, b "=") = false /\
  needs_sep (BAREWORD, b "let") (PUNCT, b "-") = true /\
  needs_sep (BAREWORD, b "let") (PUNCT, b "(") = false /\
  needs_sep (BOOLEAN, b "true") (BAREWORD, b "x") = false /\
  needs_sep (QUOTED, b "s") (QUOTED, b "t") = false.
Proof. repeat split; vm_compute; reflexivity. Qed.

(* layout_irrelevant, instantiated: `let x=1;` written tightly, and with
   blanks, CRLF and comments (one of them glued to the keyword) *)
Definition ex_ts : list tk :=
  [ (BAREWORD, b "let"); (BAREWORD, b "x"); (PUNCT, b "="); (DIGIT, b "1"); (PUNCT, b "/");
    (QUOTED, [nl; dq]); (PUNCT, b ";") ].
Definition ex_l1 : layout := ([], [ [SSp]; []; []; []; []; []; [] ]).
Definition ex_l2 : layout :=
  ([SCmt (b " header"); SCrLf],
   [ [SCmt (b "glued to let")]; [STab; SLf]; [SSp]; [SCmt (b "x")]; [SSp; SCmt (b "after slash")];
     []; [SCrLf; SCmt (b "end // really")] ]).

Example ex_render_1 : string_of_list_ascii (render ex_ts ex_l1) = "let x=1/""\n\"""";".
Proof. vm_compute. reflexivity. Qed.

Example ex_layouts_valid :
  forallb wf_tk ex_ts = true /\ valid_layout ex_ts ex_l1 = true /\ valid_layout ex_ts ex_l2 = true.
Proof. repeat split; vm_compute; reflexivity. Qed.

Example ex_layout_irrelevant :
  option_map (map strip) (lex (render ex_ts ex_l1)) = option_map (map strip) (lex (render ex_ts ex_l2))
  /\ option_map (map strip) (lex (render ex_ts ex_l1)) = Some (ex_ts ++ [tk_end]).
Proof. apply layout_irrelevant; vm_compute; reflexivity. Qed.

(* the validity conditions are needed: glued barewords merge, "/" followed by a
   comment disappears into it, "= =" glued is "==" *)
Example ex_invalid_layouts :
  valid_layout [(BAREWORD, b "a"); (BAREWORD, b "b")] ([], []) = false /\
  strip_lex (render [(BAREWORD, b "a"); (BAREWORD, b "b")] ([], [])) = Some [(BAREWORD, b "ab"); tk_end] /\
  valid_layout [(PUNCT, b "/")] ([], [[SCmt (b "c")]]) = false /\
  strip_lex (render [(PUNCT, b "/")] ([], [[SCmt (b "c")]])) = Some [tk_end] /\
  valid_layout [(PUNCT, b "="); (PUNCT, b "=")] ([], []) = false /\
  strip_lex (render [(PUNCT, b "="); (PUNCT, b "=")] ([], [])) = Some [(PUNCT, b "=="); tk_end].
Proof. repeat split; vm_compute; reflexivity. Qed.

(* tokens the lexer can never produce are not well formed *)
Example ex_not_wf :
  wf_tk (BAREWORD, b "trueish") = false /\ wf_tk (BAREWORD, b "NULL") = false /\
  wf_tk (BAREWORD, b "1a") = false /\ wf_tk (PUNCT, b "&") = false /\ wf_tk (DIGIT, b "1a") = false /\
  wf_tk (BAREWORD, b "index") = true /\ wf_tk (BAREWORD, b "let") = true.
Proof. repeat split; vm_compute; reflexivity. Qed.

Print Assumptions lex_total.
Print Assumptions string_decode.
Print Assumptions string_decode_min.
Print Assumptions decode_spec.
Print Assumptions decode_spec_step.
Print Assumptions unterminated_string_is_error.
Print Assumptions positions_exact.
Print Assumptions positions_exact_all.
Print Assumptions longest_operator.
Print Assumptions longest_operator_byte.
Print Assumptions longest_operator_enumerated.
Print Assumptions pairs_exhaustive.
Print Assumptions layout_canonical.
Print Assumptions layout_irrelevant.
Print Assumptions lex_tokens_wf.
Print Assumptions relayout.
Print Assumptions glue_ok.
Print Assumptions blank_layout_valid.
