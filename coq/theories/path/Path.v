(* Model of /repo/src/path.rs [normalize] on Unix:

     pub fn normalize(p: PathBuf) -> PathBuf {
         let mut out = PathBuf::new();
         for c in p.components() {
             match c {
                 Component::ParentDir => { out.pop(); }
                 Component::CurDir => {}
                 other => out.push(other),
             }
         }
         out
     }

   Conventions: a path is its byte text ([bytes]); "/" is the only
   separator (Unix; no prefixes).  [normalize : bytes -> bytes] is the text
   of the input PathBuf to the text of the output PathBuf.
   Executable definitions (and specification-level definitions used in
   theorem statements) only; proofs are in Path_Lemmas.v. *)
From Ucg Require Import base.Bytes.

Definition slash : ascii := "/"%char.
Definition dot : bytes := b ".".
Definition dotdot : bytes := b "..".

Inductive comp : Type :=
| Root                      (* Component::RootDir   *)
| Cur                       (* Component::CurDir    *)
| Parent                    (* Component::ParentDir *)
| Normal (name : bytes).    (* Component::Normal    *)

(* ---------- std::path::Path::components() on Unix *)

(* split on a separator; always returns at least one (possibly empty)
   segment: split "a//b/" = ["a"; ""; "b"; ""] *)
Fixpoint split_on (sep : ascii) (s : bytes) : list bytes :=
  match s with
  | [] => [[]]
  | c :: s' =>
      if Ascii.eqb c sep then [] :: split_on sep s'
      else match split_on sep s' with
           | seg :: segs => (c :: seg) :: segs
           | [] => [[c]]          (* unreachable *)
           end
  end.

Definition is_abs (p : bytes) : bool :=
  match p with c :: _ => Ascii.eqb c slash | [] => false end.
Definition absolute (p : bytes) : Prop := is_abs p = true.

(* a non-leading segment: empty and "." vanish *)
Definition seg_comps (seg : bytes) : list comp :=
  match seg with
  | [] => []
  | _ => if bytes_eqb seg dot then []
         else if bytes_eqb seg dotdot then [Parent]
         else [Normal seg]
  end.

(* the first segment of a relative path: "." is kept as CurDir *)
Definition first_seg_comps (seg : bytes) : list comp :=
  if bytes_eqb seg dot then [Cur] else seg_comps seg.

Definition components (p : bytes) : list comp :=
  let segs := split_on slash p in
  if is_abs p then Root :: flat_map seg_comps segs
  else match segs with
       | seg0 :: rest => first_seg_comps seg0 ++ flat_map seg_comps rest
       | [] => []
       end.

(* ---------- the loop body, on a PathBuf held as a REVERSED component list *)

(* PathBuf::pop(): no-op on the empty path and on the bare root *)
Definition pop_rev (st : list comp) : list comp :=
  match st with
  | [] => []
  | [Root] => [Root]
  | _ :: st' => st'
  end.

Definition step (st : list comp) (c : comp) : list comp :=
  match c with
  | Parent => pop_rev st
  | Cur => st
  | Root => [Root]              (* push of an absolute path replaces *)
  | Normal n => Normal n :: st
  end.

Definition normalize_c (cs : list comp) : list comp :=
  rev (fold_left step cs []).

(* ---------- PathBuf text *)

Definition comp_text (c : comp) : bytes :=
  match c with
  | Root => []
  | Cur => dot
  | Parent => dotdot
  | Normal n => n
  end.

Fixpoint join_slash (l : list bytes) : bytes :=
  match l with
  | [] => []
  | [x] => x
  | x :: l' => x ++ slash :: join_slash l'
  end.

Definition render (cs : list comp) : bytes :=
  match cs with
  | Root :: cs' => slash :: join_slash (map comp_text cs')
  | _ => join_slash (map comp_text cs)
  end.

Definition normalize (p : bytes) : bytes :=
  render (normalize_c (components p)).

(* ---------- independent specification: which file does a spelling denote
   on a symlink-free POSIX file system?  A stack machine over the "/"
   separated segments; the stack (held reversed) is the list of directory
   entry names walked from the root. *)

Definition resolve_step (st : list bytes) (seg : bytes) : list bytes :=
  if bytes_eqb seg [] then st            (* "//" *)
  else if bytes_eqb seg dot then st      (* "." *)
  else if bytes_eqb seg dotdot then tl st  (* ".." ; stays at the root *)
  else seg :: st.

(* resolve [p] starting in the directory whose entry names from the root
   are [d] *)
Definition resolve_from (d : list bytes) (p : bytes) : list bytes :=
  rev (fold_left resolve_step (split_on slash p) (rev d)).

(* an absolute spelling: start at the root *)
Definition resolve (p : bytes) : list bytes := resolve_from [] p.

(* the canonical absolute spelling of a list of entry names *)
Definition render_abs (names : list bytes) : bytes :=
  render (Root :: map Normal names).

(* ---------- vocabulary for the statements about relative paths *)

(* entry names as they can occur in [Normal] *)
Definition good_name (n : bytes) : Prop :=
  n <> [] /\ ~ In slash n /\ n <> dot /\ n <> dotdot.

Definition is_dot (c : comp) : bool :=
  match c with Cur | Parent => true | _ => false end.

(* a relative spelling never climbs above its starting directory: running
   the segments on an empty stack never executes ".." on the empty stack *)
Fixpoint no_escape_from (depth : nat) (segs : list bytes) : bool :=
  match segs with
  | [] => true
  | seg :: segs' =>
      if bytes_eqb seg [] then no_escape_from depth segs'
      else if bytes_eqb seg dot then no_escape_from depth segs'
      else if bytes_eqb seg dotdot then
        match depth with
        | O => false
        | S d => no_escape_from d segs'
        end
      else no_escape_from (S depth) segs'
  end.
Definition no_escape (p : bytes) : bool :=
  no_escape_from 0 (split_on slash p).
