(* Proofs about the path-normalisation model of Path.v.  Axiom-free. *)
From Ucg Require Import base.Bytes base.Bytes_Lemmas path.Path.

(* ------------------------------------------------------------------ *)
(* segment classification                                              *)

Lemma bytes_eqb_false x y : bytes_eqb x y = false <-> x <> y.
Proof.
  split.
  - intros H E. apply bytes_eqb_spec in E. congruence.
  - intros H. destruct (bytes_eqb x y) eqn:E; auto.
    apply bytes_eqb_spec in E. contradiction.
Qed.

Inductive seg_class (seg : bytes) : Prop :=
| SC_empty : seg = [] -> seg_class seg
| SC_dot : seg = dot -> seg_class seg
| SC_dotdot : seg = dotdot -> seg_class seg
| SC_name : seg <> [] -> seg <> dot -> seg <> dotdot -> seg_class seg.

Lemma seg_classify seg : seg_class seg.
Proof.
  destruct (bytes_eqb seg []) eqn:E1;
    [apply bytes_eqb_spec in E1; apply SC_empty; assumption|].
  destruct (bytes_eqb seg dot) eqn:E2;
    [apply bytes_eqb_spec in E2; apply SC_dot; assumption|].
  destruct (bytes_eqb seg dotdot) eqn:E3;
    [apply bytes_eqb_spec in E3; apply SC_dotdot; assumption|].
  apply bytes_eqb_false in E1, E2, E3. apply SC_name; assumption.
Qed.

Lemma seg_comps_name seg :
  seg <> [] -> seg <> dot -> seg <> dotdot -> seg_comps seg = [Normal seg].
Proof.
  intros H1 H2 H3. destruct seg as [|c s]; [contradiction|].
  unfold seg_comps. apply bytes_eqb_false in H2, H3. rewrite H2, H3. reflexivity.
Qed.

Lemma first_seg_comps_name seg :
  seg <> [] -> seg <> dot -> seg <> dotdot -> first_seg_comps seg = [Normal seg].
Proof.
  intros H1 H2 H3. unfold first_seg_comps.
  pose proof H2 as H2'. apply bytes_eqb_false in H2'. rewrite H2'.
  apply seg_comps_name; assumption.
Qed.

Lemma resolve_step_name st seg :
  seg <> [] -> seg <> dot -> seg <> dotdot -> resolve_step st seg = seg :: st.
Proof.
  intros H1 H2 H3. unfold resolve_step.
  apply bytes_eqb_false in H1, H2, H3. rewrite H1, H2, H3. reflexivity.
Qed.

Lemma no_escape_name d seg segs :
  seg <> [] -> seg <> dot -> seg <> dotdot ->
  no_escape_from d (seg :: segs) = no_escape_from (S d) segs.
Proof.
  intros H1 H2 H3. cbn [no_escape_from].
  apply bytes_eqb_false in H1, H2, H3. rewrite H1, H2, H3. reflexivity.
Qed.

Lemma good_name_cases n :
  good_name n -> n <> [] /\ n <> dot /\ n <> dotdot.
Proof. intros [H1 [H2 [H3 H4]]]. auto. Qed.

(* ------------------------------------------------------------------ *)
(* [split_on] is THE split: it inverts joining, and no segment contains
   the separator                                                       *)

Lemma split_on_nonempty sep s : split_on sep s <> [].
Proof.
  destruct s as [|c s]; cbn; [discriminate|].
  destruct (Ascii.eqb c sep); [discriminate|].
  destruct (split_on sep s); discriminate.
Qed.

Lemma split_on_cons_sep sep s : split_on sep (sep :: s) = [] :: split_on sep s.
Proof. cbn. rewrite Ascii.eqb_refl. reflexivity. Qed.

Lemma split_on_nosep sep s : ~ In sep s -> split_on sep s = [s].
Proof.
  induction s as [|c s IH]; intros H; [reflexivity|].
  cbn. destruct (Ascii.eqb c sep) eqn:E.
  - apply Ascii.eqb_eq in E. subst. exfalso. apply H. left; reflexivity.
  - rewrite IH; [reflexivity|]. intros Hin. apply H. right; assumption.
Qed.

(* general: splitting distributes over a separator *)
Lemma split_on_app_sep sep x r :
  split_on sep (x ++ sep :: r) = split_on sep x ++ split_on sep r.
Proof.
  induction x as [|c x IH].
  - cbn [app]. rewrite split_on_cons_sep. reflexivity.
  - cbn [app split_on]. destruct (Ascii.eqb c sep).
    + rewrite IH. reflexivity.
    + rewrite IH. pose proof (split_on_nonempty sep x) as NE.
      destruct (split_on sep x) as [|seg segs]; [contradiction|]. reflexivity.
Qed.

Lemma split_on_app sep x r :
  ~ In sep x -> split_on sep (x ++ sep :: r) = x :: split_on sep r.
Proof.
  intros H. rewrite split_on_app_sep, split_on_nosep by assumption. reflexivity.
Qed.

Lemma split_on_segments sep s : Forall (fun seg => ~ In sep seg) (split_on sep s).
Proof.
  induction s as [|c s IH]; cbn.
  - constructor; [intros []|constructor].
  - destruct (Ascii.eqb c sep) eqn:E.
    + constructor; [intros []|assumption].
    + destruct (split_on sep s) as [|seg segs].
      * constructor; [|constructor]. intros [->|[]].
        rewrite Ascii.eqb_refl in E; discriminate.
      * inversion IH; subst. constructor; [|assumption].
        intros [->|Hin]; [rewrite Ascii.eqb_refl in E; discriminate|contradiction].
Qed.

Lemma join_split p : join_slash (split_on slash p) = p.
Proof.
  induction p as [|c p IH]; [reflexivity|].
  cbn [split_on]. destruct (Ascii.eqb c slash) eqn:E.
  - apply Ascii.eqb_eq in E; subst c.
    pose proof (split_on_nonempty slash p) as NE.
    destruct (split_on slash p) as [|seg segs]; [contradiction|].
    cbn [join_slash app]. cbn [join_slash] in IH. rewrite IH. reflexivity.
  - pose proof (split_on_nonempty slash p) as NE.
    destruct (split_on slash p) as [|seg segs]; [contradiction|].
    destruct segs as [|seg' segs'].
    + cbn [join_slash] in *. rewrite IH. reflexivity.
    + cbn [join_slash] in *. rewrite <- IH. reflexivity.
Qed.

Lemma split_join names :
  names <> [] -> Forall (fun n => ~ In slash n) names ->
  split_on slash (join_slash names) = names.
Proof.
  induction names as [|x l IH]; intros NE F; [contradiction|].
  inversion F as [|? ? Hx Fl]; subst.
  destruct l as [|y l].
  - cbn [join_slash]. apply split_on_nosep; assumption.
  - change (join_slash (x :: y :: l)) with (x ++ slash :: join_slash (y :: l)).
    rewrite split_on_app by assumption. rewrite IH; [reflexivity|discriminate|assumption].
Qed.

(* ------------------------------------------------------------------ *)
(* the loop simulates the stack machine                                *)

Lemma pop_rev_abs st :
  pop_rev (map Normal st ++ [Root]) = map Normal (tl st) ++ [Root].
Proof. destruct st; reflexivity. Qed.

Lemma pop_rev_rel st : pop_rev (map Normal st) = map Normal (tl st).
Proof. destruct st; reflexivity. Qed.

Lemma sim_abs segs : forall st,
  fold_left step (flat_map seg_comps segs) (map Normal st ++ [Root])
  = map Normal (fold_left resolve_step segs st) ++ [Root].
Proof.
  induction segs as [|seg segs IH]; intros st; [reflexivity|].
  cbn [flat_map fold_left]. rewrite fold_left_app.
  destruct (seg_classify seg) as [->| ->| ->|H1 H2 H3].
  - apply IH.
  - apply IH.
  - change (fold_left step (seg_comps dotdot) (map Normal st ++ [Root]))
      with (pop_rev (map Normal st ++ [Root])).
    rewrite pop_rev_abs. apply IH.
  - rewrite seg_comps_name, resolve_step_name by assumption.
    apply (IH (seg :: st)).
Qed.

Lemma sim_rel segs : forall st,
  fold_left step (flat_map seg_comps segs) (map Normal st)
  = map Normal (fold_left resolve_step segs st).
Proof.
  induction segs as [|seg segs IH]; intros st; [reflexivity|].
  cbn [flat_map fold_left]. rewrite fold_left_app.
  destruct (seg_classify seg) as [->| ->| ->|H1 H2 H3].
  - apply IH.
  - apply IH.
  - change (fold_left step (seg_comps dotdot) (map Normal st))
      with (pop_rev (map Normal st)).
    rewrite pop_rev_rel. apply IH.
  - rewrite seg_comps_name, resolve_step_name by assumption.
    apply (IH (seg :: st)).
Qed.

(* a leading "." (kept as CurDir) has the same effect as a dropped one *)
Lemma first_seg_step seg st :
  fold_left step (first_seg_comps seg) st = fold_left step (seg_comps seg) st.
Proof.
  unfold first_seg_comps. destruct (bytes_eqb seg dot) eqn:E; [|reflexivity].
  apply bytes_eqb_spec in E; subst. reflexivity.
Qed.

Definition root_prefix (p : bytes) : list comp :=
  if is_abs p then [Root] else [].

(* What [normalize_c] computes, for every path text. *)
Theorem normalize_c_components p :
  normalize_c (components p) = root_prefix p ++ map Normal (resolve p).
Proof.
  unfold normalize_c, components, root_prefix, resolve, resolve_from.
  destruct (is_abs p).
  - cbn [fold_left step rev].
    pose proof (sim_abs (split_on slash p) []) as S. cbn [map app] in S.
    rewrite S, rev_app_distr, <- map_rev. reflexivity.
  - pose proof (split_on_nonempty slash p) as NE.
    destruct (split_on slash p) as [|seg0 segs]; [contradiction|].
    rewrite fold_left_app, first_seg_step, <- fold_left_app.
    change (seg_comps seg0 ++ flat_map seg_comps segs)
      with (flat_map seg_comps (seg0 :: segs)).
    pose proof (sim_rel (seg0 :: segs) []) as S. cbn [map] in S.
    rewrite S, <- map_rev. reflexivity.
Qed.

Corollary normalize_c_abs p :
  absolute p -> normalize_c (components p) = Root :: map Normal (resolve p).
Proof.
  intros H. rewrite normalize_c_components. unfold root_prefix.
  rewrite H. reflexivity.
Qed.

Corollary normalize_abs p : absolute p -> normalize p = render_abs (resolve p).
Proof. intros H. unfold normalize. rewrite normalize_c_abs by assumption. reflexivity. Qed.

(* ------------------------------------------------------------------ *)
(* entry names produced by [resolve] are well formed                   *)

Lemma Forall_tl {A} (P : A -> Prop) l : Forall P l -> Forall P (tl l).
Proof. intros H; destruct H; [constructor|assumption]. Qed.

Lemma resolve_fold_good segs : forall st,
  Forall (fun seg => ~ In slash seg) segs -> Forall good_name st ->
  Forall good_name (fold_left resolve_step segs st).
Proof.
  induction segs as [|seg segs IH]; intros st Hs Hst; [assumption|].
  inversion Hs as [|? ? Hseg Hsegs]; subst.
  cbn [fold_left]. apply IH; [assumption|].
  destruct (seg_classify seg) as [->| ->| ->|H1 H2 H3].
  - assumption.
  - assumption.
  - apply (Forall_tl _ _ Hst).
  - rewrite resolve_step_name by assumption.
    constructor; [|assumption]. repeat split; assumption.
Qed.

Lemma resolve_from_good d p :
  Forall good_name d -> Forall good_name (resolve_from d p).
Proof.
  intros H. unfold resolve_from. apply Forall_rev. apply resolve_fold_good.
  - apply split_on_segments.
  - apply Forall_rev. assumption.
Qed.

Lemma resolve_good p : Forall good_name (resolve p).
Proof. apply resolve_from_good. constructor. Qed.

(* ------------------------------------------------------------------ *)
(* re-parsing a rendered normal form                                   *)

Lemma good_noslash names :
  Forall good_name names -> Forall (fun n => ~ In slash n) names.
Proof. apply Forall_impl. intros n [_ [H _]]. exact H. Qed.

Lemma flat_map_good names :
  Forall good_name names -> flat_map seg_comps names = map Normal names.
Proof.
  induction 1 as [|n l Hn Hl IH]; [reflexivity|].
  cbn [flat_map map]. apply good_name_cases in Hn. destruct Hn as [H1 [H2 H3]].
  rewrite seg_comps_name, IH by assumption. reflexivity.
Qed.

Lemma comp_text_normal names : map comp_text (map Normal names) = names.
Proof. rewrite map_map. apply map_id. Qed.

Lemma render_abs_text names : render_abs names = slash :: join_slash names.
Proof. unfold render_abs, render. rewrite comp_text_normal. reflexivity. Qed.

Lemma render_rel_text names : render (map Normal names) = join_slash names.
Proof.
  unfold render. destruct names as [|n l]; [reflexivity|].
  cbn [map]. rewrite comp_text_normal. reflexivity.
Qed.

Lemma components_render_abs names :
  Forall good_name names -> components (render_abs names) = Root :: map Normal names.
Proof.
  intros G. rewrite render_abs_text. unfold components.
  change (is_abs (slash :: join_slash names)) with true. cbv iota.
  rewrite split_on_cons_sep. cbn [flat_map seg_comps app]. f_equal.
  destruct names as [|n l]; [reflexivity|].
  rewrite split_join; [|discriminate|apply good_noslash; assumption].
  apply flat_map_good; assumption.
Qed.

Lemma is_abs_join_good names :
  Forall good_name names -> is_abs (join_slash names) = false.
Proof.
  intros G. destruct names as [|n l]; [reflexivity|].
  inversion G as [|? ? [Hne [Hns _]] _]; subst.
  destruct n as [|c n]; [contradiction|].
  assert (E : Ascii.eqb c slash = false).
  { destruct (Ascii.eqb c slash) eqn:E; [|reflexivity].
    apply Ascii.eqb_eq in E; subst. exfalso. apply Hns. left; reflexivity. }
  destruct l; cbn; exact E.
Qed.

Lemma components_render_rel names :
  Forall good_name names -> components (render (map Normal names)) = map Normal names.
Proof.
  intros G. rewrite render_rel_text. unfold components.
  rewrite is_abs_join_good by assumption.
  destruct names as [|n l]; [reflexivity|].
  rewrite split_join; [|discriminate|apply good_noslash; assumption].
  inversion G as [|? ? Hn Hl]; subst.
  apply good_name_cases in Hn. destruct Hn as [H1 [H2 H3]].
  rewrite first_seg_comps_name, flat_map_good by assumption. reflexivity.
Qed.

(* re-parsing the output of [normalize] gives back the component list that
   was rendered *)
Theorem components_normalize p :
  components (normalize p) = normalize_c (components p).
Proof.
  unfold normalize. rewrite normalize_c_components. unfold root_prefix.
  destruct (is_abs p); cbn [app].
  - apply (components_render_abs (resolve p)), resolve_good.
  - apply components_render_rel, resolve_good.
Qed.

(* ------------------------------------------------------------------ *)
(* idempotence                                                         *)

(* PathBuf states reachable by the loop: Normal names, possibly on Root *)
Definition st_nf (st : list comp) : Prop :=
  exists names, st = map Normal names \/ st = map Normal names ++ [Root].

Lemma step_nf st c : st_nf st -> st_nf (step st c).
Proof.
  intros [names [-> | ->]]; destruct c; cbn [step].
  - exists []; right; reflexivity.
  - exists names; left; reflexivity.
  - rewrite pop_rev_rel. exists (tl names); left; reflexivity.
  - exists (name :: names); left; reflexivity.
  - exists []; right; reflexivity.
  - exists names; right; reflexivity.
  - rewrite pop_rev_abs. exists (tl names); right; reflexivity.
  - exists (name :: names); right; reflexivity.
Qed.

Lemma fold_step_nf cs : forall st, st_nf st -> st_nf (fold_left step cs st).
Proof.
  induction cs as [|c cs IH]; intros st H; [assumption|].
  cbn [fold_left]. apply IH, step_nf, H.
Qed.

Lemma fold_step_normals names : forall st,
  fold_left step (map Normal names) st = rev (map Normal names) ++ st.
Proof.
  induction names as [|n l IH]; intros st; [reflexivity|].
  cbn [map fold_left step rev]. rewrite IH, <- app_assoc. reflexivity.
Qed.

(* The output of the loop is [Normal]s, possibly after one [Root]. *)
Definition normal_form (cs : list comp) : Prop :=
  exists names, cs = map Normal names \/ cs = Root :: map Normal names.

Lemma normalize_c_normal_form cs : normal_form (normalize_c cs).
Proof.
  unfold normalize_c.
  destruct (fold_step_nf cs [] (ex_intro _ [] (or_introl eq_refl)))
    as [names [E | E]]; rewrite E; exists (rev names).
  - left. rewrite map_rev. reflexivity.
  - right. rewrite rev_app_distr, map_rev. reflexivity.
Qed.

Lemma normalize_c_fixed cs : normal_form cs -> normalize_c cs = cs.
Proof.
  intros [names [-> | ->]]; unfold normalize_c.
  - rewrite fold_step_normals, app_nil_r. apply rev_involutive.
  - cbn [fold_left step]. rewrite fold_step_normals, rev_app_distr, rev_involutive.
    reflexivity.
Qed.

(* HEADLINE: holds for EVERY component list, absolute or not. *)
Theorem normalize_c_idem : forall cs,
  normalize_c (normalize_c cs) = normalize_c cs.
Proof. intros cs. apply normalize_c_fixed, normalize_c_normal_form. Qed.

(* ... and at the level of path text, for every path. *)
Theorem normalize_idem_any : forall p, normalize (normalize p) = normalize p.
Proof.
  intros p. unfold normalize at 1. rewrite components_normalize, normalize_c_idem.
  reflexivity.
Qed.

Theorem normalize_idem : forall p,
  absolute p -> normalize (normalize p) = normalize p.
Proof. intros p _. apply normalize_idem_any. Qed.

(* ------------------------------------------------------------------ *)
(* no "." / ".." left                                                  *)

Lemma normal_form_no_dots cs :
  normal_form cs -> Forall (fun c => is_dot c = false) cs.
Proof.
  intros [names [-> | ->]]; [|constructor; [reflexivity|]];
    apply Forall_forall; intros c Hin; apply in_map_iff in Hin;
    destruct Hin as [n [<- _]]; reflexivity.
Qed.

Theorem normalize_no_dots_any : forall p,
  Forall (fun c => is_dot c = false) (components (normalize p)).
Proof.
  intros p. rewrite components_normalize.
  apply normal_form_no_dots, normalize_c_normal_form.
Qed.

Theorem normalize_no_dots : forall p,
  absolute p -> Forall (fun c => is_dot c = false) (components (normalize p)).
Proof. intros p _. apply normalize_no_dots_any. Qed.

(* sharper, for absolute paths: the output is "/" followed by entry names *)
Theorem normalize_abs_shape : forall p,
  absolute p ->
  components (normalize p) = Root :: map Normal (resolve p) /\
  Forall good_name (resolve p) /\
  absolute (normalize p).
Proof.
  intros p H. split; [|split].
  - rewrite components_normalize. apply normalize_c_abs, H.
  - apply resolve_good.
  - rewrite normalize_abs, render_abs_text by assumption. reflexivity.
Qed.

(* ------------------------------------------------------------------ *)
(* normalize identifies exactly the spellings of the same file         *)

Theorem normalize_equiv : forall p q,
  absolute p -> absolute q -> resolve p = resolve q -> normalize p = normalize q.
Proof.
  intros p q Hp Hq E. rewrite !normalize_abs by assumption. rewrite E. reflexivity.
Qed.

Lemma map_Normal_inj a c : map Normal a = map Normal c -> a = c.
Proof.
  revert c; induction a as [|x a IH]; intros [|y c] H; try discriminate; auto.
  cbn in H. inversion H. f_equal. apply IH; assumption.
Qed.

Theorem normalize_equiv_conv : forall p q,
  absolute p -> absolute q -> normalize p = normalize q -> resolve p = resolve q.
Proof.
  intros p q Hp Hq E.
  pose proof (f_equal components E) as C.
  rewrite !components_normalize, !normalize_c_abs in C by assumption.
  inversion C as [C']. apply map_Normal_inj, C'.
Qed.

Corollary normalize_equiv_iff : forall p q,
  absolute p -> absolute q -> (normalize p = normalize q <-> resolve p = resolve q).
Proof.
  intros p q Hp Hq. split;
    [apply normalize_equiv_conv|apply normalize_equiv]; assumption.
Qed.

(* [normalize p] is itself a spelling of the file [p] denotes *)
Lemma fold_resolve_good names : forall st,
  Forall good_name names -> fold_left resolve_step names st = rev names ++ st.
Proof.
  induction names as [|n l IH]; intros st G; [reflexivity|].
  inversion G as [|? ? Hn Hl]; subst.
  apply good_name_cases in Hn. destruct Hn as [H1 [H2 H3]].
  cbn [fold_left rev]. rewrite resolve_step_name, IH, <- app_assoc by assumption.
  reflexivity.
Qed.

Lemma resolve_from_join d names :
  Forall good_name names -> resolve_from d (join_slash names) = d ++ names.
Proof.
  intros G. unfold resolve_from. destruct names as [|n l].
  - cbn. rewrite rev_involutive, app_nil_r. reflexivity.
  - rewrite split_join; [|discriminate|apply good_noslash; assumption].
    rewrite fold_resolve_good, rev_app_distr, !rev_involutive by assumption.
    reflexivity.
Qed.

Lemma resolve_render_abs names :
  Forall good_name names -> resolve (render_abs names) = names.
Proof.
  intros G. rewrite render_abs_text. unfold resolve, resolve_from.
  rewrite split_on_cons_sep. cbn [fold_left rev].
  change (resolve_step [] []) with (@nil bytes).
  exact (resolve_from_join [] names G).
Qed.

Theorem normalize_sound : forall p,
  absolute p -> resolve (normalize p) = resolve p.
Proof.
  intros p H. rewrite normalize_abs by assumption.
  apply resolve_render_abs, resolve_good.
Qed.

(* ------------------------------------------------------------------ *)
(* a relative import resolves against the importing file's directory   *)

Lemma is_abs_app d r : absolute d -> absolute (d ++ r).
Proof. destruct d; [discriminate|]. intros H; exact H. Qed.

Lemma resolve_app d r :
  resolve (d ++ slash :: r) = resolve_from (resolve d) r.
Proof.
  unfold resolve, resolve_from.
  rewrite split_on_app_sep, fold_left_app, rev_involutive. reflexivity.
Qed.

(* [d] any absolute spelling of the directory *)
Theorem join_normalize : forall d r,
  absolute d ->
  normalize (d ++ slash :: r) = render_abs (resolve_from (resolve d) r).
Proof.
  intros d r H. rewrite normalize_abs by (apply is_abs_app; assumption).
  rewrite resolve_app. reflexivity.
Qed.

(* [d] already normal: it is the canonical spelling of its own entry names *)
Lemma normal_dir_spelling d :
  absolute d -> normalize d = d ->
  d = render_abs (resolve d) /\ Forall good_name (resolve d).
Proof.
  intros H E. split; [|apply resolve_good].
  rewrite <- E at 1. apply normalize_abs, H.
Qed.

(* the directory given by its entry names *)
Theorem join_normalize_names : forall names r,
  Forall good_name names ->
  normalize (render_abs names ++ slash :: r) = render_abs (resolve_from names r).
Proof.
  intros names r G. rewrite join_normalize.
  - rewrite resolve_render_abs by assumption. reflexivity.
  - rewrite render_abs_text. reflexivity.
Qed.

(* ------------------------------------------------------------------ *)
(* relative paths: what holds, and what does not                       *)

(* A relative path is normalised as if its starting directory were the
   root: ".." that climb above the start are silently discarded. *)
Theorem normalize_rel : forall p,
  is_abs p = false -> normalize p = join_slash (resolve p).
Proof.
  intros p H. unfold normalize. rewrite normalize_c_components.
  unfold root_prefix. rewrite H. apply render_rel_text.
Qed.

Theorem normalize_text : forall p,
  normalize p = (if is_abs p then [slash] else []) ++ join_slash (resolve p).
Proof.
  intros p. destruct (is_abs p) eqn:H.
  - rewrite normalize_abs, render_abs_text by exact H. reflexivity.
  - apply normalize_rel, H.
Qed.

Lemma no_escape_fold segs : forall st base,
  no_escape_from (List.length st) segs = true ->
  fold_left resolve_step segs (st ++ base)
  = fold_left resolve_step segs st ++ base.
Proof.
  induction segs as [|seg segs IH]; intros st base H; [reflexivity|].
  cbn [fold_left].
  destruct (seg_classify seg) as [->| ->| ->|H1 H2 H3].
  - apply IH. exact H.
  - apply IH. exact H.
  - destruct st as [|x st]; [discriminate H|].
    apply (IH st). exact H.
  - rewrite no_escape_name in H by assumption.
    rewrite !resolve_step_name by assumption.
    apply (IH (seg :: st)). exact H.
Qed.

Lemma resolve_from_no_escape d r :
  no_escape r = true -> resolve_from d r = d ++ resolve r.
Proof.
  intros H. unfold resolve, resolve_from, no_escape in *.
  rewrite (no_escape_fold _ [] (rev d)) by exact H.
  cbn [rev app]. rewrite rev_app_distr, rev_involutive. reflexivity.
Qed.

(* If the relative path never climbs above its start, normalisation
   preserves its meaning in every directory [d]. *)
Theorem normalize_rel_sound : forall d r,
  is_abs r = false -> no_escape r = true ->
  resolve_from d (normalize r) = resolve_from d r.
Proof.
  intros d r Hr Hn. rewrite normalize_rel by assumption.
  rewrite resolve_from_join by apply resolve_good.
  symmetry. apply resolve_from_no_escape, Hn.
Qed.

(* Otherwise it need not: "a/../../b" from /x/y is /x/b, but its
   normalisation "b" is /x/y/b there. *)
Example normalize_rel_unsound :
  let d := [b "x"; b "y"] in
  let r := b "a/../../b" in
  normalize r = b "b" /\
  resolve_from d r = [b "x"; b "b"] /\
  resolve_from d (normalize r) = [b "x"; b "y"; b "b"].
Proof. vm_compute. repeat split. Qed.

(* ------------------------------------------------------------------ *)
(* validation against the real code: each triple is (input text,
   std::path::Path::components() of it, text of ucglib::path::normalize
   of it), as printed by the harness in rs/ (rustc, Linux), see
   rs/path_probe_output.tsv *)

Local Open Scope string_scope.

Definition rust_observations : list (string * list comp * string) :=
  [
    ("/a/b/../c", [Root; Normal (b "a"); Normal (b "b"); Parent; Normal (b "c")], "/a/c");
    ("/a/./b", [Root; Normal (b "a"); Normal (b "b")], "/a/b");
    ("/../a", [Root; Parent; Normal (b "a")], "/a");
    ("a/../../b", [Normal (b "a"); Parent; Parent; Normal (b "b")], "b");
    ("./a", [Cur; Normal (b "a")], "a");
    ("a//b/", [Normal (b "a"); Normal (b "b")], "a/b");
    ("/", [Root], "/");
    ("", [], "");
    ("..", [Parent], "");
    ("/a/b/../../..", [Root; Normal (b "a"); Normal (b "b"); Parent; Parent; Parent], "/");
    ("./../a", [Cur; Parent; Normal (b "a")], "a");
    (".", [Cur], "");
    ("./", [Cur], "");
    ("./.", [Cur], "");
    ("/.", [Root], "/");
    ("/..", [Root; Parent], "/");
    ("//", [Root], "/");
    ("//a", [Root; Normal (b "a")], "/a");
    ("///a//b//", [Root; Normal (b "a"); Normal (b "b")], "/a/b");
    ("a", [Normal (b "a")], "a");
    ("a/", [Normal (b "a")], "a");
    ("a/.", [Normal (b "a")], "a");
    ("a/..", [Normal (b "a"); Parent], "");
    ("a/../..", [Normal (b "a"); Parent; Parent], "");
    ("../a", [Parent; Normal (b "a")], "a");
    ("../../a", [Parent; Parent; Normal (b "a")], "a");
    ("./..", [Cur; Parent], "");
    ("./a/./b", [Cur; Normal (b "a"); Normal (b "b")], "a/b");
    ("a/./b", [Normal (b "a"); Normal (b "b")], "a/b");
    ("/a/b/c", [Root; Normal (b "a"); Normal (b "b"); Normal (b "c")], "/a/b/c");
    ("/a/b/c/", [Root; Normal (b "a"); Normal (b "b"); Normal (b "c")], "/a/b/c");
    ("/a/b/./c/../d", [Root; Normal (b "a"); Normal (b "b"); Normal (b "c"); Parent; Normal (b "d")], "/a/b/d");
    ("..a/b", [Normal (b "..a"); Normal (b "b")], "..a/b");
    ("a/.../b", [Normal (b "a"); Normal (b "..."); Normal (b "b")], "a/.../b");
    ("/.a/..b/..", [Root; Normal (b ".a"); Normal (b "..b"); Parent], "/.a");
    (".//a", [Cur; Normal (b "a")], "a");
    ("a/b/../../../c", [Normal (b "a"); Normal (b "b"); Parent; Parent; Parent; Normal (b "c")], "c");
    ("/./a", [Root; Normal (b "a")], "/a");
    ("./a/..", [Cur; Normal (b "a"); Parent], "");
    ("./a/../..", [Cur; Normal (b "a"); Parent; Parent], "");
    ("a/b/..", [Normal (b "a"); Normal (b "b"); Parent], "a");
    ("/a/..", [Root; Normal (b "a"); Parent], "/");
    ("a/./", [Normal (b "a")], "a");
    ("/a/../../b/./c//", [Root; Normal (b "a"); Parent; Parent; Normal (b "b"); Normal (b "c")], "/b/c")
  ].

Definition comp_eqb (x y : comp) : bool :=
  match x, y with
  | Root, Root | Cur, Cur | Parent, Parent => true
  | Normal m, Normal n => bytes_eqb m n
  | _, _ => false
  end.
Fixpoint comps_eqb (x y : list comp) : bool :=
  match x, y with
  | [], [] => true
  | c :: x', d :: y' => comp_eqb c d && comps_eqb x' y'
  | _, _ => false
  end.

Example rust_components_agree :
  forallb (fun t => match t with (i, cs, _) => comps_eqb (components (b i)) cs end)
          rust_observations = true.
Proof. vm_compute; reflexivity. Qed.

Example rust_normalize_agree :
  forallb (fun t => match t with (i, _, o) => bytes_eqb (normalize (b i)) (b o) end)
          rust_observations = true.
Proof. vm_compute; reflexivity. Qed.

Example rust_observations_count : List.length rust_observations = 44.
Proof. reflexivity. Qed.

(* a few spelled out *)
Example ex_1 : normalize (b "/a/b/../c") = b "/a/c". Proof. vm_compute; reflexivity. Qed.
Example ex_2 : normalize (b "/a/./b") = b "/a/b". Proof. vm_compute; reflexivity. Qed.
Example ex_3 : normalize (b "/../a") = b "/a". Proof. vm_compute; reflexivity. Qed.
Example ex_4 : normalize (b "a/../../b") = b "b". Proof. vm_compute; reflexivity. Qed.
Example ex_5 : normalize (b "./a") = b "a". Proof. vm_compute; reflexivity. Qed.
Example ex_6 : normalize (b "a//b/") = b "a/b". Proof. vm_compute; reflexivity. Qed.
Example ex_7 : normalize (b "/") = b "/". Proof. vm_compute; reflexivity. Qed.
Example ex_8 : normalize (b "") = b "". Proof. vm_compute; reflexivity. Qed.
Example ex_9 : normalize (b "..") = b "". Proof. vm_compute; reflexivity. Qed.
Example ex_10 : normalize (b "/a/b/../../..") = b "/". Proof. vm_compute; reflexivity. Qed.
Example ex_11 : normalize (b "./../a") = b "a". Proof. vm_compute; reflexivity. Qed.
Example ex_12 : components (b "./a/./b") = [Cur; Normal (b "a"); Normal (b "b")].
Proof. vm_compute; reflexivity. Qed.
Example ex_13 : components (b "a/./b") = [Normal (b "a"); Normal (b "b")].
Proof. vm_compute; reflexivity. Qed.
