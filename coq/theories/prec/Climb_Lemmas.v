From Ucg Require Import prec.Climb.

Section Proofs.
  Variable A : Type.
  Variable prec : op -> nat.
  Notation tree := (tree A).
  Notation chain := (list (op * A)).
  Notation parse_op := (parse_op prec).
  Notation inner := (inner prec).
  Notation WF := (WF prec).


  Lemma parse_op_S f (lhs : tree) (rest : chain) minp :
    parse_op (S f) lhs rest minp =
    match rest with
    | [] => Some (lhs, [])
    | (o, a) :: rest1 =>
      if minp <=? prec o then
        match inner f o (Leaf a) rest1 with
        | None => None
        | Some (rhs, rest2) => parse_op f (Node o lhs rhs) rest2 minp
        end
      else Some (lhs, rest)
    end.
  Proof. reflexivity. Qed.

  Lemma inner_S f o (rhs : tree) (rest : chain) :
    inner (S f) o rhs rest =
    match rest with
    | [] => Some (rhs, [])
    | (o2, _) :: _ =>
      if prec o <? prec o2 then
        match parse_op f rhs rest (prec o2) with
        | None => None
        | Some (rhs', rest') => inner f o rhs' rest'
        end
      else Some (rhs, rest)
    end.
  Proof. reflexivity. Qed.

  Definition ops_ge (n : nat) (t : tree) : Prop := forall o', In o' (all_ops_of t) -> n <= prec o'.
  Definition ops_gt (n : nat) (t : tree) : Prop := forall o', In o' (all_ops_of t) -> n < prec o'.

  (* "the next operator is not tighter than anything already inside lhs" *)
  Definition Pre (lhs : tree) (rest : chain) : Prop :=
    WF lhs /\ forall o a r1, rest = (o, a) :: r1 -> ops_ge (prec o) lhs.

  Definition head_lt (rest : chain) (n : nat) : Prop :=
    match rest with [] => True | (o, _) :: _ => prec o < n end.
  Definition head_le (rest : chain) (n : nat) : Prop :=
    match rest with [] => True | (o, _) :: _ => prec o <= n end.

  Definition yield_ext (lhs : tree) (rest : chain) (t : tree) (rest' : chain) : Prop :=
    fst (yield t) = fst (yield lhs) /\ snd (yield t) ++ rest' = snd (yield lhs) ++ rest.

  Lemma yield_node o (l r : tree) :
    yield (Node o l r) = (fst (yield l), snd (yield l) ++ (o, fst (yield r)) :: snd (yield r)).
  Proof. cbn. destruct (yield l), (yield r); reflexivity. Qed.

  Lemma ops_yield (t : tree) : map fst (snd (yield t)) = all_ops_of t.
  Proof.
    induction t as [a|o l IHl r IHr]; [reflexivity|].
    rewrite yield_node; cbn [snd all_ops_of]. rewrite map_app; cbn. now rewrite IHl, IHr.
  Qed.

  (* ------------------------------------------------------------------ *)
  (* soundness: both loops preserve the yield and build a WF tree        *)

  Lemma climb_inv fuel :
    (forall lhs rest minp t rest',
        parse_op fuel lhs rest minp = Some (t, rest') ->
        Pre lhs rest ->
        yield_ext lhs rest t rest' /\ head_lt rest' minp /\ WF t /\ Pre t rest' /\
        (forall o', In o' (all_ops_of t) -> In o' (all_ops_of lhs) \/ minp <= prec o')) /\
    (forall o rhs rest t rest',
        inner fuel o rhs rest = Some (t, rest') ->
        Pre rhs rest -> ops_gt (prec o) rhs ->
        yield_ext rhs rest t rest' /\ head_le rest' (prec o) /\ WF t /\ Pre t rest' /\
        ops_gt (prec o) t).
  Proof.
    induction fuel as [|f [IHp IHi]]; [split; cbn; intros; discriminate|].
    split.
    - intros lhs rest minp t rest' H HPre. rewrite parse_op_S in H.
      destruct rest as [|[o a] rest1].
      + inversion H; subst. repeat split; try apply HPre; cbn; auto;
          try (intros; discriminate).
      + destruct (Nat.leb_spec minp (prec o)) as [Hle|Hgt].
        * destruct (inner f o (Leaf a) rest1) as [[rhs rest2]|] eqn:Ei; [|discriminate H].
          destruct (IHi _ _ _ _ _ Ei) as ((Hy1 & Hy2) & Hh & Hwf & HPre2 & Hgt).
          { split; [exact I|]. intros ? ? ? ? o' Hin; destruct Hin. }
          { intros o' Hin; destruct Hin. }
          destruct HPre as [Hwl Hge]. specialize (Hge _ _ _ eq_refl).
          assert (HPreN : Pre (Node o lhs rhs) rest2).
          { split.
            - cbn. repeat split; auto.
            - intros o4 a4 r4 ->. cbn in Hh. intros o' Hin. cbn in Hin.
              apply in_app_or in Hin. destruct Hin as [Hin|[<-|Hin]].
              + specialize (Hge _ Hin). lia.
              + lia.
              + specialize (Hgt _ Hin). lia. }
          destruct (IHp _ _ _ _ _ H HPreN) as ((Hz1 & Hz2) & Hh' & Hwf' & HPre' & Hops).
          split; [|split; [exact Hh'|split; [exact Hwf'|split; [exact HPre'|]]]].
          -- split.
             ++ rewrite Hz1, yield_node; reflexivity.
             ++ rewrite Hz2, yield_node. cbn [snd]. cbn in Hy1, Hy2.
                rewrite <- app_assoc. cbn. rewrite Hy1. f_equal. f_equal. exact Hy2.
          -- intros o' Hin. destruct (Hops _ Hin) as [Hin'|]; [|auto].
             cbn in Hin'. apply in_app_or in Hin'. destruct Hin' as [|[<-|Hin']]; auto.
             right. specialize (Hgt _ Hin'). lia.
        * inversion H; subst. repeat split; try apply HPre; cbn; auto.
    - intros o rhs rest t rest' H HPre Hgt. rewrite inner_S in H.
      destruct rest as [|[o2 a2] rest1].
      + inversion H; subst. repeat split; try apply HPre; cbn; auto;
          try (intros; discriminate).
      + destruct (Nat.ltb_spec (prec o) (prec o2)) as [Hlt|Hge].
        * destruct (parse_op f rhs ((o2, a2) :: rest1) (prec o2)) as [[rhs' rest'']|] eqn:Ep;
            [|discriminate H].
          destruct (IHp _ _ _ _ _ Ep HPre) as ((Hy1 & Hy2) & Hh & Hwf & HPre2 & Hops).
          assert (Hgt' : ops_gt (prec o) rhs').
          { intros o' Hin. destruct (Hops _ Hin) as [Hin'|]; [apply Hgt; exact Hin'|lia]. }
          destruct (IHi _ _ _ _ _ H HPre2 Hgt') as ((Hz1 & Hz2) & Hh' & Hwf' & HPre' & Hgt'').
          repeat split; auto; try apply HPre'.
          -- congruence.
          -- rewrite Hz2. exact Hy2.
        * inversion H; subst. repeat split; try apply HPre; cbn; auto.
  Qed.

  (* ------------------------------------------------------------------ *)
  (* totality: fuel 2n+1 / 2n+2 is enough, and progress is made          *)

  Lemma climb_total_aux n :
    (forall fuel (lhs : tree) (rest : chain) minp, length rest <= n -> 2 * n + 1 <= fuel ->
        exists t rest', parse_op fuel lhs rest minp = Some (t, rest') /\
                        length rest' <= length rest /\
                        (forall o a r1, rest = (o, a) :: r1 -> minp <= prec o ->
                                        length rest' < length rest)) /\
    (forall fuel o (rhs : tree) (rest : chain), length rest <= n -> 2 * n + 2 <= fuel ->
        exists t rest', inner fuel o rhs rest = Some (t, rest') /\
                        length rest' <= length rest).
  Proof.
    induction n as [|n [IHp IHi]].
    - split.
      + intros fuel lhs rest minp Hl Hf. destruct rest; [|cbn in Hl; lia].
        destruct fuel; [lia|]. cbn. eexists _, _; repeat split; auto. intros; discriminate.
      + intros fuel o rhs rest Hl Hf. destruct rest; [|cbn in Hl; lia].
        destruct fuel; [lia|]. cbn. eexists _, _; repeat split; auto.
    - assert (Hp : forall fuel (lhs : tree) (rest : chain) minp, length rest <= S n -> 2 * S n + 1 <= fuel ->
        exists t rest', parse_op fuel lhs rest minp = Some (t, rest') /\
                        length rest' <= length rest /\
                        (forall o a r1, rest = (o, a) :: r1 -> minp <= prec o ->
                                        length rest' < length rest)).
      { intros fuel lhs rest minp Hl Hf. destruct fuel as [|f]; [lia|]. rewrite parse_op_S.
        destruct rest as [|[o a] rest1].
        - eexists _, _; repeat split; auto. intros; discriminate.
        - cbn in Hl. destruct (Nat.leb_spec minp (prec o)) as [Hle|Hgt].
          + destruct (IHi f o (Leaf a) rest1) as (rhs & rest2 & Ei & Hl2); [lia|lia|].
            rewrite Ei.
            destruct (IHp f (Node o lhs rhs) rest2 minp) as (t & rest' & Ep & Hl3 & _); [lia|lia|].
            rewrite Ep. eexists _, _; split; [reflexivity|]. cbn. split; [lia|]. intros; lia.
          + eexists _, _; split; [reflexivity|]. split; [lia|].
            intros o0 a0 r1 Heq Hle. inversion Heq; subst. lia. }
      split; [exact Hp|].
      intros fuel o rhs rest Hl Hf. destruct fuel as [|f]; [lia|]. rewrite inner_S.
      destruct rest as [|[o2 a2] rest1].
      + eexists _, _; repeat split; auto.
      + destruct (Nat.ltb_spec (prec o) (prec o2)) as [Hlt|Hge].
        * destruct (Hp f rhs ((o2, a2) :: rest1) (prec o2)) as (rhs' & rest'' & Ep & Hl2 & Hprog);
            [exact Hl|lia|].
          rewrite Ep. specialize (Hprog _ _ _ eq_refl (le_n _)). cbn in Hprog, Hl.
          destruct (IHi f o rhs' rest'') as (t & rest' & Ei & Hl3); [lia|lia|].
          rewrite Ei. eexists _, _; split; [reflexivity|]. cbn. lia.
        * eexists _, _; split; [reflexivity|]. lia.
  Qed.

  Theorem climb_total_lemma : forall (a : A) (rest : chain), exists t, climb prec a rest = Some t.
  Proof.
    intros a rest. unfold climb.
    destruct (proj1 (climb_total_aux (length rest)) (2 * length rest + 2) (Leaf a) rest 0)
      as (t & rest' & E & _ & _); [lia|lia|].
    rewrite E.
    destruct (proj1 (climb_inv _) _ _ _ _ _ E) as (_ & Hh & _).
    { split; [exact I|]. intros ? ? ? ? o' Hin; destruct Hin. }
    destruct rest' as [|[o ?] ?]; [eauto|]. cbn in Hh. lia.
  Qed.

  Theorem climb_sound_lemma : forall (a : A) (rest : chain) t,
      climb prec a rest = Some t -> yield t = (a, rest) /\ WF t.
  Proof.
    intros a rest t. unfold climb.
    destruct (Climb.parse_op prec _ (Leaf a) rest 0) as [[t' rest']|] eqn:E; [|discriminate].
    destruct rest'; [|discriminate]. intros H; inversion H; subst t'.
    destruct (proj1 (climb_inv _) _ _ _ _ _ E) as ((Hy1 & Hy2) & _ & Hwf & _).
    { split; [exact I|]. intros ? ? ? ? o' Hin; destruct Hin. }
    split; [|exact Hwf]. cbn in Hy1, Hy2. rewrite app_nil_r in Hy2.
    rewrite (surjective_pairing (yield t)), Hy1, Hy2; reflexivity.
  Qed.

  (* ------------------------------------------------------------------ *)
  (* uniqueness: a chain has at most one WF tree                          *)

  Lemma split_unique (X : Type) (l1 l1' l2 l2' : list X) x x' :
    l1 ++ x :: l2 = l1' ++ x' :: l2' ->
    (l1 = l1' /\ x = x' /\ l2 = l2') \/
    (exists m, l1' = l1 ++ x :: m /\ l2 = m ++ x' :: l2') \/
    (exists m, l1 = l1' ++ x' :: m /\ l2' = m ++ x :: l2).
  Proof.
    revert l1'; induction l1 as [|y l1 IH]; intros [|y' l1'] H; cbn in H.
    - inversion H; auto.
    - inversion H; subst. right; left. exists l1'. auto.
    - inversion H; subst. right; right. exists l1. auto.
    - inversion H; subst. destruct (IH _ H2) as [(-> & -> & ->)|[(m & -> & ->)|(m & -> & ->)]].
      + auto.
      + right; left; exists m; auto.
      + right; right; exists m; auto.
  Qed.

  Fixpoint tsize (t : tree) : nat :=
    match t with Leaf _ => 0 | Node _ l r => S (tsize l + tsize r) end.

  Lemma in_ops_of_chain (c : chain) o a : In (o, a) c -> In o (map fst c).
  Proof. intros H. apply (in_map fst) in H. exact H. Qed.

  Theorem wf_unique_lemma : forall t1 t2 : tree, WF t1 -> WF t2 -> yield t1 = yield t2 -> t1 = t2.
  Proof.
    intros t1. remember (tsize t1) as n eqn:Hn. revert t1 Hn.
    induction n as [n IH] using lt_wf_ind. intros t1 Hn t2 W1 W2 Hy.
    destruct t1 as [a1|o1 l1 r1], t2 as [a2|o2 l2 r2].
    - cbn in Hy. congruence.
    - rewrite yield_node in Hy. cbn in Hy. injection Hy as _ Hc.
      destruct (snd (yield l2)); discriminate.
    - rewrite yield_node in Hy. cbn in Hy. injection Hy as _ Hc.
      destruct (snd (yield l1)); discriminate.
    - rewrite !yield_node in Hy. injection Hy as Ha Hc.
      cbn in W1, W2. destruct W1 as (Wl1 & Wr1 & Gl1 & Gr1), W2 as (Wl2 & Wr2 & Gl2 & Gr2).
      destruct (split_unique _ _ _ _ _ _ _ Hc) as [(E1 & E2 & E3)|[(m & E1 & E2)|(m & E1 & E2)]].
      + inversion E2; subst o2.
        assert (l1 = l2).
        { eapply (IH (tsize l1)); try reflexivity; auto; [cbn in Hn; lia|].
          destruct (yield l1), (yield l2); cbn in *; congruence. }
        assert (r1 = r2).
        { eapply (IH (tsize r1)); try reflexivity; auto; [cbn in Hn; lia|].
          destruct (yield r1), (yield r2); cbn in *; congruence. }
        congruence.
      + (* o1 occurs in the left part of t2, o2 in the right part of t1 *)
        exfalso.
        assert (In o1 (all_ops_of l2)).
        { rewrite <- ops_yield, E1, map_app. apply in_or_app; right; left; reflexivity. }
        assert (In o2 (all_ops_of r1)).
        { rewrite <- ops_yield, E2, map_app. apply in_or_app; right; left; reflexivity. }
        specialize (Gl2 _ H). specialize (Gr1 _ H0). lia.
      + exfalso.
        assert (In o2 (all_ops_of l1)).
        { rewrite <- ops_yield, E1, map_app. apply in_or_app; right; left; reflexivity. }
        assert (In o1 (all_ops_of r2)).
        { rewrite <- ops_yield, E2, map_app. apply in_or_app; right; left; reflexivity. }
        specialize (Gl1 _ H). specialize (Gr2 _ H0). lia.
  Qed.
End Proofs.

(* ------------------------------------------------------------------ *)
(* the tree shape depends only on the operators                         *)

Section Shape.
  Variables A B : Type.
  Variable prec : op -> nat.

  Definition rel_res (x : option (tree A * list (op * A))) (y : option (tree B * list (op * B))) :=
    match x, y with
    | None, None => True
    | Some (t, r), Some (t', r') => shape_of t = shape_of t' /\ map fst r = map fst r'
    | _, _ => False
    end.

  Lemma shape_rel fuel :
    (forall (l : tree A) (l' : tree B) r r' minp,
        shape_of l = shape_of l' -> map fst r = map fst r' ->
        rel_res (parse_op prec fuel l r minp) (parse_op prec fuel l' r' minp)) /\
    (forall o (l : tree A) (l' : tree B) r r',
        shape_of l = shape_of l' -> map fst r = map fst r' ->
        rel_res (inner prec fuel o l r) (inner prec fuel o l' r')).
  Proof.
    induction fuel as [|f [IHp IHi]]; [split; intros; exact I|].
    split.
    - intros l l' r r' minp Hs Hr. rewrite !parse_op_S.
      destruct r as [|[o a] r1], r' as [|[o' a'] r1']; try discriminate.
      + cbn. auto.
      + cbn in Hr. inversion Hr; subst o'.
        destruct (minp <=? prec o); [|cbn; auto; split; auto; cbn; congruence].
        specialize (IHi o (Leaf a) (Leaf a') r1 r1' eq_refl H1).
        destruct (inner prec f o (Leaf a) r1) as [[rhs r2]|], (inner prec f o (Leaf a') r1') as [[rhs' r2']|];
          cbn in IHi; try contradiction; [|exact I].
        destruct IHi as [Hs2 Hr2]. apply IHp; [cbn; congruence|exact Hr2].
    - intros o l l' r r' Hs Hr. rewrite !inner_S.
      destruct r as [|[o2 a] r1], r' as [|[o2' a'] r1']; try discriminate.
      + cbn; auto.
      + cbn in Hr. inversion Hr; subst o2'.
        destruct (prec o <? prec o2); [|cbn; split; auto; cbn; congruence].
        specialize (IHp l l' ((o2, a) :: r1) ((o2, a') :: r1') (prec o2) Hs Hr).
        destruct (parse_op prec f l ((o2, a) :: r1) (prec o2)) as [[x y]|],
                 (parse_op prec f l' ((o2, a') :: r1') (prec o2)) as [[x' y']|];
          cbn in IHp; try contradiction; [|exact I].
        destruct IHp. apply IHi; auto.
  Qed.

  Theorem shape_operand_independent_lemma :
    forall (a : A) (a' : B) (c : list (op * A)) (c' : list (op * B)),
      map fst c = map fst c' ->
      option_map (@shape_of A) (climb prec a c) = option_map (@shape_of B) (climb prec a' c').
  Proof.
    intros a a' c c' Hc. unfold climb.
    assert (Hl : length c = length c') by (rewrite <- (map_length fst c), Hc, map_length; reflexivity).
    rewrite <- Hl.
    pose proof (proj1 (shape_rel (2 * length c + 2)) (Leaf a) (Leaf a') c c' 0 eq_refl Hc) as H.
    destruct (parse_op prec _ (Leaf a) c 0) as [[t r]|], (parse_op prec _ (Leaf a') c' 0) as [[t' r']|];
      cbn in H; try contradiction; [|reflexivity].
    destruct H as [Hs Hr]. destruct r, r'; try discriminate; cbn; congruence.
  Qed.
End Shape.
