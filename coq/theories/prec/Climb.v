(* M-PREC: the precedence climber of src/parse/precedence.rs (parse_op /
   parse_precedence) as a total function on fuel.  Executable definitions only. *)
From Coq Require Export List Arith Lia Bool.
Export ListNotations.

(* src/ast/mod.rs  enum BinaryExprType, same constructor order *)
Inductive op :=
| Add | Sub | Mul | Div | Mod
| AND | OR
| Equal | GT | LT | NotEqual | GTEqual | LTEqual | REMatch | NotREMatch | IN | IS
| DOT.

Definition all_ops : list op :=
  [Add; Sub; Mul; Div; Mod; AND; OR; Equal; GT; LT; NotEqual; GTEqual; LTEqual;
   REMatch; NotREMatch; IN; IS; DOT].

Definition op_eqb (a b : op) : bool :=
  match a, b with
  | Add, Add | Sub, Sub | Mul, Mul | Div, Div | Mod, Mod | AND, AND | OR, OR
  | Equal, Equal | GT, GT | LT, LT | NotEqual, NotEqual | GTEqual, GTEqual
  | LTEqual, LTEqual | REMatch, REMatch | NotREMatch, NotREMatch | IN, IN | IS, IS
  | DOT, DOT => true
  | _, _ => false
  end.

Section Climb.
  Variable A : Type.            (* operands: anything, incl. parenthesised sub-chains *)
  Variable prec : op -> nat.    (* the table (generated from the source, see gen/PrecTable.v) *)

  Inductive tree :=
  | Leaf (a : A)
  | Node (o : op) (l r : tree).

  (* the Vec<Element> after the first operand: (operator, operand) pairs *)
  Definition chain := list (op * A).

  (* parse_op(lhs, i, min_precedence): the outer while loop is the recursion of
     [parse_op] on the remaining input, the inner while loop is [inner]. *)
  Fixpoint parse_op (fuel : nat) (lhs : tree) (rest : chain) (minp : nat)
    : option (tree * chain) :=
    match fuel with
    | O => None
    | S f =>
      match rest with
      | [] => Some (lhs, [])
      | (o, a) :: rest1 =>
        if minp <=? prec o then
          match inner f o (Leaf a) rest1 with
          | None => None
          | Some (rhs, rest2) => parse_op f (Node o lhs rhs) rest2 minp
          end
        else Some (lhs, rest)
      end
    end
  with inner (fuel : nat) (o : op) (rhs : tree) (rest : chain)
    : option (tree * chain) :=
    match fuel with
    | O => None
    | S f =>
      match rest with
      | [] => Some (rhs, [])
      | (o2, _) :: _ =>
        if prec o <? prec o2 then
          match parse_op f rhs rest (prec o2) with
          | None => None
          | Some (rhs', rest') => inner f o rhs' rest'
          end
        else Some (rhs, rest)
      end
    end.

  (* parse_precedence: first operand, then parse_op with min precedence 0.
     op_expression panics if anything is left over; the model returns None then. *)
  Definition climb (a : A) (rest : chain) : option tree :=
    match parse_op (2 * length rest + 2) (Leaf a) rest 0 with
    | Some (t, []) => Some t
    | _ => None
    end.

  (* ---- specification side ---- *)

  (* in-order yield: first operand and the (operator, operand) list *)
  Fixpoint yield (t : tree) : A * chain :=
    match t with
    | Leaf a => (a, [])
    | Node o l r =>
      let '(a, c1) := yield l in
      let '(a2, c2) := yield r in
      (a, c1 ++ (o, a2) :: c2)
    end.

  Definition root_ok_left (o : op) (t : tree) : bool :=
    match t with Leaf _ => true | Node o' _ _ => prec o <=? prec o' end.
  Definition root_ok_right (o : op) (t : tree) : bool :=
    match t with Leaf _ => true | Node o' _ _ => prec o <? prec o' end.

  (* "higher level binds tighter; equal levels group left to right":
     a binary right child is strictly tighter, a binary left child at least as tight,
     and this holds for every operator below (hence the [all_*] closure). *)
  Fixpoint all_ops_of (t : tree) : list op :=
    match t with Leaf _ => [] | Node o l r => all_ops_of l ++ o :: all_ops_of r end.

  Fixpoint WF (t : tree) : Prop :=
    match t with
    | Leaf _ => True
    | Node o l r =>
      WF l /\ WF r /\
      (forall o', In o' (all_ops_of l) -> prec o <= prec o') /\
      (forall o', In o' (all_ops_of r) -> prec o < prec o')
    end.

  (* shape: the tree with operands erased *)
  Inductive shape := SLeaf | SNode (o : op) (l r : shape).
  Fixpoint shape_of (t : tree) : shape :=
    match t with Leaf _ => SLeaf | Node o l r => SNode o (shape_of l) (shape_of r) end.
End Climb.

Arguments Leaf {A}.
Arguments Node {A}.
Arguments parse_op {A}.
Arguments inner {A}.
Arguments climb {A}.
Arguments yield {A}.
Arguments WF {A}.
Arguments shape_of {A}.
Arguments all_ops_of {A}.

(* The reference grouping, computed directly from the table with no climbing:
   split the chain at the LAST operator of minimal level. Used as an independent
   executable specification (and by the search). *)
Section Spec.
  Variable A : Type.
  Variable prec : op -> nat.

  (* index of the last minimal-level operator *)
  Fixpoint min_level (c : list (op * A)) : option nat :=
    match c with
    | [] => None
    | (o, _) :: c' =>
      match min_level c' with
      | None => Some (prec o)
      | Some m => Some (Nat.min (prec o) m)
      end
    end.

  (* split at the last occurrence of level m: returns (before, op, operand, after) *)
  Fixpoint split_last (m : nat) (c : list (op * A))
    : option (list (op * A) * op * A * list (op * A)) :=
    match c with
    | [] => None
    | (o, a) :: c' =>
      match split_last m c' with
      | Some (bef, o', a', aft) => Some ((o, a) :: bef, o', a', aft)
      | None => if prec o =? m then Some ([], o, a, c') else None
      end
    end.

  Fixpoint spec_tree (fuel : nat) (a : A) (c : list (op * A)) : option (tree A) :=
    match fuel with
    | O => None
    | S f =>
      match min_level c with
      | None => Some (Leaf a)
      | Some m =>
        match split_last m c with
        | None => None
        | Some (bef, o, a', aft) =>
          match spec_tree f a bef, spec_tree f a' aft with
          | Some l, Some r => Some (Node o l r)
          | _, _ => None
          end
        end
      end
    end.
End Spec.
Arguments spec_tree {A}.
