(* Extraction of the executable models to OCaml (model.ml).
   Directives: ExtrOcamlBasic (bool, option, list, prod, unit, sumbool, sumor),
   ExtrOcamlString (ascii -> char, string -> char list).  No Extract Constant of our own. *)
From Coq Require Import Extraction ExtrOcamlBasic ExtrOcamlString.
From Ucg Require Import base.Bytes data.Val prec.Climb env.Collector env.Out data.Json data.MapJson data.B64 path.Path sem.Ast sem.Sem sem.FloatInst shell.Shell lex.Lex_Types lex.Vocab lex.Lex vm.Ops vm.Translate vm.Vm vm.Compile_Rel vm.Compile_Correct.
From Ucg Require Import env.Import env.Batch lsp.Docs.
From UcgGen Require Import PrecTable DocPrecTable.

Extraction Language OCaml.
Set Extraction Optimize.


Definition climb_code (a : nat) (c : list (op * nat)) := option_map (@shape_of nat) (climb code_prec a c).
Definition spec_doc (a : nat) (c : list (op * nat)) :=
  option_map (@shape_of nat) (spec_tree doc_prec (S (List.length c)) a c).

(* C14: formats and values are represented by what the converter registry answers for them *)
Definition out_run (atomic : bool) (pre : fsys) (src : bytes) (outs : list (option bytes * option bytes))
  : fsys * ores :=
  let '(st, r) := build_outs (option bytes) (option bytes) (fun f => f) (fun _ v => v) atomic
                             {| files := pre; locks := [] |} src outs in
  (files st, r).

(* C01 & co: the definitional semantics instantiated with Flocq binary64 *)
Definition sem_run (fuel : nat) (envv : list (bytes * bytes)) (strict_ ordered : bool) (p : prog) :=
  sem_prog b64_ops fuel envv strict_ ordered p.
Definition sem_float_bits (x : F b64_ops) : Z := f_to_bits b64_ops x.

Definition vm_run_prog (fuel : nat) (envv : list (bytes * bytes)) (strict_ : bool) (p : prog) :=
  vm_prog b64_ops fuel envv strict_ (translate p).

Extraction "model.ml" climb_code spec_doc dec_of_Z
  test_run exit_code file_spec out_run fs_get with_extension
  json_output json_input json_parse json_print to_json from_json b64_encode b64_decode normalize resolve
  sem_run sem_float_bits env_emit flags_emit exec_emit sh_words sh_env sh_script esc_sq esc_dq lex lex_all
  translate vm_run_prog in_fragment.

(* C16 / C09: the import and batch state machines, in a module of their own (their result/val types have the same
   constructor names as the semantics') *)
Definition batch_current := batch LockPerEvaluation.
Definition batch_legacy := batch LockPerInvocation.
Extraction "model_batch.ml" batch_current batch_legacy exit_status default_fuel evaluations artifacts empty_state.

(* C20: the document store; the "analysis" returns its own input (the workspace view) so that the harness can check that the
   real diagnostics are a function of it *)
Definition lsp_run (disk : store) (ms : list msg) : state * list (uri * option store) :=
  Docs.run (option store) (fun w _ _ => Some w) None disk (Docs.init disk) ms.
Extraction "model_lsp.ml" lsp_run.
