(* Extraction of the executable models to OCaml (model.ml).
   Directives: ExtrOcamlBasic (bool, option, list, prod, unit, sumbool, sumor),
   ExtrOcamlString (ascii -> char, string -> char list).  No Extract Constant of our own. *)
From Coq Require Import Extraction ExtrOcamlBasic ExtrOcamlString.
From Ucg Require Import base.Bytes data.Val prec.Climb env.Collector env.Out data.Json data.MapJson data.B64 path.Path sem.Ast sem.Sem sem.FloatInst shell.Shell lex.Lex_Types lex.Vocab lex.Lex vm.Ops vm.Translate vm.Vm vm.Compile_Rel vm.Compile_Correct.
From Ucg Require Import env.Import env.Batch lsp.Docs shape.Shape data.Xml print.Print pos.PAst pos.PTranslate pos.PTemplate.
From UcgGen Require Import PrecTable DocPrecTable.

Extraction Language OCaml.
Set Extraction Optimize.


Definition climb_code (a : nat) (c : list (op * nat)) := option_map (@shape_of nat) (climb code_prec a c).
Definition spec_doc (a : nat) (c : list (op * nat)) :=
  option_map (@shape_of nat) (spec_tree doc_prec (S (List.length c)) a c).

(* C14: formats and values are represented by what the converter registry answers for them *)
Definition out_run (atomic : bool) (pre : fsys) (src : bytes) (outs : list (option bytes * option bytes))
  : fsys * ores :=
  let '(st, r) := build_outs (option bytes) (option bytes) (fun f => f) (fun _ v => v) atomic
                             {| files := pre; locks := [] |} src outs in
  (files st, r).

(* C01 & co: the definitional semantics instantiated with Flocq binary64 *)
Definition sem_run (fuel : nat) (envv : list (bytes * bytes)) (strict_ ordered : bool) (p : prog) :=
  sem_prog b64_ops fuel envv strict_ ordered p.
Definition sem_float_bits (x : F b64_ops) : Z := f_to_bits b64_ops x.

Definition vm_run_prog (fuel : nat) (envv : list (bytes * bytes)) (strict_ : bool) (p : prog) :=
  vm_prog b64_ops fuel envv strict_ (translate p).

Extraction "model.ml" climb_code spec_doc dec_of_Z
  test_run exit_code file_spec out_run fs_get with_extension
  json_output json_input json_parse json_print to_json from_json b64_encode b64_decode normalize resolve
  sem_run sem_float_bits env_emit flags_emit exec_emit sh_words sh_env sh_script esc_sq esc_dq lex lex_all
  translate vm_run_prog in_fragment.

(* C16 / C09: the import and batch state machines, in a module of their own (their result/val types have the same
   constructor names as the semantics') *)
Definition batch_current := batch LockPerEvaluation.
Definition batch_legacy := batch LockPerInvocation.
Extraction "model_batch.ml" batch_current batch_legacy exit_status default_fuel evaluations artifacts empty_state.

(* C20: the document store; the "analysis" returns its own input (the workspace view) so that the harness can check that the
   real diagnostics are a function of it *)
Definition lsp_run (disk : Docs.store) (ms : list Docs.msg) : Docs.state * list (Docs.uri * option Docs.store) :=
  Docs.run (option Docs.store) (fun w _ _ => Some w) None disk (Docs.init disk) ms.
Extraction "model_lsp.ml" lsp_run.

(* C06 / C07: shape narrowing, the static checker and constraint checking (floats as bit patterns) *)
Definition x_builds := builds bits_ops.
Definition x_build_accepts := build_accepts bits_ops.
Definition x_build_accepts_prog := build_accepts_prog bits_ops.
Definition x_build_accepts_named := build_accepts_named bits_ops.
Definition x_build_accepts_let_named := build_accepts_let_named bits_ops.
Definition x_conforms := conforms bits_ops.
Definition x_conforms_strict := conforms_strict bits_ops.
Definition x_constraint_grammar := constraint_grammar bits_ops.
Definition x_literal_value := literal_value bits_ops.
Definition x_check := fun ss => match check_stmts ss [] with Some _ => true | None => false end.
Definition x_build_prog := build_prog bits_ops.
Definition x_inhabitsb := inhabitsb bits_ops.
Definition x_runtime_ok := runtime_ok bits_ops.
Definition x_same_shape := same_shape bits_ops.
Extraction "model_shape.ml" x_runtime_ok x_same_shape x_builds x_build_accepts x_build_accepts_prog x_build_accepts_named
  x_build_accepts_let_named x_conforms x_conforms_strict x_constraint_grammar x_literal_value x_check
  x_build_prog narrow narrow_st derive derive_st check_stmts x_inhabitsb shape_eqb known_c07 known_c07_wide fragment_prog cstmts_of.

(* C12: the xml converter, the EventWriter and an independent XML 1.0 reader *)
Extraction "model_xml.ml" to_xml_r to_xml xml_emit_r xml_emit xml_output xml_parse tree_of_doc tree_of_events
  events_of_tree as_written xml_tree_wf valid_names strip_ws_doc.

(* C05: the AST printer (byte-exact for comment-free programs), the comment map of the tokenizer and the comment scheduler *)
Extraction "model_print.ml" pp_stmts f64_display float_text render_with_comments run_render comment_line is_bareword comment_map_of.

(* C17: the positioned translator and the template scanner *)
Extraction "model_pos.ml" ptranslate erase_stmt translate src_positions_of_stmt tpl_positions_of_stmt shift_stmt tpl_placedb tpl_startsb tpl_scan.
(* C17, run-time half: the positioned VM (pos/PVm.v) on the positioned translation; appended at the END of Extract.v *)
From Ucg Require Import pos.PVm pos.PVm_Lemmas pos.PVm_Locality.

(* the positioned machine on the positioned translation of a positioned program *)
Definition pvm_run_prog (fuel : nat) (envv : list (bytes * bytes)) (strict_ : bool) (p : pprog) :=
  pvm_prog b64_ops fuel envv strict_ (ptranslate p).
(* the position-free machine of vm/Vm.v on the erased program (for the erasure self-check of the driver) *)
Definition vm_run_erased (fuel : nat) (envv : list (bytes * bytes)) (strict_ : bool) (p : pprog) :=
  vm_prog b64_ops fuel envv strict_ (translate (map erase_stmt p)).
Definition erase_binding (kv : bytes * (pval b64_ops * pos)) := (fst kv, erase_v (fst (snd kv))).

(* the run with every op labelled by its index (theorem pvm_blame_index): which op is blamed *)
Definition pvm_blame_run (fuel : nat) (envv : list (bytes * bytes)) (strict_ : bool) (p : pprog) :=
  let code := ptranslate p in pvm_prog_at b64_ops (index_dummy code) fuel envv strict_ (index_code code).

(* the side condition [scoped] of pvm_locality_translated for every top-level statement (a theorem: ptranslate_scoped), and the statement that is executing at
   depth 0 when the error surfaces (by running statement after statement with pvm_run_until) *)
Definition stmt_bounds (p : pprog) : list nat :=
  (fix go (acc : nat) (l : list pstmt) : list nat :=
     match l with [] => [] | s :: l' => let e := acc + List.length (ptranslate_stmt s) in e :: go e l' end) 0 p.
Definition scoped_all (p : pprog) : bool :=
  let code := ptranslate p in
  (fix go (lo : nat) (l : list pstmt) : bool :=
     match l with [] => true | s :: l' => let hi := lo + List.length (ptranslate_stmt s) in scopedb code lo hi && go hi l' end) 0 p.
Fixpoint failing_stmt_from (code : pops) (strict_ : bool) (envv : list (bytes * bytes)) (fuel : nat)
         (st : pstate b64_ops) (k : nat) (bounds : list nat) : option nat :=
  match bounds with
  | [] => None
  | hi :: rest =>
    match pvm_run_until b64_ops code strict_ envv pos0 hi fuel st with
    | POk st' => failing_stmt_from code strict_ envv fuel st' (S k) rest
    | PErr _ _ _ => Some k
    | _ => None
    end
  end.
Definition failing_stmt (fuel : nat) (envv : list (bytes * bytes)) (strict_ : bool) (p : pprog) : option nat :=
  failing_stmt_from (ptranslate p) strict_ envv fuel (pinit_state b64_ops) 0 (stmt_bounds p).

(* the value stack is empty at every statement boundary the run reaches (hypothesis [pstk st0 = []] of pvm_locality_translated) *)
Fixpoint boundaries_clean_from (code : pops) (strict_ : bool) (envv : list (bytes * bytes)) (fuel : nat)
         (st : pstate b64_ops) (bounds : list nat) : bool :=
  match bounds with
  | [] => true
  | hi :: rest =>
    match pvm_run_until b64_ops code strict_ envv pos0 hi fuel st with
    | POk st' =>
      (if Nat.eqb (ppc st') hi then match pstk st' with [] => true | _ :: _ => false end else true)
      && boundaries_clean_from code strict_ envv fuel st' rest
    | _ => true
    end
  end.
Definition boundaries_clean (fuel : nat) (envv : list (bytes * bytes)) (strict_ : bool) (p : pprog) : bool :=
  boundaries_clean_from (ptranslate p) strict_ envv fuel (pinit_state b64_ops) (stmt_bounds p).

Extraction "model_pvm.ml" boundaries_clean failing_stmt scoped_all pvm_blame_run pvm_run_prog vm_run_erased erase_binding ptranslate shift_stmt shift_pos
  src_positions_of_stmt tpl_positions_of_stmt.

(* C05: the parser model (parse/Parse.v) and the executable side conditions of the print/parse round trip *)
From Ucg Require Import parse.Parse parse.Parse_Toks parse.Parse_Lemmas parse.Parse_Lex.
Extraction "model_parse.ml" parse_src Parse.parse parse_expr Lex.lex Print.pp_stmts ptoks pnorm prog_ok raw_tpl_prog frag_prog strip_tok lex_ok_prog pp_stmts_raw.

(* C03: the TOML output model (converter + toml-rs 0.5.11 pretty serializer), the independent reader and the specification *)
From Ucg Require Import data.Toml.
Extraction "model_toml.ml" to_toml toml_emit toml_output ser_root toml_parse spec_data doc_canon doc_eqb toml_rt_ok
  emit_value_str escape_key float_text parse_string parse_key classify_tok dec_of_Z.

(* C03: the YAML output model (converter + serde_yaml 0.9.34 serializer + the libyaml emitter), the independent reader and the specification *)
From Ucg Require Import data.Yaml.
Extraction "model_yaml.ml" to_yaml yaml_emit yaml_output yaml_parse Yaml.spec_data Yaml.doc_eqb yaml_rt_ok dec_of_Z.
