"""Typed, size-bounded, seeded generator of ucg programs.

A program is a list of statements; every node is a python tuple (see `to_text`, `to_sexp`,
`to_dump`).  The generator tracks approximate types so that most expressions evaluate, and
injects ill-typed / failing sub-terms with probability `p_bad`.
"""
import struct

PREC = {"Equal": 1, "NotEqual": 1, "GTEqual": 1, "LTEqual": 1, "GT": 1, "LT": 1, "REMatch": 1, "NotREMatch": 1,
        "IN": 2, "IS": 2, "Add": 3, "Sub": 3, "Mul": 4, "Div": 4, "Mod": 4, "AND": 5, "OR": 5, "DOT": 6}
TOK = {"Add": "+", "Sub": "-", "Mul": "*", "Div": "/", "Mod": "%%", "AND": "&&", "OR": "||", "Equal": "==",
       "GT": ">", "LT": "<", "NotEqual": "!=", "GTEqual": ">=", "LTEqual": "<=", "REMatch": "~",
       "NotREMatch": "!~", "IN": "in", "IS": "is", "DOT": "."}
FLOATS = [0.5, 1.5, 2.0, 0.25, 3.75, 100.0, 0.125, 1024.0, 7.0, 0.0]
INTS = [0, 1, 2, 3, 5, 7, 10, 42, 100, 9223372036854775807, 9223372036854775806, 4611686018427387904]
STRS = ["", "a", "foo", "bar", "x y", "é", "@", "q\"q", "b\\s", "true", "1", "tuple", "日本", "line\nbreak"]
NAMES = ["a", "b", "c", "d", "item", "item", "foo", "bar", "val", "x1", "y2", "name", "data", "cfg", "n", "m", "t", "lst", "tpl", "acc", "it", "k", "v"]
FIELD_NAMES = ["a", "b", "c", "x", "y", "name", "val", "port", "host", "inner", "k1", "quoted field", "é"]
IS_NAMES = ["null", "str", "int", "float", "tuple", "list", "func", "module", "bool"]


def fbits(x):
    return struct.unpack("<Q", struct.pack("<d", x))[0]


# ---------------------------------------------------------------------------
# printing

def ucg_str(s):
    return '"' + s.replace("\\", "\\\\").replace('"', '\\"') + '"'


def is_bareword(s):
    import re
    return re.fullmatch(r"[A-Za-z][A-Za-z0-9_-]*", s) is not None and not s.startswith(("true", "false", "NULL"))


def field_name(k):
    return k if is_bareword(k) and k not in KEYWORDS else ucg_str(k)


KEYWORDS = {"let", "module", "func", "out", "assert", "self", "import", "include", "as", "map", "filter", "reduce",
            "select", "not", "constraint", "convert", "fail", "NULL", "in", "is", "TRACE", "env", "true", "false", "mod",
            "int", "float", "str", "bool"}


def tmpl_escape(text):
    return text.replace("\\", "\\\\").replace("@", "\\@")


def to_text(e):
    t = e[0]
    if t == "null":
        return "NULL"
    if t == "bool":
        return "true" if e[1] else "false"
    if t == "int":
        return str(e[1])
    if t == "float":
        r = repr(float(e[1]))
        assert "e" not in r and "inf" not in r and "nan" not in r, r
        return r
    if t == "str":
        return ucg_str(e[1])
    if t == "sym":
        return e[1]
    if t == "tuple":
        return "{" + ", ".join("%s = %s" % (field_name(k), to_text(v)) for k, v in e[1]) + "}"
    if t == "list":
        return "[" + ", ".join(to_text(x) for x in e[1]) + "]"
    if t == "bin":
        return "%s %s %s" % (to_text(e[2]), TOK[e[1]], to_text(e[3]))
    if t == "not":
        return "not " + to_text(e[1])
    if t == "group":
        return "(" + to_text(e[1]) + ")"
    if t == "copy":
        return to_text(e[1]) + "{" + ", ".join("%s = %s" % (field_name(k), to_text(v)) for k, v in e[2]) + "}"
    if t == "range":
        if e[2] is None:
            return "%s:%s" % (to_text(e[1]), to_text(e[3]))
        return "%s:%s:%s" % (to_text(e[1]), to_text(e[2]), to_text(e[3]))
    if t == "fmtl":
        tmpl = "".join(tmpl_escape(p[1]) if p[0] == "s" else "@" for p in e[1])
        return "%s %% (%s)" % (ucg_str(tmpl), ", ".join(to_text(a) for a in e[2]))
    if t == "fmts":
        tmpl = "".join(tmpl_escape(p[1]) if p[0] == "s" else "@{" + to_text(p[1]) + "}" for p in e[1])
        return "%s %% %s" % (ucg_str(tmpl), to_text(e[2]))
    if t == "call":
        return "%s(%s)" % (to_text(e[1]), ", ".join(to_text(a) for a in e[2]))
    if t == "cast":
        return "%s(%s)" % (e[1], to_text(e[2]))
    if t == "func":
        return "func (%s) => %s" % (", ".join(e[1]), to_text(e[2]))
    if t == "select":
        head = "select (%s" % to_text(e[1])
        if e[2] is not None:
            head += ", " + to_text(e[2])
        return head + ") => {" + ", ".join("%s = %s" % (field_name(k), to_text(v)) for k, v in e[3]) + "}"
    if t == "map":
        return "map(%s, %s)" % (to_text(e[1]), to_text(e[2]))
    if t == "filter":
        return "filter(%s, %s)" % (to_text(e[1]), to_text(e[2]))
    if t == "reduce":
        return "reduce(%s, %s, %s)" % (to_text(e[1]), to_text(e[2]), to_text(e[3]))
    if t == "module":
        params = "{" + ", ".join("%s = %s" % (field_name(k), to_text(v)) for k, v in e[1]) + "}"
        out = " (%s)" % to_text(e[2]) if e[2] is not None else ""
        body = " ".join(stmt_text(s) for s in e[3])
        return "module %s =>%s { %s }" % (params, out, body)
    if t == "fail":
        return "fail " + to_text(e[1])
    if t == "trace":
        return "TRACE " + to_text(e[1])
    raise ValueError(e)


def stmt_text(s):
    if s[0] == "let":
        return "let %s = %s;" % (s[1], to_text(s[2]))
    if s[0] == "expr":
        return to_text(s[1]) + ";"
    raise ValueError(s)


def prog_text(p, sep="\n"):
    return sep.join(stmt_text(s) for s in p) + "\n"


# ---------------------------------------------------------------------------
# model encoding

def hexs(s):
    return "x" + s.encode("utf-8").hex()


def to_sexp(e):
    t = e[0]
    if t == "null":
        return "(null)"
    if t == "bool":
        return "(bool %d)" % (1 if e[1] else 0)
    if t == "int":
        return "(int %d)" % e[1]
    if t == "float":
        return "(float %d)" % fbits(float(e[1]))
    if t == "str":
        return "(str %s)" % hexs(e[1])
    if t == "sym":
        return "(sym %s)" % hexs(e[1])
    if t == "tuple":
        return "(tuple" + "".join(" (%s %s)" % (hexs(k), to_sexp(v)) for k, v in e[1]) + ")"
    if t == "list":
        return "(list" + "".join(" " + to_sexp(x) for x in e[1]) + ")"
    if t == "bin":
        return "(bin %s %s %s)" % (e[1], to_sexp(e[2]), to_sexp(e[3]))
    if t == "not":
        return "(not %s)" % to_sexp(e[1])
    if t == "group":
        return "(group %s)" % to_sexp(e[1])
    if t == "copy":
        return "(copy %s" % to_sexp(e[1]) + "".join(" (%s %s)" % (hexs(k), to_sexp(v)) for k, v in e[2]) + ")"
    if t == "range":
        return "(range %s %s %s)" % (to_sexp(e[1]), "_" if e[2] is None else to_sexp(e[2]), to_sexp(e[3]))
    if t == "fmtl":
        parts = " ".join("(s %s)" % hexs(p[1]) if p[0] == "s" else "(hole)" for p in norm_parts(e[1]))
        return "(fmtl (%s) (%s))" % (parts, " ".join(to_sexp(a) for a in e[2]))
    if t == "fmts":
        parts = " ".join("(s %s)" % hexs(p[1]) if p[0] == "s" else "(e %s)" % to_sexp(p[1]) for p in norm_parts(e[1]))
        return "(fmts (%s) %s)" % (parts, to_sexp(e[2]))
    if t == "call":
        return "(call %s (%s))" % (to_sexp(e[1]), " ".join(to_sexp(a) for a in e[2]))
    if t == "cast":
        return "(cast %s %s)" % (e[1], to_sexp(e[2]))
    if t == "func":
        return "(func (%s) %s)" % (" ".join(hexs(p) for p in e[1]), to_sexp(e[2]))
    if t == "select":
        return "(select %s %s (%s))" % (to_sexp(e[1]), "_" if e[2] is None else to_sexp(e[2]),
                                        " ".join("(%s %s)" % (hexs(k), to_sexp(v)) for k, v in e[3]))
    if t == "map":
        return "(map %s %s)" % (to_sexp(e[1]), to_sexp(e[2]))
    if t == "filter":
        return "(filter %s %s)" % (to_sexp(e[1]), to_sexp(e[2]))
    if t == "reduce":
        return "(reduce %s %s %s)" % (to_sexp(e[1]), to_sexp(e[2]), to_sexp(e[3]))
    if t == "module":
        return "(module (%s) %s (%s))" % (" ".join("(%s %s)" % (hexs(k), to_sexp(v)) for k, v in e[1]),
                                          "_" if e[2] is None else to_sexp(e[2]),
                                          " ".join(stmt_sexp(s) for s in e[3]))
    if t == "fail":
        return "(fail %s)" % to_sexp(e[1])
    if t == "trace":
        return "(trace %s)" % to_sexp(e[1])
    raise ValueError(e)


def norm_parts(parts):
    """the parts list exactly as src/build/format.rs builds it from the template text: a Str part (possibly empty)
    is pushed before every placeholder, and a trailing Str part only if it is non-empty"""
    out = []
    buf = ""
    for p in parts:
        if p[0] == "s":
            buf += p[1]
        else:
            out.append(("s", buf))
            buf = ""
            out.append(p)
    if buf != "":
        out.append(("s", buf))
    return out


def stmt_sexp(s):
    if s[0] == "let":
        return "(let %s %s)" % (hexs(s[1]), to_sexp(s[2]))
    if s[0] == "expr":
        return "(expr %s)" % to_sexp(s[1])
    raise ValueError(s)


def prog_sexp(p, fuel=400, strict=True, ordered=False, env=()):
    envs = " ".join("(%s %s)" % (hexs(k), hexs(v)) for k, v in env)
    return "(%d %d %d (%s) (%s))" % (fuel, 1 if strict else 0, 1 if ordered else 0, envs, " ".join(stmt_sexp(s) for s in p))


# ---------------------------------------------------------------------------
# generation

class Gen:
    def __init__(self, rng, max_depth=6, p_bad=0.012, features=None):
        self.rng = rng
        self.max_depth = max_depth
        self.p_bad = p_bad
        self.counts = {}
        self.features = features   # None = everything
        self.fresh = 0

    def count(self, k):
        self.counts[k] = self.counts.get(k, 0) + 1

    def allowed(self, f):
        return self.features is None or f in self.features

    def new_name(self, env):
        for _ in range(50):
            n = self.rng.choice(NAMES)
            if n not in env and n not in KEYWORDS:
                return n
        self.fresh += 1
        return "v%d" % self.fresh

    # --- helpers for grouping so that the text parses to the intended tree ---
    def operand(self, e, parent_op, right):
        """wrap [e] in a group if it would not parse as an operand of parent_op"""
        t = e[0]
        if t == "bin":
            pc, pp = PREC[e[1]], PREC[parent_op]
            if pc < pp or (pc == pp and right):
                return ("group", e)
            return e
        if t in ("not", "fail", "trace", "func", "fmtl", "fmts", "range", "module", "select"):
            return ("group", e)
        if parent_op == "DOT" and t in ("int", "float"):
            return ("group", e)
        if t == "int" and e[1] < 0:
            return ("group", e)
        return e

    def bin(self, op, l, r):
        self.count("bin:" + op)
        return ("bin", op, self.operand(l, op, False), self.operand(r, op, True))

    def closed(self, e):
        """an expression usable where the grammar wants a single closed expression without trailing operators"""
        if e[0] in ("bin", "not", "fail", "trace", "func", "fmtl", "fmts", "range", "module"):
            return ("group", e)
        return e

    # --- literals ---
    def lit(self, ty):
        r = self.rng
        if ty == "int":
            return ("int", r.choice(INTS) if r.random() < 0.3 else r.randint(0, 20))
        if ty == "float":
            return ("float", r.choice(FLOATS))
        if ty == "str":
            return ("str", r.choice(STRS))
        if ty == "bool":
            return ("bool", r.random() < 0.5)
        if ty == "null":
            return ("null",)
        raise ValueError(ty)

    def rand_type(self, depth):
        r = self.rng.random()
        if depth <= 0 or r < 0.6:
            return self.rng.choice(["int", "int", "str", "bool", "float", "str"])
        if r < 0.8:
            return ("list", self.rand_type(depth - 1))
        n = self.rng.randint(1, 3)
        names = self.rng.sample(FIELD_NAMES, n)
        return ("tuple", tuple((k, self.rand_type(depth - 1)) for k in names))

    def vars_of(self, env, ty):
        return [n for n, t in env.items() if t == ty]

    # --- expressions ---
    def expr(self, ty, depth, env):
        r = self.rng
        if r.random() < self.p_bad and depth > 0:
            return self.bad(ty, depth, env)
        cands = self.vars_of(env, ty)
        if cands and r.random() < (0.35 if depth > 0 else 0.6):
            self.count("sym")
            return ("sym", r.choice(cands))
        if depth <= 0:
            return self.leaf(ty, env)
        k = r.random()
        # generic constructs available at every type
        if k < 0.10 and self.allowed("select"):
            return self.select(ty, depth, env)
        if k < 0.16 and self.allowed("call"):
            e = self.call(ty, depth, env)
            if e is not None:
                return e
        if k < 0.21 and self.allowed("dot"):
            e = self.dot(ty, depth, env)
            if e is not None:
                return e
        if k < 0.23:
            self.count("group")
            return ("group", self.expr(ty, depth - 1, env))
        if k < 0.25 and self.allowed("trace"):
            self.count("trace")
            return ("group", ("trace", self.expr(ty, depth - 1, env)))
        if k < 0.28 and self.allowed("reduce"):
            e = self.reduce(ty, depth, env)
            if e is not None:
                return e
        if k < 0.30 and self.allowed("module"):
            e = self.module_inst(ty, depth, env)
            if e is not None:
                return e
        return self.typed(ty, depth, env)

    def leaf(self, ty, env):
        if isinstance(ty, str):
            if ty in ("int", "float", "str", "bool", "null"):
                return self.lit(ty)
            return ("null",)
        if ty[0] == "list":
            return ("list", [self.leaf(ty[1], env) for _ in range(self.rng.randint(0, 2))])
        if ty[0] == "tuple":
            return ("tuple", [(k, self.leaf(t, env)) for k, t in ty[1]])
        if ty[0] == "func":
            params = ["p%d" % i for i in range(ty[1])]
            return ("func", params, self.leaf(ty[2], env))
        return ("null",)

    def typed(self, ty, depth, env):
        r = self.rng
        d = depth - 1
        if ty == "int":
            k = r.random()
            if k < 0.45:
                op = r.choice(["Add", "Sub", "Mul", "Div", "Mod", "Add", "Sub"])
                rhs = self.expr("int", d, env)
                if op in ("Div", "Mod") and r.random() < 0.95:
                    rhs = ("int", r.randint(1, 9))
                return self.bin(op, self.expr("int", d, env), rhs)
            if k < 0.55 and self.allowed("cast"):
                self.count("cast:int")
                src = r.choice([("str", str(r.randint(-50, 50))), ("str", str(r.randint(0, 50))), self.expr("int", d, env), ("str", "+7"),
                                ("str", "12x") if r.random() < 0.2 else ("str", "12")])
                return ("cast", "int", src)
            return self.lit("int")
        if ty == "float":
            k = r.random()
            if k < 0.5:
                op = r.choice(["Add", "Sub", "Mul", "Div"])
                return self.bin(op, self.expr("float", d, env), self.expr("float", d, env))
            if k < 0.6 and self.allowed("cast"):
                self.count("cast:float")
                return ("cast", "float", ("int", r.randint(0, 100)) if r.random() < 0.5 else self.expr("float", d, env))
            return self.lit("float")
        if ty == "str":
            k = r.random()
            if k < 0.3:
                return self.bin("Add", self.expr("str", d, env), self.expr("str", d, env))
            if k < 0.5 and self.allowed("format"):
                return self.format(d, env)
            if k < 0.58 and self.allowed("cast"):
                self.count("cast:str")
                return ("cast", "str", self.expr(r.choice(["int", "str", "bool"]), d, env))
            if k < 0.66 and self.allowed("map"):
                self.count("map:str")
                p = self.new_name(env)
                env2 = dict(env)
                env2[p] = "str"
                f = ("func", [p], self.expr("str", min(d, 2), env2))
                op = r.choice(["map", "filter"])
                if op == "filter":
                    f = ("func", [p], self.expr("bool", min(d, 2), env2))
                return (op, f, self.closed(self.expr("str", d, env)))
            return self.lit("str")
        if ty == "bool":
            k = r.random()
            if k < 0.2:
                return self.bin(r.choice(["AND", "OR"]), self.expr("bool", d, env), self.expr("bool", d, env))
            if k < 0.35:
                t2 = r.choice(["int", "float"])
                return self.bin(r.choice(["GT", "LT", "GTEqual", "LTEqual"]), self.expr(t2, d, env), self.expr(t2, d, env))
            if k < 0.55:
                t2 = self.rand_type(1)
                return self.bin(r.choice(["Equal", "NotEqual"]), self.expr(t2, d, env), self.expr(t2, d, env))
            if k < 0.63:
                self.count("not")
                return ("not", self.operand(self.expr("bool", d, env), "DOT", False) if r.random() < 0.5
                        else self.closed(self.expr("bool", d, env)))
            if k < 0.73 and self.allowed("is"):
                t2 = self.rand_type(1)
                return self.bin("IS", self.expr(t2, d, env), ("str", r.choice(IS_NAMES)))
            if k < 0.85 and self.allowed("in"):
                return self.in_expr(d, env)
            if k < 0.9 and self.allowed("cast"):
                self.count("cast:bool")
                return ("cast", "bool", r.choice([("str", "true"), ("str", "false"), ("str", "yes"), self.lit("bool")]))
            return self.lit("bool")
        if ty == "null":
            return ("null",)
        if ty[0] == "list":
            k = r.random()
            et = ty[1]
            if k < 0.2:
                return self.bin("Add", self.expr(ty, d, env), self.expr(ty, d, env))
            if k < 0.35 and et == "int" and self.allowed("range"):
                self.count("range")
                a = ("int", r.randint(0, 5))
                z = ("int", r.randint(0, 9))
                st = None if r.random() < 0.6 else r.choice([("int", 1), ("int", 2), ("int", 3), ("int", 0)])
                if r.random() < 0.15:
                    a = self.closed(self.expr("int", min(d, 1), env))
                return ("range", a, st, z)
            if k < 0.55 and self.allowed("map"):
                self.count("map:list")
                src_t = self.rand_type(0)
                p = self.new_name(env)
                env2 = dict(env)
                env2[p] = src_t
                f = ("func", [p], self.expr(et, min(d, 2), env2))
                return ("map", f, self.closed(self.expr(("list", src_t), d, env)))
            if k < 0.68 and self.allowed("map"):
                self.count("filter:list")
                p = self.new_name(env)
                env2 = dict(env)
                env2[p] = et
                body = self.expr("bool", min(d, 2), env2) if r.random() < 0.8 else r.choice([("null",), ("sym", p)])
                return ("filter", ("func", [p], body), self.closed(self.expr(ty, d, env)))
            return ("list", [self.expr(et, d, env) for _ in range(r.choice([0, 1, 1, 2, 2, 3]))])
        if ty[0] == "tuple":
            k = r.random()
            if k < 0.3 and self.allowed("copy"):
                return self.copy(ty, d, env)
            if k < 0.4 and self.allowed("map"):
                self.count("filter:tuple")
                kn, vn = self.new_name(env), None
                env2 = dict(env)
                env2[kn] = "str"
                vn = self.new_name(env2)
                env2[vn] = "any"
                body = r.choice([("bool", True), self.bin("NotEqual", ("sym", kn), ("str", ty[1][0][0])), ("bool", False)])
                # filtering may remove fields: only usable where the exact shape does not matter
                return ("filter", ("func", [kn, vn], ("bool", True)), self.closed(self.expr(ty, d, env)))
            flds = [(k2, self.expr(t2, d, env)) for k2, t2 in ty[1]]
            if r.random() < 0.1 and flds:
                # a repeated key of the same type replaces the earlier value (position kept)
                k2, t2 = ty[1][0]
                flds.append((k2, self.expr(t2, d, env)))
                self.count("tuple:dupkey")
            return ("tuple", flds)
        if ty[0] == "func":
            params = []
            env2 = dict(env)
            for pt in ty[3] if len(ty) > 3 else ["any"] * ty[1]:
                p = self.new_name(env2)
                params.append(p)
                env2[p] = pt
            self.count("func")
            return ("func", params, self.expr(ty[2], min(d, 3), env2))
        return self.leaf(ty, env)

    def select(self, ty, depth, env):
        r = self.rng
        d = depth - 1
        self.count("select")
        if r.random() < 0.5:
            cond = self.expr("bool", d, env)
            arms = [("true", self.expr(ty, d, env)), ("false", self.expr(ty, d, env))]
            if r.random() < 0.3:
                arms = arms[:1] if r.random() < 0.6 else arms[1:]
            if r.random() < 0.35:
                # cases of other names next to (before, between, after, instead of) the true/false cases: never taken for a boolean
                for k in r.sample(["foo", "bar", "x y", "truex", "False"], r.randint(1, 2)):
                    arms.insert(r.randint(0, len(arms)), (k, self.expr(ty, d, env)))
                if r.random() < 0.25:
                    arms = [a for a in arms if a[0] not in ("true", "false")] or arms
            if r.random() < 0.2:
                r.shuffle(arms)
            dflt = self.expr(ty, d, env) if r.random() < 0.5 or len(arms) < 2 or {a[0] for a in arms} != {"true", "false"} else None
            if r.random() < 0.03:
                dflt = None
            return ("select", cond, dflt, arms)
        keys = r.sample(["foo", "bar", "a", "x y", "é"], r.randint(1, 3))
        cond = self.expr("str", d, env) if r.random() < 0.5 else ("str", r.choice(keys + ["zzz"]))
        arms = [(k, self.expr(ty, d, env)) for k in keys]
        dflt = self.expr(ty, d, env) if r.random() < 0.93 else None
        return ("select", cond, dflt, arms)

    def call(self, ty, depth, env):
        r = self.rng
        d = depth - 1
        funcs = [n for n, t in env.items() if isinstance(t, tuple) and t[0] == "func" and t[2] == ty]
        if funcs and r.random() < 0.7:
            f = r.choice(funcs)
            ft = env[f]
            self.count("call:named")
            args = [self.expr(pt if pt != "any" else "int", d, env) for pt in ft[3]]
            if r.random() < 0.04:
                args = args[:-1] if args else [("int", 1)]
            return ("call", ("sym", f), args)
        return None

    def dot(self, ty, depth, env):
        r = self.rng
        d = depth - 1
        # select a field of a tuple variable / literal or index a list
        tv = [(n, t) for n, t in env.items() if isinstance(t, tuple) and t[0] == "tuple" and any(ft == ty for _, ft in t[1])]
        if tv and r.random() < 0.6:
            n, t = r.choice(tv)
            k = r.choice([k for k, ft in t[1] if ft == ty])
            self.count("dot:field")
            key = ("sym", k) if is_bareword(k) and k not in KEYWORDS else ("str", k)
            return ("bin", "DOT", ("sym", n), key)
        lv = [n for n, t in env.items() if t == ("list", ty)]
        if lv and r.random() < 0.7:
            self.count("dot:index")
            return ("bin", "DOT", ("sym", r.choice(lv)), ("int", 0 if r.random() < 0.8 else r.randint(0, 2)))
        if r.random() < 0.5:
            self.count("dot:literal")
            k = r.choice(["a", "b", "val"])
            tup = ("tuple", [(k, self.expr(ty, d, env)), ("other", self.lit("int"))])
            return ("bin", "DOT", tup, ("sym", k))
        self.count("dot:listlit")
        n = r.randint(1, 3)
        lst = ("list", [self.expr(ty, d, env) for _ in range(n)])
        return ("bin", "DOT", lst, ("int", r.randint(0, n - 1) if r.random() < 0.95 else n))

    def reduce(self, ty, depth, env):
        r = self.rng
        d = depth - 1
        self.count("reduce")
        et = self.rand_type(0)
        a, x = self.new_name(env), None
        env2 = dict(env)
        env2[a] = ty
        x = self.new_name(env2)
        env2[x] = et
        body = self.expr(ty, min(d, 2), env2)
        src = r.random()
        if src < 0.7:
            return ("reduce", ("func", [a, x], body), self.expr(ty, d, env), self.closed(self.expr(("list", et), d, env)))
        if src < 0.85:
            env3 = dict(env)
            env3[a] = ty
            k = self.new_name(env3)
            env3[k] = "str"
            v = self.new_name(env3)
            env3[v] = et
            tt = ("tuple", (("f1", et), ("f2", et)))
            return ("reduce", ("func", [a, k, v], self.expr(ty, min(d, 2), env3)), self.expr(ty, d, env),
                    self.closed(self.expr(tt, d, env)))
        env2[x] = "str"
        return ("reduce", ("func", [a, x], self.expr(ty, min(d, 2), env2)), self.expr(ty, d, env),
                self.closed(self.expr("str", d, env)))

    def in_expr(self, d, env):
        r = self.rng
        self.count("in")
        k = r.random()
        if k < 0.35:
            tt = ("tuple", (("a", "int"), ("name", "str")))
            left = r.choice([("sym", "a"), ("sym", "zz"), ("str", "name"), ("str", "nope")])
            return self.bin("IN", left, self.expr(tt, d, env))
        if k < 0.7:
            et = self.rand_type(0)
            return self.bin("IN", self.expr(et, d, env), self.expr(("list", et), d, env))
        return self.bin("IN", self.expr("str", d, env), self.expr("str", d, env))

    def format(self, d, env):
        r = self.rng
        if r.random() < 0.6:
            self.count("format:list")
            n = r.randint(1, 3)
            parts, args = [], []
            for i in range(n):
                if r.random() < 0.7:
                    parts.append(("s", r.choice(["a", " ", "x=", "@", "\\", "é ", ":"])))
                parts.append(("hole",))
                args.append(self.expr(r.choice(["int", "str", "bool", ("list", "int"), ("tuple", (("a", "int"),))]), min(d, 2), env))
            if r.random() < 0.6:
                parts.append(("s", r.choice(["end", "!", " @ ", ""])))
            if r.random() < 0.03 and len(args) > 1:
                args = args[:-1]
            return ("fmtl", parts, args)
        self.count("format:single")
        at = r.choice(["int", "str", ("tuple", (("a", "int"), ("name", "str")))])
        arg = self.expr(at, min(d, 2), env)
        parts = []
        for i in range(r.randint(1, 3)):
            if r.random() < 0.7:
                parts.append(("s", r.choice(["v=", " ", "é", "@", "<", ">"])))
            if isinstance(at, tuple):
                emb = r.choice([("bin", "DOT", ("sym", "item"), ("sym", "a")), ("bin", "DOT", ("sym", "item"), ("sym", "name")),
                                ("sym", "item")])
            elif at == "int":
                emb = r.choice([("sym", "item"), ("bin", "Add", ("sym", "item"), ("int", 1))])
            else:
                emb = ("sym", "item")
            parts.append(("e", emb))
        # the grammar takes everything to the right as the argument: keep it closed
        if arg[0] in ("bin", "not", "fail", "trace", "func", "fmtl", "fmts", "range", "module", "select", "int", "float"):
            arg = ("group", arg) if arg[0] not in ("int", "float") else arg
        if arg[0] == "group":
            # `"t" % (e)` is the list form with one item: avoid by binding through a tuple selector
            arg = ("bin", "DOT", ("tuple", [("w", arg[1])]), ("sym", "w"))
        return ("fmts", parts, arg)

    def copy(self, ty, d, env):
        r = self.rng
        self.count("copy")
        base_vars = [n for n, t in env.items() if t == ty]
        over = []
        for k, t in ty[1]:
            if r.random() < 0.5:
                if r.random() < 0.2 and self.allowed("self"):
                    self.count("self")
                    key = ("sym", k) if is_bareword(k) and k not in KEYWORDS else ("str", k)
                    over.append((k, ("bin", "DOT", ("sym", "self"), key)))
                else:
                    over.append((k, self.expr(t, d, env)))
        if base_vars:
            return ("copy", ("sym", r.choice(base_vars)), over)
        return ("tuple", [(k, self.expr(t, d, env)) for k, t in ty[1]])

    def module_inst(self, ty, depth, env):
        r = self.rng
        mods = [n for n, t in env.items() if isinstance(t, tuple) and t[0] == "module" and t[2] == ty]
        if not mods:
            return None
        m = r.choice(mods)
        mt = env[m]
        self.count("module:inst")
        over = [(k, self.expr(t, depth - 1, env)) for k, t in mt[1] if r.random() < 0.6]
        return ("copy", ("sym", m), over)

    def bad(self, ty, depth, env):
        """deliberately ill-typed or failing sub-terms"""
        r = self.rng
        d = depth - 1
        self.count("bad")
        k = r.random()
        if k < 0.2:
            return self.bin(r.choice(["Add", "Sub", "Mul", "GT", "Equal"]), self.lit("int"), self.lit("str"))
        if k < 0.3:
            return ("sym", "undefined_name")
        if k < 0.4:
            return self.bin("Div", self.expr("int", d, env), ("int", 0))
        if k < 0.5 and self.allowed("fail"):
            return ("group", ("fail", ("str", "boom")))
        if k < 0.6:
            return ("bin", "DOT", ("tuple", [("a", self.lit("int"))]), ("sym", "missing"))
        if k < 0.7:
            return self.bin("Add", ("int", 9223372036854775807), self.expr("int", d, env))
        if k < 0.8:
            return ("select", ("str", "nokey"), None, [("a", self.lit("int"))])
        if k < 0.9:
            return ("not", self.lit("int"))
        return ("call", ("sym", "undefined_fn"), [self.lit("int")])

    # --- statements ---
    def program(self, nstmts):
        env = {}
        prog = []
        r = self.rng
        for i in range(nstmts):
            k = r.random()
            name = self.new_name(env)
            if k < 0.12 and self.allowed("func"):
                nparams = r.randint(0, 3)
                pts = [self.rand_type(0) for _ in range(nparams)]
                ret = self.rand_type(1)
                ft = ("func", nparams, ret, tuple(pts))
                prog.append(("let", name, self.typed(ft, self.max_depth - 1, env)))
                env[name] = ft
                continue
            if k < 0.18 and self.allowed("module"):
                st, mt = self.module_def(name, env)
                prog.append(st)
                env[name] = mt
                continue
            if k < 0.22:
                prog.append(("expr", self.expr(self.rand_type(1), self.max_depth - 2, env)))
                continue
            if k < 0.24 and env:
                # rebinding an existing name is an error
                old = r.choice(list(env))
                prog.append(("let", old, self.lit("int")))
                self.count("rebind")
                continue
            ty = self.rand_type(2)
            prog.append(("let", name, self.expr(ty, self.max_depth - 1, env)))
            env[name] = ty
        return prog

    def module_def(self, name, env):
        r = self.rng
        self.count("module:def")
        nparams = r.randint(0, 3)
        pnames = r.sample(["p", "q", "port", "host", "cnt"], nparams)
        params = [(k, self.rand_type(0)) for k in pnames]
        penv = {}
        menv = {"mod": ("tuple", tuple(params))}
        body = []
        for j in range(r.randint(0, 3)):
            bn = self.new_name(menv)
            bt = self.rand_type(1)
            body.append(("let", bn, self.expr(bt, 2, menv)))
            menv[bn] = bt
        ret = self.rand_type(1)
        if r.random() < 0.6:
            out = self.closed(self.expr(ret, 2, menv))
            mt = ("module", tuple(params), ret)
        else:
            out = None
            exported = tuple(sorted((k, t) for k, t in menv.items() if k != "mod"))
            mt = ("module", tuple(params), ("tuple", exported))
        e = ("module", [(k, self.leaf(t, env)) for k, t in params], out, body)
        # the module environment knows `mod`
        return ("let", name, e), mt


def gen_program(rng, nstmts, max_depth=6, p_bad=0.012, features=None):
    g = Gen(rng, max_depth, p_bad, features)
    return g.program(nstmts), g.counts
