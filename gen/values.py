"""Seeded generator of ucg values (ir::Val trees) and their encodings.

python representation:  ("e",) | ("b", bool) | ("i", int) | ("f", float) | ("s", str)
                        | ("l", [v..]) | ("t", [(key, v)..]) | ("c",)
"""
import math
import struct

STR_POOL = ["", "a", "true", "false", "null", "NULL", "~", "1", "1.5", "a: b", "- x", "# c", "x y", " lead", "trail ",
            "multi\nline", "tab\there", "q\"uote", "s'ingle", "back\\slash", "é", "日本語", "\u0001ctl", "\u007f",
            "{brace}", "[x]", "a,b", "k=v", "@at", "%p", "&anchor", "*alias", "!tag", "|", ">", "yes", "no", "on",
            "0x10", "1e3", ".5", "-", "--- doc", "...", "\U0001F600", "\r\n", "null ", "?", ": ", "'", "''", '""']
KEY_POOL = ["a", "b", "c", "key", "x-y", "with space", "true", "1", "é", "k.dot", "q\"k", "", "#h", "a: b", "- d", "~"]
INT_POOL = [0, 1, -1, 2, 42, -7, 255, 1 << 31, (1 << 53) - 1, 1 << 53, (1 << 53) + 1, -(1 << 53) - 1,
            (1 << 63) - 1, -(1 << 63), 9007199254740993, 1 << 62, 10 ** 16, 123456789012345678]
FLOAT_POOL = [0.0, 1.5, -0.25, 100.0, 0.1, 3.141592653589793, 1e-4, 123456.789, -2.5e10, 1e14, 2.0 ** 52,
              1e300, 5e-324, -0.0, 1e16, 1e21, 1.7976931348623157e308, float("inf"), float("-inf"), float("nan")]


class ValGen:
    def __init__(self, rng, keys=KEY_POOL, strs=STR_POOL, ints=INT_POOL, floats=FLOAT_POOL,
                 allow_null=True, allow_constraint=False):
        self.rng = rng
        self.keys, self.strs, self.ints, self.floats = keys, strs, ints, floats
        self.allow_null = allow_null
        self.allow_constraint = allow_constraint

    def rand_str(self):
        r = self.rng
        if r.random() < 0.6:
            return r.choice(self.strs)
        n = r.randint(0, 12)
        out = []
        for _ in range(n):
            k = r.random()
            if k < 0.6:
                out.append(chr(r.randint(32, 126)))
            elif k < 0.7:
                out.append(r.choice("\n\t\r"))
            elif k < 0.75:
                out.append(chr(r.randint(1, 31)))
            elif k < 0.9:
                out.append(chr(r.randint(0xA0, 0x2FF)))
            else:
                out.append(chr(r.choice([0x4E2D, 0x1F600, 0x2028, 0xFEFF, 0xFFFD, 0x10FFFF, 0x85])))
        return "".join(out)

    def scalar(self):
        r = self.rng
        k = r.random()
        if k < 0.08 and self.allow_null:
            return ("e",)
        if k < 0.2:
            return ("b", r.random() < 0.5)
        if k < 0.45:
            return ("i", r.choice(self.ints) if r.random() < 0.5 else r.randint(-1000, 1000))
        if k < 0.6:
            return ("f", r.choice(self.floats) if r.random() < 0.7 else round(r.uniform(-1000, 1000), r.randint(0, 6)))
        if k < 0.62 and self.allow_constraint:
            return ("c",)
        return ("s", self.rand_str())

    def value(self, depth):
        r = self.rng
        if depth <= 0 or r.random() < 0.3:
            return self.scalar()
        if r.random() < 0.5:
            n = r.choice([0, 1, 2, 3, 5])
            return ("l", [self.value(depth - 1) for _ in range(n)])
        return self.tuple(depth)

    def tuple(self, depth):
        r = self.rng
        n = r.choice([0, 1, 2, 3, 4])
        keys = []
        for _ in range(n):
            k = r.choice(self.keys) if r.random() < 0.7 else self.rand_str()
            if k not in keys:
                keys.append(k)
        return ("t", [(k, self.value(depth - 1)) for k in keys])


def size(v):
    if v[0] == "l":
        return 1 + sum(size(x) for x in v[1])
    if v[0] == "t":
        return 1 + sum(size(x) for _, x in v[1])
    return 1


def depth(v):
    if v[0] == "l":
        return 1 + max([depth(x) for x in v[1]] + [0])
    if v[0] == "t":
        return 1 + max([depth(x) for _, x in v[1]] + [0])
    return 0


def contains(v, pred):
    if pred(v):
        return True
    if v[0] == "l":
        return any(contains(x, pred) for x in v[1])
    if v[0] == "t":
        return any(contains(x, pred) for _, x in v[1])
    return False


def subvalues(v):
    yield v
    if v[0] == "l":
        for x in v[1]:
            yield from subvalues(x)
    if v[0] == "t":
        for _, x in v[1]:
            yield from subvalues(x)


def to_wire(v):
    """JSON encoding understood by the Rust harness (val_of_json)"""
    t = v[0]
    if t == "e":
        return None
    if t == "b":
        return v[1]
    if t == "i":
        return {"i": str(v[1])}
    if t == "f":
        return {"f": str(struct.unpack("<Q", struct.pack("<d", v[1]))[0])}
    if t == "s":
        return {"s": v[1]}
    if t == "l":
        return {"l": [to_wire(x) for x in v[1]]}
    if t == "t":
        return {"t": [[k, to_wire(x)] for k, x in v[1]]}
    if t == "c":
        return {"c": None}
    raise ValueError(v)


def from_wire(j):
    if j is None:
        return ("e",)
    if isinstance(j, bool):
        return ("b", j)
    if "i" in j:
        return ("i", int(j["i"]))
    if "f" in j:
        return ("f", struct.unpack("<d", struct.pack("<Q", int(j["f"])))[0])
    if "s" in j:
        return ("s", j["s"])
    if "l" in j:
        return ("l", [from_wire(x) for x in j["l"]])
    if "t" in j:
        return ("t", [(k, from_wire(x)) for k, x in j["t"]])
    if "c" in j:
        return ("c",)
    raise ValueError(j)


def hexs(s):
    return "x" + s.encode("utf-8").hex()


def float_text_plain(x):
    """decimal text on which Python repr, Rust Display and serde_json agree (positional range), else None"""
    if math.isnan(x) or math.isinf(x):
        return None
    if x == 0:
        return "-0.0" if math.copysign(1, x) < 0 else "0.0"
    if 1e-4 <= abs(x) < 1e15:
        t = repr(x)
        if "e" in t:
            return None
        return t
    return None


def to_sexp(v, float_text=float_text_plain):
    t = v[0]
    if t == "e":
        return "(e)"
    if t == "b":
        return "(b %d)" % (1 if v[1] else 0)
    if t == "i":
        return "(i %d)" % v[1]
    if t == "f":
        x = v[1]
        if math.isnan(x):
            return "(f nan)"
        if math.isinf(x):
            return "(f inf)" if x > 0 else "(f ninf)"
        txt = float_text(x)
        return "(f %s)" % hexs(txt if txt is not None else "UNSUPPORTED")
    if t == "s":
        return "(s %s)" % hexs(v[1])
    if t == "l":
        return "(l" + "".join(" " + to_sexp(x, float_text) for x in v[1]) + ")"
    if t == "t":
        return "(t" + "".join(" (%s %s)" % (hexs(k), to_sexp(x, float_text)) for k, x in v[1]) + ")"
    if t == "c":
        return "(c)"
    raise ValueError(v)


def ucg_str(s):
    return '"' + s.replace("\\", "\\\\").replace('"', '\\"') + '"'


def to_ucg(v):
    """ucg source text of a literal value (constraint values cannot be written inline)"""
    t = v[0]
    if t == "e":
        return "NULL"
    if t == "b":
        return "true" if v[1] else "false"
    if t == "i":
        if v[1] < 0:
            return "(0 - %d)" % (-v[1]) if v[1] != -(1 << 63) else "(0 - 9223372036854775807 - 1)"
        return str(v[1])
    if t == "f":
        raise ValueError("float literals are written by the caller")
    if t == "s":
        return ucg_str(v[1])
    if t == "l":
        return "[" + ", ".join(to_ucg(x) for x in v[1]) + "]"
    if t == "t":
        return "{" + ", ".join("%s = %s" % (ucg_str(k), to_ucg(x)) for k, x in v[1]) + "}"
    raise ValueError(v)


def canon_py(v):
    """the data a decoder should return: dict / list / str / bool / None / int / float"""
    t = v[0]
    if t == "e":
        return None
    if t in ("b", "i", "f", "s"):
        return v[1]
    if t == "l":
        return [canon_py(x) for x in v[1]]
    if t == "t":
        d = {}
        for k, x in v[1]:
            if k not in d:
                d[k] = canon_py(x)
        return d
    raise ValueError(v)


def same_data(a, b):
    """same nesting, list order, key set, identical strings/bools/nulls, numerically equal numbers"""
    from fractions import Fraction
    if isinstance(a, bool) or isinstance(b, bool):
        return isinstance(a, bool) and isinstance(b, bool) and a == b
    if a is None or b is None:
        return a is None and b is None
    if isinstance(a, (int, float)) and isinstance(b, (int, float)):
        fa = isinstance(a, float) and (math.isnan(a) or math.isinf(a))
        fb = isinstance(b, float) and (math.isnan(b) or math.isinf(b))
        if fa or fb:
            if not (fa and fb):
                return False
            return (math.isnan(a) and math.isnan(b)) or a == b
        return Fraction(a) == Fraction(b)
    if isinstance(a, str) and isinstance(b, str):
        return a == b
    if isinstance(a, list) and isinstance(b, list):
        return len(a) == len(b) and all(same_data(x, y) for x, y in zip(a, b))
    if isinstance(a, dict) and isinstance(b, dict):
        return set(a) == set(b) and all(same_data(a[k], b[k]) for k in a)
    return False
