"""Independent decoders used as oracles: python json, tomllib, and PyYAML configured for the
YAML 1.2 core schema (serde_yaml emits 1.2; PyYAML's default resolver is 1.1)."""
import json
import re
import tomllib

import yaml


class Core12Loader(yaml.SafeLoader):
    pass


Core12Loader.yaml_implicit_resolvers = {}
Core12Loader.add_implicit_resolver("tag:yaml.org,2002:null", re.compile(r"^(?:~|null|Null|NULL|)$"), ["~", "n", "N", ""])
Core12Loader.add_implicit_resolver("tag:yaml.org,2002:bool", re.compile(r"^(?:true|True|TRUE|false|False|FALSE)$"), list("tTfF"))
Core12Loader.add_implicit_resolver("tag:yaml.org,2002:int", re.compile(r"^(?:[-+]?[0-9]+|0o[0-7]+|0x[0-9a-fA-F]+)$"), list("-+0123456789"))
Core12Loader.add_implicit_resolver(
    "tag:yaml.org,2002:float",
    re.compile(r"^(?:[-+]?(?:\.[0-9]+|[0-9]+(?:\.[0-9]*)?)(?:[eE][-+]?[0-9]+)?|[-+]?\.(?:inf|Inf|INF)|\.(?:nan|NaN|NAN))$"),
    list("-+0123456789."))


def _int12(loader, node):
    s = loader.construct_scalar(node)
    if s.startswith("0o"):
        return int(s[2:], 8)
    if s.startswith("0x"):
        return int(s[2:], 16)
    return int(s)


def _float12(loader, node):
    s = loader.construct_scalar(node).lower()
    if s.lstrip("+-") == ".inf":
        return float("-inf") if s.startswith("-") else float("inf")
    if s == ".nan":
        return float("nan")
    return float(s)


Core12Loader.add_constructor("tag:yaml.org,2002:int", _int12)
Core12Loader.add_constructor("tag:yaml.org,2002:float", _float12)


def yaml_load(text):
    return yaml.load(text, Loader=Core12Loader)


def yaml_load_all(text):
    return list(yaml.load_all(text, Loader=Core12Loader))


def json_load(text):
    def bad(c):
        raise ValueError("non-standard JSON constant " + c)
    return json.loads(text, parse_constant=bad)


def toml_load(text):
    return tomllib.loads(text)
