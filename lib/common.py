"""Shared machinery for the per-property checks (see DESIGN.md section 3)."""
import fcntl
import hashlib
import json
import os
import random
import re
import subprocess
import sys
import time

VERIF = os.path.dirname(os.path.dirname(os.path.abspath(__file__)))
REPO = os.environ.get("UCG_REPO", "/repo")
CACHE = os.path.join(VERIF, ".cache")
COQ = os.path.join(VERIF, "coq")
GEN = os.path.join(COQ, "gen")
TARGET = os.path.join(CACHE, "target")
HARNESS = os.path.join(TARGET, "debug", "ucg-harness")
UCG_BIN = os.path.join(TARGET, "debug", "ucg")
MODEL_RUNNER = os.path.join(CACHE, "ocaml", "model_runner")
NPROC = os.cpu_count() or 4

ENV = dict(os.environ)
ENV.update({"CARGO_NET_OFFLINE": "true", "RUST_BACKTRACE": "0", "CARGO_TARGET_DIR": TARGET,
            # dev profile (overflow checks and debug assertions stay on) but optimised enough that
            # thousands of process start-ups (each translates the embedded std library) stay cheap
            "CARGO_PROFILE_DEV_OPT_LEVEL": "2", "CARGO_PROFILE_DEV_DEBUG": "false"})


def log(*a):
    print(*a, file=sys.stderr, flush=True)


class Lock:
    """Cross-process lock so that concurrently started checks do not race in make/cargo."""

    def __init__(self, name):
        os.makedirs(CACHE, exist_ok=True)
        self.path = os.path.join(CACHE, name + ".lock")

    def __enter__(self):
        self.f = open(self.path, "w")
        fcntl.flock(self.f, fcntl.LOCK_EX)
        return self

    def __exit__(self, *a):
        fcntl.flock(self.f, fcntl.LOCK_UN)
        self.f.close()


def sh(cmd, timeout=600, cwd=None, env=None, input=None):
    """Run a command; returns (rc, stdout, stderr). rc=124 on timeout."""
    try:
        p = subprocess.run(cmd, shell=isinstance(cmd, str), cwd=cwd, env=env or ENV,
                           input=input, capture_output=True, timeout=timeout)
        return p.returncode, p.stdout.decode("utf-8", "replace"), p.stderr.decode("utf-8", "replace")
    except subprocess.TimeoutExpired as e:
        return 124, (e.stdout or b"").decode("utf-8", "replace"), "TIMEOUT"


def write_if_changed(path, content):
    os.makedirs(os.path.dirname(path), exist_ok=True)
    try:
        if open(path).read() == content:
            return False
    except FileNotFoundError:
        pass
    with open(path, "w") as f:
        f.write(content)
    return True


# --------------------------------------------------------------------------
# Coq

FORBIDDEN = re.compile(
    r"\b(Admitted|admit|Axiom|Axioms|Parameter|Parameters|Conjecture|Hypothesis|Hypotheses|"
    r"Admit Obligations|Unset Guard Checking|Unset Positivity Checking|Unset Universe Checking|"
    r"bypass_check|native_compute|type-in-type|impredicative-set)\b")

ALLOWED_IN_SECTIONS = re.compile(r"\b(Variable|Variables|Hypothesis|Hypotheses|Context)\b")


def coq_sources():
    out = []
    for root, _, files in os.walk(os.path.join(COQ, "theories")):
        for f in files:
            if f.endswith(".v"):
                out.append(os.path.join(root, f))
    for root, _, files in os.walk(GEN):
        for f in files:
            if f.endswith(".v"):
                out.append(os.path.join(root, f))
    return sorted(out)


def strip_comments(src):
    out = []
    depth = 0
    i = 0
    instr = False
    while i < len(src):
        if not instr and src.startswith("(*", i):
            depth += 1
            i += 2
            continue
        if not instr and depth and src.startswith("*)", i):
            depth -= 1
            i += 2
            continue
        c = src[i]
        if depth == 0:
            if c == '"':
                instr = not instr
            out.append(c)
        i += 1
    return "".join(out)


def coq_audit_sources():
    """Grep every .v of the development for forbidden commands.
    Hypothesis/Variable are allowed only inside a Section."""
    problems = []
    for path in coq_sources():
        src = strip_comments(open(path).read())
        # remove string literals
        src_ns = re.sub(r'"[^"]*"', '""', src)
        depth = 0
        for ln, line in enumerate(src_ns.split("\n"), 1):
            if re.match(r"\s*Section\b", line):
                depth += 1
            if re.match(r"\s*End\b", line) and depth:
                depth -= 1
            for m in FORBIDDEN.finditer(line):
                w = m.group(1)
                if w in ("Hypothesis", "Hypotheses") and depth > 0:
                    continue
                problems.append("%s:%d: %s" % (os.path.relpath(path, VERIF), ln, w))
            if depth == 0 and re.match(r"\s*(Variable|Variables|Context)\b", line):
                problems.append("%s:%d: Variable outside section" % (os.path.relpath(path, VERIF), ln))
    return problems


def coq_makefile():
    files = [os.path.relpath(p, COQ) for p in coq_sources()]
    listing = "\n".join(files) + "\n"
    changed = write_if_changed(os.path.join(CACHE, "coq_files.txt"), listing)
    mk = os.path.join(COQ, "Makefile.coq")
    if changed or not os.path.exists(mk):
        rc, out, err = sh(["coq_makefile", "-f", "_CoqProject", "-o", "Makefile.coq"] + files, cwd=COQ)
        if rc != 0:
            raise RuntimeError("coq_makefile failed: " + err)


def coq_make(targets, timeout=1500):
    """Full .vo build of the given targets (paths relative to coq/).  Returns (ok, log)."""
    with Lock("coq"):
        coq_makefile()
        cmd = ["make", "-f", "Makefile.coq", "-j", str(NPROC)] + targets
        rc, out, err = sh(cmd, cwd=COQ, timeout=timeout)
        return rc == 0, out + err


def coq_eval(name, body, timeout=600):
    """Compile a throw-away .v (Require lines + commands) and return (ok, output)."""
    d = os.path.join(CACHE, "coqtmp")
    os.makedirs(d, exist_ok=True)
    path = os.path.join(d, name + ".v")
    with open(path, "w") as f:
        f.write(body)
    rc, out, err = sh(["coqc", "-noglob", "-Q", os.path.join(COQ, "theories"), "Ucg", "-Q", GEN, "UcgGen",
                       "-w", "-notation-overridden,-deprecated-hint-without-locality,-deprecated-syntactic-definition",
                       path], cwd=d, timeout=timeout)
    return rc == 0, out + err


STD_AXIOMS_OK = {
    # named in DESIGN section 6; only expected for the Flocq runner instantiation
    "ClassicalDedekindReals.sig_not_dec", "ClassicalDedekindReals.sig_forall_dec",
    "FunctionalExtensionality.functional_extensionality_dep", "Classical_Prop.classic",
}


def print_assumptions(module, theorems, allowed=()):
    """Run Print Assumptions for every theorem; returns (all_ok, {thm: 'closed' | [axioms]})."""
    body = "From Ucg Require Import %s.\n" % module
    for t in theorems:
        body += 'Goal True. idtac "@@%s". Abort.\nPrint Assumptions %s.\n' % (t, t)
    ok, out = coq_eval("assum_" + module.replace(".", "_"), body)
    res = {}
    if not ok:
        return False, {"error": out[-2000:]}
    cur = None
    for line in out.split("\n"):
        line = line.strip()
        if line.startswith("@@"):
            cur = line[2:]
            res[cur] = None
        elif cur is not None:
            if line.startswith("Closed under the global context"):
                res[cur] = "closed"
            elif line.startswith("Axioms:"):
                res[cur] = []
            elif isinstance(res.get(cur), list) and line and ":" in line and not line.startswith("Warning"):
                res[cur].append(line.split(":")[0].strip())
    allok = True
    for t in theorems:
        r = res.get(t)
        if r == "closed":
            continue
        if isinstance(r, list) and all(a in allowed for a in r) and r:
            continue
        allok = False
    return allok, res


# --------------------------------------------------------------------------
# Rust side

def cargo_build(timeout=1500):
    """Build the harness (links ucglib from /repo's working tree) and /repo's ucg binary."""
    with Lock("cargo"):
        hdir = os.path.join(VERIF, "harness")
        # keep the lock file in sync with /repo's (offline resolution)
        try:
            src = open(os.path.join(REPO, "Cargo.lock")).read()
            write_if_changed(os.path.join(hdir, "Cargo.lock"), src)
        except OSError:
            pass
        rc, out, err = sh(["cargo", "build", "--offline", "-q", "--bin", "ucg-harness"], cwd=hdir, timeout=timeout)
        if rc != 0:
            # retry once letting cargo regenerate the lock file
            try:
                os.remove(os.path.join(hdir, "Cargo.lock"))
            except OSError:
                pass
            rc, out, err = sh(["cargo", "build", "--offline", "-q", "--bin", "ucg-harness"], cwd=hdir, timeout=timeout)
            if rc != 0:
                return False, out + err
        # the positioned-AST probe (C17) uses more of ucglib's internals; when a change in /repo stops it from building, only the
        # correspondence that needs it is reported broken - the checks themselves still run
        for pb in ("posprobe", "pvmprobe"):
            probe = os.path.join(TARGET, "debug", pb)
            rc, out, err = sh(["cargo", "build", "--offline", "-q", "--bin", pb], cwd=hdir, timeout=timeout)
            note = os.path.join(CACHE, pb + ".err")
            if rc != 0:
                try:
                    os.remove(probe)
                except OSError:
                    pass
                with open(note, "w") as f:
                    f.write((out + err)[-3000:])
            elif os.path.exists(note):
                os.remove(note)
        rc, out, err = sh(["cargo", "build", "--offline", "-q", "--bin", "ucg",
                           "--manifest-path", os.path.join(REPO, "Cargo.toml")], timeout=timeout)
        if rc != 0:
            return False, out + err
        return True, ""


def _limit_child():
    """a runaway case must die quickly instead of eating the machine"""
    import resource
    try:
        resource.setrlimit(resource.RLIMIT_AS, (6 << 30, 6 << 30))
    except (ValueError, OSError):
        pass
    try:
        # extracted code recurses deeply (structural recursion on lists, Flocq on some floats)
        soft, hard = resource.getrlimit(resource.RLIMIT_STACK)
        want = 1 << 30
        resource.setrlimit(resource.RLIMIT_STACK, (want if hard == resource.RLIM_INFINITY or hard >= want else hard, hard))
    except (ValueError, OSError):
        pass


def run_lines(binary_args, lines, shards=None, timeout=900, single_timeout=20):
    """Feed lines to `binary_args` over stdin in parallel shards; returns output lines in order."""
    if not lines:
        return []
    shards = shards or min(NPROC, max(1, len(lines) // 4))
    n = len(lines)
    per = (n + shards - 1) // shards
    procs = []
    for s in range(shards):
        chunk = lines[s * per:(s + 1) * per]
        if not chunk:
            continue
        p = subprocess.Popen(binary_args, stdin=subprocess.PIPE, stdout=subprocess.PIPE,
                             stderr=subprocess.DEVNULL, env=ENV, preexec_fn=_limit_child)
        procs.append((p, chunk))
    # write and read with threads to avoid pipe deadlocks
    import threading
    results = [None] * len(procs)

    def batch(p, chunk, tmo, stall=60):
        """-> complete output lines of one process fed with chunk (fewer than len(chunk) if it crashed, ran out of time, or
        printed nothing for `stall` seconds: the line it is stuck on is then run alone under single_timeout)"""
        import select
        import time
        data = ("\n".join(chunk) + "\n").encode("utf-8")

        def feed():
            try:
                p.stdin.write(data)
                p.stdin.close()
            except (BrokenPipeError, OSError, ValueError):
                pass
        wt = threading.Thread(target=feed)
        wt.start()
        fd = p.stdout.fileno()
        buf = b""
        start = last = time.time()
        while True:
            r, _, _ = select.select([fd], [], [], 1.0)
            now = time.time()
            if r:
                part = os.read(fd, 1 << 16)
                if not part:
                    if os.environ.get("VERIF_DEBUG_STALL") and buf.count(b"\n") < len(chunk):
                        open(os.environ["VERIF_DEBUG_STALL"], "a").write("##EOF lines=%d of %d rc=%r\n" % (buf.count(b"\n"), len(chunk), p.poll()))
                    break
                buf += part
                last = now
            elif now - last > stall or now - start > tmo:
                if os.environ.get("VERIF_DEBUG_STALL"):
                    open(os.environ["VERIF_DEBUG_STALL"], "a").write("##LEAVE stall=%s total=%s lines=%d of %d\n" % (now - last > stall, now - start > tmo, buf.count(b"\n"), len(chunk)))
                break
        try:
            p.kill()
        except OSError:
            pass
        try:
            p.wait(timeout=10)
        except Exception:
            pass
        wt.join(timeout=10)
        text = buf.decode("utf-8", "replace")
        lines = text.split("\n")
        if not text.endswith("\n"):
            lines = lines[:-1]            # a line cut short by the crash
        return [r for r in lines if r != ""][:len(chunk)]

    def single(c):
        try:
            pp = subprocess.run(binary_args, input=(c + "\n").encode("utf-8"), capture_output=True,
                                timeout=single_timeout, env=ENV, preexec_fn=_limit_child)
            rc, o = pp.returncode, pp.stdout.decode("utf-8", "replace").strip()
        except subprocess.TimeoutExpired:
            rc, o = 124, ""
        return o if o and rc == 0 and "\n" not in o else json.dumps({"crash": rc})

    def work(i, p, chunk):
        res = batch(p, chunk, timeout)
        pending = chunk[len(res):]
        while pending:
            # the process itself crashed (abort / stack overflow) or ran out of time at the first line without output: run that
            # line alone, then go on with the rest as a new batch (every line is still answered by the same binary)
            if os.environ.get("VERIF_DEBUG_STALL"):
                open(os.environ["VERIF_DEBUG_STALL"], "a").write(pending[0][:2000] + "\n")
            res.append(single(pending[0]))
            pending = pending[1:]
            if pending:
                p2 = subprocess.Popen(binary_args, stdin=subprocess.PIPE, stdout=subprocess.PIPE,
                                      stderr=subprocess.DEVNULL, env=ENV, preexec_fn=_limit_child)
                got = batch(p2, pending, max(single_timeout, min(timeout, 30 + len(pending))))
                res.extend(got)
                pending = pending[len(got):]
        results[i] = res

    ths = [threading.Thread(target=work, args=(i, p, c)) for i, (p, c) in enumerate(procs)]
    for t in ths:
        t.start()
    for t in ths:
        t.join()
    out = []
    for res in results:
        out.extend(res)
    return out


def harness(mode, cases, **kw):
    """cases: python values -> list of python values (one per case)."""
    lines = [json.dumps(c) for c in cases]
    return [json.loads(l) for l in run_lines([HARNESS, mode], lines, **kw)]


def model(mode, lines, **kw):
    return run_lines([MODEL_RUNNER, mode], lines, **kw)


def hexs(s):
    if isinstance(s, str):
        s = s.encode("utf-8")
    return "x" + s.hex()


def unhex(a):
    assert a.startswith("x"), a
    return bytes.fromhex(a[1:])


# --------------------------------------------------------------------------
# OCaml model runner (extraction)

def build_model_runner(timeout=900):
    """Extract the executable models and link them with the hand-written driver."""
    with Lock("ocaml"):
        d = os.path.join(CACHE, "ocaml")
        os.makedirs(d, exist_ok=True)
        hand = sorted(f for f in os.listdir(os.path.join(VERIF, "ocaml")) if f.endswith(".ml"))
        srcs = [os.path.join(COQ, "extract", "Extract.v")] + [os.path.join(VERIF, "ocaml", f) for f in hand]
        h = hashlib.sha256()
        for p in coq_sources() + srcs:
            if "/props/" in p:
                continue
            h.update(open(p, "rb").read())
        stamp = os.path.join(d, "stamp")
        if os.path.exists(MODEL_RUNNER) and os.path.exists(stamp) and open(stamp).read() == h.hexdigest():
            return True, "cached"
        # the .vo files Extract.v requires must be current
        deps = []
        esrc = strip_comments(open(os.path.join(COQ, "extract", "Extract.v")).read())
        for m in re.finditer(r"From\s+(Ucg|UcgGen)\s+Require\s+Import\s+(.*?)\.\s*(?:\n|$)", esrc, re.S):
            for mod in m.group(2).split():
                if m.group(1) == "Ucg":
                    deps.append("theories/" + mod.replace(".", "/") + ".vo")
                else:
                    deps.append("gen/" + mod + ".vo")
        okd, logd = coq_make(deps, timeout=timeout)
        if not okd:
            return False, logd
        rc, out, err = sh(["coqc", "-noglob", "-Q", os.path.join(COQ, "theories"), "Ucg", "-Q", GEN, "UcgGen",
                           os.path.join(COQ, "extract", "Extract.v")], cwd=d, timeout=timeout)
        if rc != 0:
            return False, out + err
        for f in hand:
            with open(os.path.join(d, f), "w") as g:
                g.write(open(os.path.join(VERIF, "ocaml", f)).read())
        extra = sorted(f for f in os.listdir(d) if re.match(r"model_[a-z0-9]+\.ml$", f))
        for f in ["model.mli"] + [e + "i" for e in extra]:
            try:
                os.remove(os.path.join(d, f))
            except OSError:
                pass
        mls = " ".join(["sexp.ml", "model.ml"] + extra + [f for f in hand if f.startswith("drv_")] + ["driver.ml"])
        rc, out, err = sh("ocamlfind ocamlopt -O2 -w -a -package str %s -o model_runner 2>&1 || "
                          "ocamlfind ocamlopt -w -a %s -o model_runner" % (mls, mls),
                          cwd=d, timeout=timeout)
        if rc != 0:
            return False, out + err
        open(stamp, "w").write(h.hexdigest())
        return True, ""


# --------------------------------------------------------------------------
# Evidence, known findings, verdicts

class Check:
    def __init__(self, pid, tier, seed, level):
        self.pid = pid
        self.tier = tier
        self.seed = seed
        self.level = level
        self.t0 = time.time()
        self.coverage = {}
        self.assumptions = []
        self.violations = []      # (replay_path, nofail)
        self.known_hits = []
        self.rng = random.Random(seed)
        self.known = [k for k in load_known() if k.get("property") == pid and k.get("status") == "known"]

    def is_known(self, finding_id):
        return any(k["id"] == finding_id for k in self.known)

    def known_finding(self, finding_id, what):
        if finding_id not in [h[0] for h in self.known_hits]:
            self.known_hits.append((finding_id, what))
            print("KNOWN-FINDING: property=%s %s: %s" % (self.pid, finding_id, what), flush=True)

    def violation(self, payload, nofail=False):
        os.makedirs(os.path.join(VERIF, "replay"), exist_ok=True)
        path = os.path.join(VERIF, "replay", "%s-%d-%d.json" % (self.pid, self.seed, len(self.violations)))
        payload = dict(payload)
        payload["property"] = self.pid
        payload["seed"] = self.seed
        with open(path, "w") as f:
            json.dump(payload, f, indent=1, ensure_ascii=False)
        self.violations.append((path, nofail))
        print("VIOLATION property=%s replay=%s%s" % (self.pid, path, " no-failing-input-found" if nofail else ""),
              flush=True)

    def finish(self):
        ev = {
            "property_id": self.pid, "tier": self.tier, "seed": self.seed, "level": self.level,
            "coverage": self.coverage, "assumptions": self.assumptions,
            "wall_s": round(time.time() - self.t0, 2), "violations": len(self.violations),
        }
        if self.known_hits:
            ev["coverage"]["known_findings_hit"] = [h[0] for h in self.known_hits]
        os.makedirs(os.path.join(VERIF, "evidence"), exist_ok=True)
        with open(os.path.join(VERIF, "evidence", self.pid + ".json"), "w") as f:
            json.dump(ev, f, indent=1, ensure_ascii=False)
        return 1 if self.violations else 0


def load_known():
    try:
        return json.load(open(os.path.join(VERIF, "KNOWN_FINDINGS.json")))["findings"]
    except (OSError, KeyError, ValueError):
        return []


TRUSTED_BASE_COMMON = [
    "Coq 8.16.1 kernel (coqc full .vo build; vm_compute used for finite obligations; no native_compute)",
    "no axioms declared; Print Assumptions parsed per theorem",
    "extraction: ExtrOcamlBasic + ExtrOcamlString (ascii->char, string->char list) directives only; OCaml 4.13 driver ocaml/driver.ml",
    "correspondence harness: /verif/harness (Rust, links /repo's ucglib) + python drivers",
]


def prove(check, module_vo, prop_module, theorems, allowed=()):
    """Common proof step: build, audit, Print Assumptions. Returns dict with status."""
    res = {"built": False, "audit": [], "assumptions": {}, "log_tail": ""}
    ok, logtxt = coq_make(module_vo)
    res["built"] = ok
    res["log_tail"] = logtxt[-3000:]
    res["audit"] = coq_audit_sources()
    if ok:
        aok, ass = print_assumptions(prop_module, theorems, allowed)
        res["assumptions"] = ass
        res["assumptions_ok"] = aok
    else:
        res["assumptions_ok"] = False
    res["ok"] = ok and not res["audit"] and res["assumptions_ok"]
    check.coverage["obligations"] = len(theorems)
    check.coverage["discharged"] = len([t for t in theorems if res["assumptions"].get(t) == "closed" or
                                        isinstance(res["assumptions"].get(t), list)]) if ok else 0
    check.coverage["checker_cmd"] = "make -f Makefile.coq " + " ".join(module_vo) + " ; Print Assumptions"
    check.coverage["print_assumptions"] = res["assumptions"]
    check.coverage["trusted_base"] = list(TRUSTED_BASE_COMMON)
    return res


def failed_file(logtxt):
    m = re.findall(r'File "([^"]+)", line (\d+)', logtxt)
    return m[-1] if m else None


# --------------------------------------------------------------------------
# running the ucg binary on many scratch projects

def scratch_root():
    d = os.path.join(CACHE, "scratch")
    os.makedirs(d, exist_ok=True)
    return d


def run_many(jobs, workers=None):
    """jobs: list of (argv, cwd, env_or_None). Returns list of (rc, stdout, stderr) in order."""
    from concurrent.futures import ThreadPoolExecutor

    def one(job):
        argv, cwd, env = job
        try:
            p = subprocess.run(argv, cwd=cwd, env=env if env is not None else ENV, capture_output=True, timeout=60)
            return p.returncode, p.stdout.decode("utf-8", "replace"), p.stderr.decode("utf-8", "replace")
        except subprocess.TimeoutExpired:
            return 124, "", "TIMEOUT"
    with ThreadPoolExecutor(max_workers=workers or NPROC) as ex:
        return list(ex.map(one, jobs))
