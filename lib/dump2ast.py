"""Converts the harness's AST dump (harness/src/dump.rs) into the python AST used by gen/programs.py and
into Coq `expr` terms.  Format templates are parsed here following src/build/format.rs."""
import json

import sx


def unq(tok):
    return json.loads(tok)


class Conv:
    def __init__(self, parse_expr_text):
        """parse_expr_text(text) -> dump string of the expression (used for @{...} parts)"""
        self.parse_expr_text = parse_expr_text
        self.dropped = []      # constructs the model AST does not carry (constraints)

    def fields(self, fl):
        out = []
        for f in fl:
            # (F "name" [ (C expr) ] expr)
            name = unq(f[1])
            if len(f) == 4:
                self.dropped.append("field constraint on " + name)
                out.append((name, self.expr(f[3])))
            else:
                out.append((name, self.expr(f[2])))
        return out

    def simple_template(self, t):
        parts, buf, esc = [], [], False
        for c in t:
            if c == "@" and not esc:
                parts.append(("s", "".join(buf)))
                buf = []
                parts.append(("hole",))
            elif c == "\\" and not esc:
                esc = True
                continue
            else:
                buf.append(c)
            esc = False
        if buf:
            parts.append(("s", "".join(buf)))
        return parts

    def expr_template(self, t):
        parts, buf, esc = [], [], False
        i = 0
        n = len(t)
        while i < n:
            c = t[i]
            i += 1
            if c == "@" and not esc:
                parts.append(("s", "".join(buf)))
                buf = []
                # consume_expr: brace counting, the outer braces are dropped
                res, depth = [], 0
                while i < n:
                    ch = t[i]
                    i += 1
                    if ch == "{":
                        depth += 1
                        if depth == 1:
                            continue
                    if ch == "}":
                        depth -= 1
                    if depth == 0:
                        break
                    res.append(ch)
                parts.append(("e", self.expr(sx.parse(self.parse_expr_text("".join(res))))))
            elif c == "\\" and not esc:
                esc = True
                continue
            else:
                buf.append(c)
            esc = False
        if buf:
            parts.append(("s", "".join(buf)))
        return parts

    def expr(self, d):
        if isinstance(d, str):
            raise ValueError("unexpected atom %r" % d)
        h = d[0]
        if h == "Empty":
            return ("null",)
        if h == "Bool":
            return ("bool", d[1] == "true")
        if h == "Int":
            return ("int", int(d[1]))
        if h == "Float":
            return ("float", float(d[1]))
        if h == "Str":
            return ("str", unq(d[1]))
        if h == "Sym":
            return ("sym", unq(d[1]))
        if h == "Tuple":
            return ("tuple", self.fields(d[1]))
        if h == "List":
            return ("list", [self.expr(x) for x in d[1]])
        if h == "Not":
            return ("not", self.expr(d[1]))
        if h == "Bin":
            return ("bin", d[1], self.expr(d[2]), self.expr(d[3]))
        if h == "Copy":
            return ("copy", self.expr(d[1]), self.fields(d[2]))
        if h == "Range":
            return ("range", self.expr(d[1]), None if d[2] == "_" else self.expr(d[2]), self.expr(d[3]))
        if h == "Group":
            return ("group", self.expr(d[1]))
        if h == "Format":
            t = unq(d[1])
            if d[2][0] == "L":
                return ("fmtl", self.simple_template(t), [self.expr(x) for x in d[2][1]])
            return ("fmts", self.expr_template(t), self.expr(d[2][1]))
        if h == "Include":
            return ("include", unq(d[1]), unq(d[2]))
        if h == "Import":
            return ("import", unq(d[1]))
        if h == "Call":
            return ("call", self.expr(d[1]), [self.expr(x) for x in d[2]])
        if h == "Cast":
            return ("cast", d[1], self.expr(d[2]))
        if h == "Func":
            params = []
            for p in d[1]:
                params.append(unq(p[0]))
                if len(p) > 1:
                    self.dropped.append("parameter constraint on " + unq(p[0]))
            return ("func", params, self.expr(d[2]))
        if h == "Select":
            return ("select", self.expr(d[1]), None if d[2] == "_" else self.expr(d[2]), self.fields(d[3]))
        if h == "Map":
            return ("map", self.expr(d[1]), self.expr(d[2]))
        if h == "Filter":
            return ("filter", self.expr(d[1]), self.expr(d[2]))
        if h == "Reduce":
            return ("reduce", self.expr(d[1]), self.expr(d[2]), self.expr(d[3]))
        if h == "Module":
            if d[3] != "_":
                self.dropped.append("module out constraint")
            return ("module", self.fields(d[1]), None if d[2] == "_" else self.expr(d[2]), [self.stmt(s) for s in d[4]])
        if h == "Fail":
            return ("fail", self.expr(d[1]))
        if h == "Trace":
            return ("trace", self.expr(d[1]))
        if h == "Convert":
            return ("convert", unq(d[1]), self.expr(d[2]))
        if h == "Constraint":
            raise ValueError("constraint expression")
        raise ValueError("unknown dump head %r" % h)

    def stmt(self, d):
        h = d[0]
        if h == "Expr":
            return ("expr", self.expr(d[1]))
        if h == "Let":
            if d[2] != "_":
                self.dropped.append("let constraint on " + unq(d[1]))
            return ("let", unq(d[1]), self.expr(d[3]))
        if h == "Assert":
            return ("assert", self.expr(d[1]))
        if h == "Out":
            return ("out", unq(d[1]), self.expr(d[2]))
        if h == "ConstraintDef":
            raise ValueError("constraint statement")
        raise ValueError("unknown statement %r" % h)

    def prog(self, dump):
        return [self.stmt(s) for s in sx.parse(dump)]


# ---------------------------------------------------------------------------
# Coq terms

def coq_bytes(s):
    bs = s.encode("utf-8")
    if all(32 <= c < 127 and c != 34 for c in bs):
        return '(b "%s")' % bs.decode()
    return "[" + "; ".join('"%03d"%%char' % c for c in bs) + "]" if bs else "[]"


def coq_fields(fs, f):
    return "[" + "; ".join("(%s, %s)" % (coq_bytes(k), f(v)) for k, v in fs) + "]"


def coq_opt(e):
    return "None" if e is None else "(Some %s)" % coq_expr(e)


def coq_expr(e):
    import struct
    t = e[0]
    if t == "null":
        return "ENull"
    if t == "bool":
        return "(EBool %s)" % ("true" if e[1] else "false")
    if t == "int":
        return "(EInt (%d)%%Z)" % e[1]
    if t == "float":
        return "(EFloat %d%%Z)" % struct.unpack("<Q", struct.pack("<d", e[1]))[0]
    if t == "str":
        return "(EStr %s)" % coq_bytes(e[1])
    if t == "sym":
        return "(ESym %s)" % coq_bytes(e[1])
    if t == "tuple":
        return "(ETuple %s)" % coq_fields(e[1], coq_expr)
    if t == "list":
        return "(EList [%s])" % "; ".join(coq_expr(x) for x in e[1])
    if t == "bin":
        return "(EBin %s %s %s)" % (e[1], coq_expr(e[2]), coq_expr(e[3]))
    if t == "not":
        return "(ENot %s)" % coq_expr(e[1])
    if t == "group":
        return "(EGroup %s)" % coq_expr(e[1])
    if t == "copy":
        return "(ECopy %s %s)" % (coq_expr(e[1]), coq_fields(e[2], coq_expr))
    if t == "range":
        return "(ERange %s %s %s)" % (coq_expr(e[1]), coq_opt(e[2]), coq_expr(e[3]))
    if t in ("fmtl", "fmts"):
        import programs as P
        parts = "[" + "; ".join("PStr %s" % coq_bytes(p[1]) if p[0] == "s" else ("PHole" if p[0] == "hole" else "PExpr %s" % coq_expr(p[1]))
                                for p in P.norm_parts(e[1])) + "]"
        if t == "fmtl":
            return "(EFormatL %s [%s])" % (parts, "; ".join(coq_expr(a) for a in e[2]))
        return "(EFormatS %s %s)" % (parts, coq_expr(e[2]))
    if t == "call":
        return "(ECall %s [%s])" % (coq_expr(e[1]), "; ".join(coq_expr(a) for a in e[2]))
    if t == "cast":
        return "(ECast %s %s)" % ({"int": "CInt", "float": "CFloat", "str": "CStr", "bool": "CBool"}[e[1]], coq_expr(e[2]))
    if t == "func":
        return "(EFunc [%s] %s)" % ("; ".join(coq_bytes(p) for p in e[1]), coq_expr(e[2]))
    if t == "select":
        return "(ESelect %s %s %s)" % (coq_expr(e[1]), coq_opt(e[2]), coq_fields(e[3], coq_expr))
    if t == "map":
        return "(EMap %s %s)" % (coq_expr(e[1]), coq_expr(e[2]))
    if t == "filter":
        return "(EFilter %s %s)" % (coq_expr(e[1]), coq_expr(e[2]))
    if t == "reduce":
        return "(EReduce %s %s %s)" % (coq_expr(e[1]), coq_expr(e[2]), coq_expr(e[3]))
    if t == "module":
        return "(EModule %s %s [%s])" % (coq_fields(e[1], coq_expr), coq_opt(e[2]), "; ".join(coq_stmt(s) for s in e[3]))
    if t == "fail":
        return "(EFail %s)" % coq_expr(e[1])
    if t == "trace":
        return "(ETrace %s)" % coq_expr(e[1])
    if t == "import":
        return "(EImport %s)" % coq_bytes(e[1])
    if t == "include":
        return "(EInclude %s %s)" % (coq_bytes(e[1]), coq_bytes(e[2]))
    if t == "convert":
        return "(EConvert %s %s)" % (coq_bytes(e[1]), coq_expr(e[2]))
    raise ValueError(e)


def coq_stmt(s):
    if s[0] == "let":
        return "SLet %s %s" % (coq_bytes(s[1]), coq_expr(s[2]))
    if s[0] == "expr":
        return "SExpr %s" % coq_expr(s[1])
    if s[0] == "assert":
        return "SAssert %s" % coq_expr(s[1])
    if s[0] == "out":
        return "SOut %s %s" % (coq_bytes(s[1]), coq_expr(s[2]))
    raise ValueError(s)
