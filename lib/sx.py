"""tiny s-expression helpers (python side)"""


def parse(s):
    pos = [0]
    n = len(s)

    def skip():
        while pos[0] < n and s[pos[0]] in " \t":
            pos[0] += 1

    def val():
        skip()
        if s[pos[0]] == "(":
            pos[0] += 1
            items = []
            while True:
                skip()
                if s[pos[0]] == ")":
                    pos[0] += 1
                    return items
                items.append(val())
        if s[pos[0]] == '"':
            st = pos[0]
            pos[0] += 1
            while s[pos[0]] != '"':
                if s[pos[0]] == "\\":
                    pos[0] += 1
                pos[0] += 1
            pos[0] += 1
            return s[st:pos[0]]
        st = pos[0]
        while pos[0] < n and s[pos[0]] not in " \t()":
            pos[0] += 1
        return s[st:pos[0]]
    return val()


def dump(x):
    if isinstance(x, list):
        return "(" + " ".join(dump(i) for i in x) + ")"
    return x
