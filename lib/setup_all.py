"""MANIFEST.setup_cmd: build everything from files on disk (offline)."""
import glob
import os

import common as C


def run_translators():
    import prec
    prec.generate(C.REPO, C.GEN, C.write_if_changed)
    for name in glob.glob(os.path.join(C.VERIF, "translate", "t_*.py")):
        mod = __import__(os.path.basename(name)[:-3])
        mod.generate(C.REPO, C.GEN, C.write_if_changed)
    # any generated table still missing falls back to its committed snapshot
    for snap in glob.glob(os.path.join(C.COQ, "snapshots", "*.v")):
        dst = os.path.join(C.GEN, os.path.basename(snap))
        if not os.path.exists(dst):
            C.write_if_changed(dst, open(snap).read())


def run():
    # the harness is needed by the translators that parse with the real parser (t_std)
    ok2, msg = C.cargo_build()
    if not ok2:
        print(msg[-3000:])
        return 1
    run_translators()
    vos = []
    for p in C.coq_sources():
        vos.append(os.path.relpath(p, C.COQ)[:-2] + ".vo")
    ok, log = C.coq_make(vos, timeout=3000)
    if not ok:
        print(log[-4000:])
        print("setup: Coq build failed (checks will report which obligation)")
    ok3, msg = C.build_model_runner()
    if not ok3:
        print(msg[-3000:])
    print("setup done: coq=%s cargo=%s runner=%s" % (ok, ok2, ok3))
    return 0
