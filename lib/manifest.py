#!/usr/bin/env python3
"""Regenerates MANIFEST.json from the table below (run by hand after adding a check)."""
import json
import os

HERE = os.path.dirname(os.path.dirname(os.path.abspath(__file__)))

CHECKS = {
 "C01": dict(category="proof",
   text="Coq proof of compile correctness: for every program of the fragment (arithmetic, comparison, short-circuit booleans, selectors, select with default, functions closing over their definition-time scope, copy with self, modules with parameters / out expressions / mod.this, map/filter/reduce over lists, tuples and strings, both format forms, ranges, casts, in/is, fail) if the definitional semantics (written from the reference) binds values then the compiled program run by the VM binds related values, and if the semantics fails the compiled program fails; the compiled code never reaches a Bug outcome (unreachable!/stack underflow/invalid jump). Proved by a code-in-context simulation with a logical relation for closures and modules, in six named milestones. Tied to the real code three ways on every generated program: the model translator's opcode sequence equals the real translator's (K1), the VM model's outcome equals the build's (K2), and the definitional semantics' bindings equal the build's (K3, the property itself)",
   note="import/include/convert/out/assert/regex, float text and float %% are outside the model (the semantics answers Unsup; counted, not compared); floats are Flocq binary64 in the runner only, theorems hold for any float interface; positions are dropped in the model",
   technique="Coq proof (simulation: big-step semantics vs translated code on a stack VM, fuel-indexed, logical relation for closures) + three-way correspondence"),
 "C02": dict(category="proof",
   text="Coq theorems about a model of the precedence climber (total; sound w.r.t. the table: right children strictly tighter, left children at least as tight; a chain has exactly one such tree; shape independent of operands) re-checked on every run against tables regenerated from src/ast/mod.rs and from the reference docs; the algorithm model is tied to the real parser by exhaustive comparison on all 111,150 chains of 1..4 operators plus seeded random chains up to 10 operators with parentheses and compound operands",
   note="trusts the Coq kernel, the T1 translator (differentially tested by the exhaustive sweep), extraction (ExtrOcamlBasic/ExtrOcamlString), and that operands are atoms (operator tokenisation is C11's)",
   technique="Coq proof (induction over the climber) + generated tables + exhaustive model/implementation correspondence"),
 "C03": dict(category="proof",
   text="JSON is proved end to end in Coq on a model of the converter: pretty printer (serde_json layout) followed by an independent RFC 8259 parser is the identity, the Val->JSON mapping is lossless (numbers compared as exact rationals) and errors exactly on unrepresentable values; the model's bytes are compared with the implementation's on seeded value trees. YAML, TOML and yamlmulti are partial: their third-party emitters are exercised through independent decoders (PyYAML with YAML 1.2 core resolvers, tomllib) on the same trees",
   note="floats are carried as decimal text (no float arithmetic in Coq); serde_yaml / toml-rs emitters are outside the model; two listed known findings (JSON ints beyond 2^53, toml-rs arrays of tables)",
   technique="Coq proof (JSON printer/parser round trip + mapping) + differential correspondence; independent decoders for YAML/TOML"),
 "C05": dict(category="proof",
   text="partial until the printer obligations are integrated (then: Coq model of the AST printer, byte-exact for comment-free programs, and of the comment scheduler: every string, field name, integer and finite float literal and every keyword/operator the printer writes re-tokenizes to the same token; every comment group of the comment map is emitted exactly once whatever the order of the printer's calls; comment text is a fixed point). The property as a whole is decided against the implementation: programs of the C01 generator plus a pool of literal forms, re-laid-out at token level three ways (no comments / comment lines of their own between statements / comments anywhere incl. glued to keywords; random blanks, line breaks, indentation, trailing commas, quoted field names, blank comments), and every .ucg file of the repository: the formatted text must parse to the same AST (positions and quoting ignored), hold the same comment texts in the same order (independent scanner; the generator's ground truth for generated inputs) and, where the property claims it, be a fixed point",
   note="the parser is not modelled, so 'same AST' is observed, not proved; comments are compared after trimming blanks at both ends",
   technique="Coq proof (printer tokens re-lex; comment scheduler emits each group once) + re-parse / comment / fixed-point correspondence on laid-out programs and repository files"),
 "C06": dict(category="proof",
   text="Coq model of Shape::narrow with its memo and symbol-table updates, of the checker's statement visitor and of the VM's constraint check; proved on the property's grammar and literal values that `let x :: c = v` builds iff v conforms to c (same_shape / in_range / equality written from the property text), that a named constraint and a let-bound exemplar are transparent, with refutations for the strict-NULL reading, mixed-type ranges and a clashing constraint name. Computed values and everything outside the literal grammar are decided against the implementation on seeded (constraint, value) pairs: exemplars nested to depth 3 with related values, int/float ranges with boundary values, alternations of 2..4 arms; each pair inline, behind a constraint name, behind a let-bound exemplar and with the value written as a computation (function call, selector, select, arithmetic); verdicts compared with each other, with the specification `conforms`, with the extracted model of checker + VM, and a sample through the ucg binary",
   note="NULL conforms to every exemplar (docs) but not to a range; recursive constraints and a constraint name as one arm of a larger alternation are outside the property's grammar; one listed known finding (exemplars are enforced statically only)",
   technique="Coq proof (narrowing on literal shapes; statement pipeline) + pair-wise correspondence of specification, model and build"),
 "C07": dict(category="proof",
   text="partial: Coq theorems that for programs of a first-order fragment (literals, bound names, casts, ranges, format, tuple/list literals, comparisons, not, arithmetic with a primitive operand, selection by name and index, calls and copies through tuple fields, select with default, filter/map over strings, tuples and candidate sets) whose evaluation under the definitional semantics succeeds, the model of the checker accepts the program, the derived shape is inhabited by the value and the symbol table is untouched; direct calls, reduce, map over lists and direct copies are not proved. The property as stated is decided against the implementation: programs of the C01 generator that evaluate to completion without the checker are given to the checker, which must accept them; comparisons of structurally different tuples and lists; one program per construct the property names (map/filter/reduce over tuples and strings, calls through tuple fields, nested selectors, select defaults, parameter shadowing, copies, modules), also built through the binary",
   note="'same values' is C01's subject; four listed known findings (list-shape narrowing pinned by the suite; right operand of && / ||; subset-merging of select arms; parameter narrowing by a branch a call does not run), each with a Coq witness and recognised by the extracted classifier known_c07",
   technique="Coq proof (soundness of shape derivation w.r.t. evaluation on a fragment) + evaluate-vs-check correspondence on generated programs"),
 "C08": dict(category="proof",
   text="Coq theorems over a model of the env/flags/exec converters and of POSIX word splitting and quote removal: for ALL byte strings a single-quoted value reads back as exactly one unaltered word and a double-quoted assignment value as the original string with nothing expanded; env yields every scalar field once and in order; flags and exec scripts read back as their specification. The escape chains are regenerated from src/convert/mod.rs on every run and proved (finite obligation over all 256 bytes) to compute the character-wise escapers the theorems use. Tied to the real converters byte-for-byte on all strings up to length 4 (quick) / 5 (thorough) over the quoting alphabet in six placements, and the outputs are read back by dash and bash",
   note="field, flag and variable names are assumed plain identifiers (the converters do not escape names); the shell model is validated against dash/bash on the same outputs; floats enter as their Display text",
   technique="Coq proof (induction over the string through a quote-state machine) + generated escape chains + exhaustive correspondence + real shells"),
 "C04": dict(category="exploration",
   text="partial: totality theorems exist only for the modelled stages (the precedence climber returns a tree for every chain, so the parser's panic! there is unreachable; definitional integer arithmetic and ranges never leave i64; the VM model reaches no Bug outcome on translator output, see C01). The property as a whole is decided by a crash stream: edge-case programs (all operators and ranges over i64 extremes, format/cast/arity mismatches), every shipped .ucg file and fuzz-corpus entry, token-level mutations of shipped and generated programs, random token/UTF-8/byte soup, each through tokenize, parse, type-check, translate, evaluate (+ every converter) and format, each stage under catch_unwind in child processes with time and memory limits",
   note="partial by nature: panics and stack exhaustion are runtime events inside unmodelled code (parser combinators, type checker, printer, third-party crates); one listed known finding (exponential parse time in nesting depth)",
   technique="Coq totality theorems for the modelled stages + crash-stream exploration of the real pipeline"),
 "C09": dict(category="proof",
   text="Coq theorems: the table of which fields of every Expression/Statement variant hold sub-expressions and which of them the AST walker descends into is regenerated from src/ast/mod.rs and src/ast/walk.rs on every run and proved complete (finite obligation), hence the path-rewriting walker visits every node of every AST (generic rose-tree theorem); path normalisation is idempotent, identifies exactly the spellings that denote the same file, and joining a relative import to the importing file's directory yields the file that path denotes from there. The import hook with its value cache, import stack and static cycle check is a Coq state machine (env/Import.v): building a file evaluates every file it reaches at most once, every importer sees the same value whatever the spelling and the moment, a cycle is reported as an error with nothing evaluated or written, builds terminate (fuel is never the outcome), acyclic projects build to the value the files denote; the machine is run (extracted) against the binary on every invocation of the C16 projects (status, evaluation sequence, artifacts). Tied to the real binary: one project per syntactic position of an import (incl. callbacks, fail message, module body/out expression/parameter default) and seeded project trees with DAGs and cycles, paths spelled with ./ ../ and redundant segments, each built from up to five working directories; totals, per-file evaluation counts (TRACE marker) and cycle diagnostics are checked",
   note="symlinks, case-insensitive file systems and cwd changes are outside the model; files are abstracted to their imports, out statements and failure",
   technique="Coq proof (generated walker table + rose-tree induction; path normalisation lemmas) + project-tree correspondence through the ucg binary"),
 "C10": dict(category="proof",
   text="Coq theorems on the definitional semantics: every existing binding keeps its value through any further statements (scope extension), a program is its prefix followed by the rest run in the prefix's scope (so prefix bindings are stable and a failing prefix fails the program), rebinding and binding a reserved word are errors, a function body's evaluation depends only on its closure and arguments; C01's compile-correctness theorems carry these to the compiled form. Tied to the implementation by running every statement-boundary prefix of generated programs, targeted scope scenarios (format `item`, parameter/outer name clashes, closures over later names, module bodies, callbacks) against the semantics, and every documented reserved word",
   note="stated on sem/Sem.v (a model written from the reference); the reserved-word list is read from the docs on every run",
   technique="Coq proof (induction over the statement list) + prefix-run and scenario correspondence"),
 "C11": dict(category="proof",
   text="Coq theorems about a byte-level model of the tokenizer whose recogniser table is regenerated from src/tokenizer/mod.rs on every run: the lexer is total; every byte string written as a literal comes back byte for byte and a literal's value is its body with exactly the documented escapes decoded; every token's line, column and offset are where it really starts and offsets increase; every multi-character operator wins whatever follows; all pairs of vocabulary tokens lex as two tokens glued iff no separator is needed; any two valid layouts (blanks, tabs, LF, CRLF, comments) of a token list lex to that list. Tied to the real tokenizer on all vocabulary pairs with 5 separators, triples, operators followed by every byte, random strings with every escape form, token sequences under two random layouts and every .ucg file - token type, text, line, column and offset must agree",
   note="positions are in bytes; special recognisers (strings, digits, barewords, comments, whitespace) are modelled by hand; non-UTF-8 input cannot reach the real tokenizer",
   technique="Coq proof (induction over the input with a position state; finite obligations by vm_compute over the generated table) + exhaustive/seeded correspondence"),
 "C15": dict(category="proof",
   text="JSON include is proved on the Coq model: an independent RFC 8259 parser followed by the mapping of src/convert/json.rs equals the specification (integers as integers iff the literal is integral and fits i64, otherwise floats; list order; keys), and what `out json` writes is read back as the tree written; base64 (standard and URL-safe) is proved against RFC 4648 with a strict independent decoder (round trip, alphabet, length, the variants differ only in characters 62/63). YAML and TOML includes are partial: their third-party decoders are compared with PyYAML (1.2 core) and tomllib. Tied to the implementation on documents written independently of ucg, through the importer registry and through `include` in built files; truncated/corrupted input and unknown include types must fail the build",
   note="serde_json/serde_yaml/toml/base64 crates are third party: JSON and base64 are re-modelled and compared byte/value-wise, YAML/TOML only compared with independent decoders; `-0` and integers outside i64 are outside the agreed subset",
   technique="Coq proof (JSON parser+mapping specification, base64 round trip) + differential correspondence with independent decoders"),
 "C18": dict(category="proof",
   text="Coq theorems on the definitional semantics: env.NAME is the variable's value as a string; an unset name is an error in strict mode and NULL otherwise; two environments that both lack NAME give the same outcome (nothing of the other variables enters); env cannot be bound by let nor as a parameter; a tuple field named env is that field. C01 carries these to the compiled form. Tied to the real process: random environments (0..20 variables, arbitrary Unicode values, a planted secret) handed to `ucg` exactly, reads of set and unset names in strict and --no-strict mode, stderr searched for values of unrelated variables, artifacts compared",
   note="how the OS passes the environment is outside the model; diagnostics are text of the implementation, checked by search not by theorem",
   technique="Coq proof (evaluation of the env selector) + process-level correspondence"),
 "C19": dict(category="proof",
   text="Coq theorems about the ASTs of std/*.ucg, regenerated by the real parser on every run (gen/StdLib.v), under the definitional semantics: for ALL argument values lists.len/reverse/head/tail/enumerate/str_join, tuples.fields/values/iter/strip_nulls and schema.base_type_of evaluate to their reference functions (length, rev, first element, rest, indexed pairs, separator-joined renderings, names, values, pairs, non-NULL fields, type name), reverse is an involution, head + tail is the list, and the library files load in every environment and mode; one refutation (enumerate computes the index after the last element, which may overflow). Every helper, including those outside the semantics (zip, slice, has_fields, strings.*, functional.maybe, schema.shaped/any/all, the ops wrappers), is called through import \"std/...\" in built files on seeded random inputs and compared with python reference definitions",
   note="helpers that use import/mod.pkg are outside the definitional semantics (imports answer Unsup) and are decided by the reference comparison only; len/head/tail need the length to fit an i64, strip_nulls needs no function-valued fields (equality of closures is Unsup in the semantics); one listed known finding (enumerate at the i64 edge)",
   technique="Coq proof (fold invariants over reduce, fuel monotonicity; terms regenerated from std/*.ucg by the real parser) + reference-function correspondence through the ucg binary"),
 "C16": dict(category="proof",
   text="Coq state machine of one invocation - one Environment with opcode cache, value cache, shape cache and out locks threaded through the file list - proved by simulation to give every file the status, value and artifacts of a fresh process, for every project (cyclic, missing, failing, two-out files included), every order, repetition and doubled file list, with a lemma refuting it for the per-invocation out lock of the original code. Tied to the real binary: the extracted machine is run on every invocation below (per-file status, exit status, evaluation sequence by TRACE markers, artifacts written) and generated projects of 2..6 files (entries with out statements in five formats, shared libraries, files both built and imported, files failing at parse/type-check/run time before or after their out statement, paths spelled differently, a file named twice) built alone, in every order up to 4 files and random orders beyond, in every 2-file sub-batch, each invocation run twice, and by `ucg build -r .`; per-file status, exit status and every artifact's bytes must equal the stand-alone builds",
   note="files are abstracted in the model to their imports, number of out statements and whether they fail; diagnostic text is not compared (not part of the property); concurrent modification of files is outside",
   technique="Coq proof (invariant over the fold of build_file through the shared Environment) + batch/stand-alone correspondence through the ucg binary"),
 "C17": dict(category="proof",
   text="partial: Coq theorems, for every source text, about the positions the tokenizer attaches to tokens - which are the positions every parse error and every opcode carries: they are the true line and column of the token's first byte; a token that starts inside a byte span is reported on a line of that span; text put in front (ending with a line feed) moves every later position by exactly the lines added and leaves the column; text put behind changes no earlier token; and the opcodes of a statement do not depend on the neighbouring statements. That the parser and the evaluator report the position of the failing token / operand of the faulty statement (and list the calling statement for a fault in a function body) is decided against the implementation: generated multi-line programs with one fault of every kind, each in several forms (literal operand, operand bound earlier, operand returned by a function defined earlier), at every statement position and nesting position, each also with 1..3 statements inserted before",
   note="positions are dropped in the VM model (C01), so 'the error carries the failing operand's position' is observed, not proved; a syntax diagnostic may point at the first token after the faulty statement, where the parser notices the fault",
   technique="Coq proof (token position theorems: exactness, span, prefix shift, suffix independence; translate distributes over statement lists) + fault-injection correspondence on the real evaluator"),
 "C20": dict(category="proof",
   text="partial: Coq state machine of the server's document store (full-text sync: open/change replace the text, close removes it and falls back to disk; the workspace view is the disk overlaid by the open documents) with the analysis abstract: after any message sequence the store is a function of the current texts only, the diagnostics published last for a document are the analysis of its current text, and re-sending the texts yields what a fresh server yields. Everything about the real analysis is decided against the running server: generated sessions of 1..30 messages over 1..3 documents (generated, token-mutated, truncated, soup and CRLF texts; positions at token starts, inside tokens, at and past line ends, beyond the document up to u32::MAX) driven over stdio; the server must stay alive and answer every request, every reported range must lie in the document it names, final diagnostics and workspace symbols must equal a fresh server's on the final texts, syntax diagnostics must agree with the compiler's parser in presence and position, and texts that `ucg build` accepts must have no diagnostics",
   note="the analysis itself (tokenise/parse/type-check, hover, completion) is not modelled; one listed known finding (positions are byte columns / LF lines, not UTF-16 / CR-aware)",
   technique="Coq proof (document-store refinement with abstract analysis) + session-level correspondence with the running server, a fresh server and the compiler's parser"),
 "C12": dict(category="proof",
   text="Coq model of src/convert/xml.rs (document tuple -> writer events, every error in the order the checks fire), of the xml-rs EventWriter (indentation flags, namespace stack, escape tables) and of an independent XML 1.0 reader. Proved: the events written are those of the tree the document describes (NULL attrs/children/text omitted); the conversion fails exactly for the inexpressible documents; everything written as text or attribute value consists of XML characters; the escape tables are inverted by a reader; every well-formed tree is written as a document that reads back as exactly the tree written, which differs from the described tree only by whitespace-only text nodes from indentation; with refutation lemmas for the side conditions (CR in text, TAB in attribute values, unescaped namespace uri). Tied to the real converter on every generated document (bytes and error message identical to the model) and the property is decided on the real output with expat as independent parser, against a python description of the tree and against the model's as_written tree",
   note="xml-rs is third party and re-modelled (compared byte for byte); the reader works on bytes (no UTF-8 validation beyond U+FFFE/U+FFFF, XML 1.0 rules only); whitespace-only text from indentation is treated as layout; six listed known findings (CR in text, TAB in attributes, unescaped namespace uri, shadowed namespace re-declaration, non-element root, encoding label)",
   technique="Coq proof (writer/reader round trip by induction over the tree with the writer's state; error characterisation) + byte-level correspondence + independent parser on the real output"),
 "C13": dict(category="proof",
   text="Coq state machine of the assertion collector and the `ucg test` driver: the verdict of each file equals its specification (builds and all assertions ok), independent of the other files and their order, exit status non-zero iff some file fails, each assertion logged exactly once; a lemma shows the shared collector of the original code refuted this. Tied to the real binary by running generated test files in every order and comparing verdicts, logs and exit status with the extracted model and with the generator's ground truth",
   note="per-file build abstracted to the list of asserted values; asserts in imported files and directory recursion order not modelled",
   technique="Coq proof (fold invariant over the file list) + correspondence through the ucg binary"),
 "C14": dict(category="proof",
   text="Coq model of the out hook over an abstract file system and lock set: right artifact name, bytes equal to what `convert` yields, a second out statement is an error, and a failed conversion leaves every file unchanged (with a lemma refuting this for the original create-before-convert order). Tied to the real binary on every registered converter x convertible/inconvertible values x pre-existing artifacts x 0/1/2 out statements",
   note="converters are an abstract function in the model, read from the implementation's `convert` expression; OS-level write failures are not modelled",
   technique="Coq proof (case analysis of the out step) + correspondence through the ucg binary"),
}

PENDING_REASON = "check not built yet (work in progress, see DESIGN.md section 8 for the order); not a claim that the technique cannot apply"


def main():
    props = [json.loads(l) for l in open(os.path.join(HERE, "properties.jsonl"))]
    checks = []
    na = []
    for p in props:
        pid = p["id"]
        c = CHECKS.get(pid)
        if not c:
            na.append({"property_id": pid, "reason": c.get("reason") if c else PENDING_REASON})
            continue
        if c["category"] == "proof" and not os.path.exists(os.path.join(HERE, "coq", "theories", "props", pid + "_Props.v")):
            c = dict(c, category="exploration")      # the obligations file is not integrated yet
        checks.append({
            "property_id": pid,
            "quick_cmd": "./check %s --tier quick" % pid,
            "thorough_cmd": "./check %s --tier thorough" % pid,
            "evidence_file": "/verif/evidence/%s.json" % pid,
            "replay_cmd_template": "./check %s --replay {path}" % pid,
            "engine": "coq-proof",
            "level_claimed": {"category": c["category"], "text": c["text"], "design_ref": "DESIGN.md section 5 " + pid},
            "level_note": c["note"],
            "technique": c["technique"],
        })
    m = {
        "version": 1,
        "setup_cmd": "./check setup",
        "hooks": {
            "guard": "ucg_verif",
            "enable": "RUSTFLAGS=\"--cfg ucg_verif\" (reserved; no source hook is needed so far: the harness uses public items of ucglib and the ucg binary)",
            "baseline_off_cmd": "cd /repo && cargo test --workspace --no-fail-fast --offline",
            "source_commits": [],
            "add_only": True,
        },
        "engines": [
            {"name": "coq-proof", "path": "coq/", "serves_properties": sorted(CHECKS),
             "kind_free_text": "Coq 8.16 models + theorems (coq/theories), tables regenerated from /repo by translate/*.py into coq/gen, extraction to OCaml (ocaml/) for the correspondence"},
            {"name": "harness", "path": "harness/", "serves_properties": sorted(CHECKS),
             "kind_free_text": "Rust crate linked against /repo's ucglib + the ucg binary built from /repo's working tree, driven by props/*.py"},
        ],
        "checks": checks,
        "not_applicable": na,
        "notes": "fix: commits made in /repo are listed in KNOWN_FINDINGS.json (status fixed); known findings (status known) print KNOWN-FINDING lines",
    }
    with open(os.path.join(HERE, "MANIFEST.json"), "w") as f:
        json.dump(m, f, indent=1)
    print("MANIFEST.json: %d checks, %d not yet claimed" % (len(checks), len(na)))


if __name__ == "__main__":
    main()
