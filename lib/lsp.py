"""A minimal LSP client for `ucg lsp` over stdio (Content-Length framing), used by props/c20.py."""
import json
import os
import queue
import subprocess
import threading
import time

import common as C


class ServerDied(Exception):
    pass


class NoAnswer(Exception):
    pass


class Server:
    def __init__(self, root, timeout=15):
        self.root = root
        self.timeout = timeout
        self.p = subprocess.Popen([C.UCG_BIN, "lsp"], cwd=root, env=C.ENV, stdin=subprocess.PIPE, stdout=subprocess.PIPE,
                                  stderr=subprocess.PIPE)
        self.q = queue.Queue()
        self.stderr = []
        self.pending = []          # messages read but not yet consumed
        self.next_id = 1
        self.t = threading.Thread(target=self._reader, daemon=True)
        self.t.start()
        self.t2 = threading.Thread(target=self._err_reader, daemon=True)
        self.t2.start()
        r = self.request("initialize", {"processId": None, "rootUri": "file://" + root, "capabilities": {}})
        self.capabilities = r.get("result", {}).get("capabilities")
        self.notify("initialized", {})

    def _err_reader(self):
        for line in self.p.stderr:
            self.stderr.append(line.decode("utf-8", "replace"))
            if len(self.stderr) > 200:
                del self.stderr[:100]

    def _reader(self):
        f = self.p.stdout
        try:
            while True:
                n = None
                while True:
                    line = f.readline()
                    if not line:
                        self.q.put(None)
                        return
                    line = line.strip()
                    if not line:
                        break
                    if line.lower().startswith(b"content-length:"):
                        n = int(line.split(b":")[1])
                if n is None:
                    continue
                body = f.read(n)
                self.q.put(json.loads(body.decode("utf-8")))
        except Exception as e:      # pragma: no cover
            self.q.put(None)

    def _send(self, msg):
        body = json.dumps(msg).encode("utf-8")
        try:
            self.p.stdin.write(b"Content-Length: %d\r\n\r\n" % len(body) + body)
            self.p.stdin.flush()
        except (BrokenPipeError, OSError):
            raise ServerDied("cannot write to the server (exit status %r)\n%s" % (self.p.poll(), "".join(self.stderr[-20:])))

    def _next(self, deadline):
        rem = deadline - time.time()
        if rem <= 0:
            raise NoAnswer()
        try:
            m = self.q.get(timeout=rem)
        except queue.Empty:
            raise NoAnswer()
        if m is None:
            self.p.wait(timeout=5)
            raise ServerDied("the server closed its output (exit status %r)\n%s" % (self.p.poll(), "".join(self.stderr[-20:])))
        return m

    def notify(self, method, params):
        self._send({"jsonrpc": "2.0", "method": method, "params": params})

    def request(self, method, params):
        rid = self.next_id
        self.next_id += 1
        self._send({"jsonrpc": "2.0", "id": rid, "method": method, "params": params})
        deadline = time.time() + self.timeout
        while True:
            m = self._next(deadline)
            if m.get("id") == rid and "method" not in m:
                return m
            self.pending.append(m)

    def wait_diagnostics(self, uri):
        """the next publishDiagnostics for uri (messages read meanwhile are kept)"""
        for i, m in enumerate(self.pending):
            if m.get("method") == "textDocument/publishDiagnostics" and m["params"]["uri"] == uri:
                del self.pending[i]
                return m["params"]["diagnostics"]
        deadline = time.time() + self.timeout
        while True:
            m = self._next(deadline)
            if m.get("method") == "textDocument/publishDiagnostics" and m["params"]["uri"] == uri:
                return m["params"]["diagnostics"]
            self.pending.append(m)

    def alive(self):
        return self.p.poll() is None

    def close(self):
        """orderly shutdown; returns the exit status (None if it had to be killed)"""
        rc = None
        try:
            self.request("shutdown", None)
            self.notify("exit", None)
            rc = self.p.wait(timeout=10)
        except Exception:
            pass
        finally:
            if self.p.poll() is None:
                self.p.kill()
                self.p.wait()
            for s in (self.p.stdin, self.p.stdout, self.p.stderr):
                try:
                    s.close()
                except Exception:
                    pass
        return rc
