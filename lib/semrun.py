"""Running generated programs through the implementation (harness eval / ucg binary) and through the
extracted definitional semantics, and comparing the outcomes."""
import common as C
import programs as P
import sx

NAN_BITS = "nan"


def canon_fbits(bits):
    bits = int(bits)
    exp = (bits >> 52) & 0x7FF
    frac = bits & ((1 << 52) - 1)
    if exp == 0x7FF and frac != 0:
        return NAN_BITS          # NaN sign/payload carry no meaning
    return bits


def mval(x):
    """model value s-expression -> comparable python value (funcs/modules lower to NULL like Val)"""
    t = x[0]
    if t == "null":
        return ("e",)
    if t == "bool":
        return ("b", x[1] == "1")
    if t == "int":
        return ("i", int(x[1]))
    if t == "float":
        return ("f", canon_fbits(x[1]))
    if t == "str":
        return ("s", C.unhex(x[1]).decode("utf-8", "replace"))
    if t == "list":
        return ("l", [mval(y) for y in x[1:]])
    if t == "tuple":
        return ("t", [(C.unhex(y[0]).decode("utf-8", "replace"), mval(y[1])) for y in x[1:]])
    if t in ("func", "module"):
        return ("e",)
    raise ValueError(x)


def ival(j):
    """harness Val JSON -> comparable python value"""
    if j is None:
        return ("e",)
    if isinstance(j, bool):
        return ("b", j)
    if "i" in j:
        return ("i", int(j["i"]))
    if "f" in j:
        return ("f", canon_fbits(j["f"]))
    if "s" in j:
        return ("s", j["s"])
    if "l" in j:
        return ("l", [ival(x) for x in j["l"]])
    if "t" in j:
        return ("t", [(k, ival(x)) for k, x in j["t"]])
    if "c" in j:
        return ("c",)
    raise ValueError(j)


def impl_outcome(r):
    """-> (kind, payload): ok bindings / err text / parse / panic"""
    if "ok" in r:
        return "ok", ival(r["ok"])
    if "panic" in r or "crash" in r:
        return "panic", r
    e = r.get("err", "")
    if "ParseError" in e:
        return "parse", e
    return "err", e


def model_outcome(m):
    k = m.split(" ")[0]
    if k == "ok":
        return "ok", ("t", [(C.unhex(y[0]).decode("utf-8", "replace"), mval(y[1])) for y in sx.parse(m[3:])])
    return k, None


def run_impl(texts, strict=True):
    return [impl_outcome(r) for r in C.harness("eval", [{"src": t, "strict": strict} for t in texts])]


def run_model(progs, fuel=400, strict=True, ordered=True):
    return [model_outcome(m) for m in C.model("sem", [P.prog_sexp(p, fuel=fuel, strict=strict, ordered=ordered) for p in progs])]


def compare(impl, model):
    """None if they agree (or the model abstains), else a short reason"""
    ik, iv = impl
    mk, mv = model
    if mk in ("unsup", "fuel") or mk.startswith("error:stack_overflow") or mk.startswith('{"crash"'):
        # the model abstains: outside its fragment, out of fuel, or the value is too large for the runner's stack
        # (a program about size - e.g. a range of 2^61 elements, a string squared five times - not about meaning; the runner process
        # itself may be killed by its memory limit: {"crash": rc})
        return None
    if ik == "parse":
        return "generated text does not parse"
    if ik == "panic":
        return "implementation panicked"
    if mk == "err" and ik == "err":
        return None
    if mk == "ok" and ik == "ok":
        return None if mv == iv else "bound values differ"
    return "outcome differs: semantics says %s, build says %s" % (mk, ik)


def shrink_program(prog, still_fails, budget=200):
    """delete statements / replace sub-expressions by literals while the failure persists"""
    cur = list(prog)
    changed = True
    while changed and budget > 0:
        changed = False
        for i in range(len(cur) - 1, -1, -1):
            cand = cur[:i] + cur[i + 1:]
            budget -= 1
            if cand and still_fails(cand):
                cur = cand
                changed = True
                break
    return cur
